//! C19 — privileged instructions reject callers without the required role.
//!
//! Mechanism: *authority-mutation replay*. Every successful transaction of the traced workloads
//! (bootstrap, exchange workload, configuration / oracle / GT / GLV / treasury / timelock scenarios)
//! is re-executed from its own pre-state snapshot, instruction by instruction, with the authority
//! mutated:
//!   A. same signer and accounts after the signer's required role was revoked through the real
//!      `revoke_role` (discriminating: nothing else changed);
//!   B. the signer replaced by a stranger holding no role;
//!   C. the signer replaced by a key that holds every *other* role.
//! All variants must be rejected. The table below (instruction → documented privilege) is written from
//! the instruction documentation, independently of the `#[access_control]` attributes.
//!
//! Honest note: "a rejection leaves all accounts unchanged" follows from transaction atomicity, which
//! the runtime (here: hostsvm) provides; what is observed is the rejection.
//!
//! Five programs are covered (store, treasury, timelock, liquidity-provider, competition), each with
//! its own table. Treasury / timelock check their roles through a CPI into the store (`check_role`),
//! so the same three variants apply to them; the liquidity-provider program has a recorded authority
//! and the competition callbacks accept only the store's callback-authority PDA (variants B and C).
use crate::sim::Sim;
use crate::world::ix as ix_;
use crate::world::{
    competition as wc,
    exchange::{load, OrderKind, OrderReq},
    lp as wlp, timelock as wtl, treasury as wtr, *,
};
use anchor_lang::{prelude::Pubkey, solana_program::{hash::hashv, instruction::{AccountMeta, Instruction}}};
use gmsol_store::states::{Position, Store};
use gmsol_utils::role::RoleKey;
use hostsvm::{token, Svm, TxError, TxMeta};
use std::collections::{BTreeMap, BTreeSet};
use vcommon::{json, monitor::{guard, run_shards}, Args, Monitor};

#[derive(Clone, Copy, Debug, PartialEq, Eq)]
pub enum Priv {
    /// Holder of `__TLD_<role>`, `<role>` being the instruction's `role` argument (timelock approvals).
    TimelockedRoleArg,
    /// The authority recorded in the program's own global state (liquidity-provider program).
    ProgramAuthority,
    /// The store program's callback-authority PDA (competition callbacks).
    CallbackAuthority,
    /// Store authority (admin) only.
    Admin,
    /// Holder of the named store role.
    Role(&'static str),
    /// MARKET_KEEPER or MARKET_CONFIG_KEEPER (policy details: C20).
    MarketConfig,
    /// Bound to a specific key recorded in an account (owner, receiver, buffer authority, …);
    /// a stranger must be rejected.
    Bound,
    /// Owner, or ORDER_KEEPER for terminal actions (details: C23); a stranger must be rejected.
    OwnerOrKeeper,
    /// Needs no privilege by design (acts on the signer's own accounts / read-only / anyone may pay).
    Open,
}

use Priv::*;

pub const STORE_TABLE: &[(&str, Priv)] = &[
    ("initialize", Open),
    ("update_last_restarted_slot", Admin),
    ("transfer_store_authority", Admin),
    ("accept_store_authority", Bound),
    ("transfer_receiver", Bound),
    ("accept_receiver", Bound),
    ("set_token_map", Role(RoleKey::MARKET_KEEPER)),
    ("check_admin", Open),
    ("check_role", Open),
    ("has_admin", Open),
    ("has_role", Open),
    ("enable_role", Admin),
    ("disable_role", Admin),
    ("grant_role", Admin),
    ("revoke_role", Admin),
    ("insert_amount", Role(RoleKey::CONFIG_KEEPER)),
    ("insert_factor", Role(RoleKey::CONFIG_KEEPER)),
    ("insert_address", Role(RoleKey::CONFIG_KEEPER)),
    ("insert_order_fee_discount_for_referred_user", Role(RoleKey::MARKET_KEEPER)),
    ("toggle_feature", Role(RoleKey::FEATURE_KEEPER)),
    ("initialize_token_map", Open),
    ("push_to_token_map", Role(RoleKey::MARKET_KEEPER)),
    ("push_to_token_map_synthetic", Role(RoleKey::MARKET_KEEPER)),
    ("toggle_token_config", Role(RoleKey::MARKET_KEEPER)),
    ("toggle_token_price_adjustment", Role(RoleKey::MARKET_KEEPER)),
    ("set_feed_config_market_status_flag", Role(RoleKey::MARKET_KEEPER)),
    ("set_expected_provider", Role(RoleKey::MARKET_KEEPER)),
    ("set_feed_config_v2", Role(RoleKey::MARKET_KEEPER)),
    ("is_token_config_enabled", Open),
    ("token_expected_provider", Open),
    ("token_feed", Open),
    ("token_timestamp_adjustment", Open),
    ("token_name", Open),
    ("token_decimals", Open),
    ("token_precision", Open),
    ("initialize_oracle", Open),
    ("clear_all_prices", Role(RoleKey::ORACLE_CONTROLLER)),
    ("set_prices_from_price_feed", Role(RoleKey::ORACLE_CONTROLLER)),
    ("initialize_price_feed", Role(RoleKey::PRICE_KEEPER)),
    ("update_price_feed_with_chainlink", Role(RoleKey::PRICE_KEEPER)),
    ("update_price_feed_with_chainlink_idempotent", Role(RoleKey::PRICE_KEEPER)),
    ("initialize_market", Role(RoleKey::MARKET_KEEPER)),
    ("toggle_market", Role(RoleKey::MARKET_KEEPER)),
    ("market_transfer_in", Role(RoleKey::MARKET_KEEPER)),
    ("update_market_config", MarketConfig),
    ("update_market_config_flag", MarketConfig),
    ("update_market_config_with_buffer", MarketConfig),
    ("get_market_status", Open),
    ("get_market_token_price", Open),
    ("get_market_token_value", Open),
    ("initialize_market_config_buffer", Open),
    ("set_market_config_buffer_authority", Bound),
    ("close_market_config_buffer", Bound),
    ("push_to_market_config_buffer", Bound),
    ("set_market_config_updatable", Role(RoleKey::MARKET_KEEPER)),
    ("toggle_gt_minting", Role(RoleKey::MARKET_KEEPER)),
    ("claim_fees_from_market", Bound),
    ("initialize_market_vault", Role(RoleKey::MARKET_KEEPER)),
    ("use_claimable_account", Role(RoleKey::ORDER_KEEPER)),
    ("close_empty_claimable_account", Role(RoleKey::ORDER_KEEPER)),
    ("prepare_associated_token_account", Open),
    ("create_token_metadata", Role(RoleKey::MARKET_KEEPER)),
    ("update_token_metadata", Role(RoleKey::MARKET_KEEPER)),
    ("create_deposit", Open),
    ("close_deposit", OwnerOrKeeper),
    ("execute_deposit", Role(RoleKey::ORDER_KEEPER)),
    ("create_withdrawal", Open),
    ("close_withdrawal", OwnerOrKeeper),
    ("execute_withdrawal", Role(RoleKey::ORDER_KEEPER)),
    ("prepare_position", Open),
    ("create_order_v2", Open),
    ("close_order_v2", OwnerOrKeeper),
    ("settle_builder_fee", Open),
    ("cancel_order_if_no_position", Role(RoleKey::ORDER_KEEPER)),
    ("close_empty_position", Bound),
    ("prepare_trade_event_buffer", Open),
    ("update_order_v2", Bound),
    ("set_should_keep_position_account", Bound),
    ("execute_increase_or_swap_order_v2", Role(RoleKey::ORDER_KEEPER)),
    ("execute_decrease_order_v2", Role(RoleKey::ORDER_KEEPER)),
    ("liquidate", Role(RoleKey::ORDER_KEEPER)),
    ("update_adl_state", Role(RoleKey::ORDER_KEEPER)),
    ("auto_deleverage", Role(RoleKey::ORDER_KEEPER)),
    ("update_closed_state", Role(RoleKey::ORDER_KEEPER)),
    ("update_fees_state", Role(RoleKey::ORDER_KEEPER)),
    ("create_shift", Open),
    ("execute_shift", Role(RoleKey::ORDER_KEEPER)),
    ("close_shift", OwnerOrKeeper),
    ("initialize_gt", Role(RoleKey::MARKET_KEEPER)),
    ("gt_set_order_fee_discount_factors", Role(RoleKey::MARKET_KEEPER)),
    ("gt_set_referral_reward_factors", Role(RoleKey::GT_CONTROLLER)),
    ("gt_set_exchange_time_window", Role(RoleKey::GT_CONTROLLER)),
    ("prepare_gt_exchange_vault", Open),
    ("confirm_gt_exchange_vault_v2", Role(RoleKey::GT_CONTROLLER)),
    ("request_gt_exchange", Open),
    ("close_gt_exchange", Role(RoleKey::GT_CONTROLLER)),
    ("update_gt_cumulative_inv_cost_factor", Role(RoleKey::GT_CONTROLLER)),
    ("mint_gt_reward", Role(RoleKey::GT_CONTROLLER)),
    ("prepare_user", Open),
    ("initialize_referral_code", Open),
    ("set_referrer", Open),
    ("set_builder_fee_factor", Open),
    ("transfer_referral_code", Bound),
    ("cancel_referral_code_transfer", Bound),
    ("accept_referral_code", Bound),
    ("initialize_glv", Role(RoleKey::MARKET_KEEPER)),
    ("update_glv_market_config", Role(RoleKey::MARKET_KEEPER)),
    ("toggle_glv_market_flag", Role(RoleKey::MARKET_KEEPER)),
    ("update_glv_config", Role(RoleKey::MARKET_KEEPER)),
    ("insert_glv_market", Role(RoleKey::MARKET_KEEPER)),
    ("remove_glv_market", Role(RoleKey::MARKET_KEEPER)),
    ("create_glv_deposit", Open),
    ("close_glv_deposit", OwnerOrKeeper),
    ("execute_glv_deposit", Role(RoleKey::ORDER_KEEPER)),
    ("create_glv_withdrawal", Open),
    ("close_glv_withdrawal", OwnerOrKeeper),
    ("execute_glv_withdrawal", Role(RoleKey::ORDER_KEEPER)),
    ("create_glv_shift", Role(RoleKey::ORDER_KEEPER)),
    ("close_glv_shift", Role(RoleKey::ORDER_KEEPER)),
    ("execute_glv_shift", Role(RoleKey::ORDER_KEEPER)),
    ("get_glv_token_value", Open),
    ("migrate_referral_code", Role(RoleKey::MIGRATION_KEEPER)),
    ("initialize_callback_authority", Open),
    ("close_virtual_inventory", Role(RoleKey::MARKET_KEEPER)),
    ("disable_virtual_inventory", Role(RoleKey::MARKET_KEEPER)),
    ("leave_disabled_virtual_inventory", Role(RoleKey::MARKET_KEEPER)),
    ("create_virtual_inventory_for_swaps", Role(RoleKey::MARKET_KEEPER)),
    ("join_virtual_inventory_for_swaps", Role(RoleKey::MARKET_KEEPER)),
    ("leave_virtual_inventory_for_swaps", Role(RoleKey::MARKET_KEEPER)),
    ("create_virtual_inventory_for_positions", Role(RoleKey::MARKET_KEEPER)),
    ("join_virtual_inventory_for_positions", Role(RoleKey::MARKET_KEEPER)),
    ("leave_virtual_inventory_for_positions", Role(RoleKey::MARKET_KEEPER)),
];

pub fn disc(name: &str) -> [u8; 8] {
    let h = hashv(&[b"global:", name.as_bytes()]).to_bytes();
    let mut d = [0u8; 8];
    d.copy_from_slice(&h[..8]);
    d
}

use gmsol_timelock::roles as tlr;
use gmsol_treasury::roles as trr;

/// Treasury program: every role is a store role checked through a `check_role` CPI ("# CHECK: Only
/// TREASURY_* can use" on each handler).
pub const TREASURY_TABLE: &[(&str, Priv)] = &[
    // anyone may pay; the receiver PDA accepts a hand-over the store's receiver started
    ("initialize_config", Open),
    ("set_treasury_vault_config", Role(trr::TREASURY_ADMIN)),
    ("set_gt_factor", Role(trr::TREASURY_ADMIN)),
    ("set_buyback_factor", Role(trr::TREASURY_ADMIN)),
    ("initialize_treasury_vault_config", Role(trr::TREASURY_ADMIN)),
    ("insert_token_to_treasury_vault", Role(trr::TREASURY_ADMIN)),
    ("remove_token_from_treasury_vault", Role(trr::TREASURY_ADMIN)),
    ("toggle_token_flag", Role(trr::TREASURY_ADMIN)),
    ("deposit_to_treasury_vault", Role(trr::TREASURY_KEEPER)),
    ("withdraw_from_treasury_vault", Role(trr::TREASURY_WITHDRAWER)),
    ("confirm_gt_buyback", Role(trr::TREASURY_KEEPER)),
    ("transfer_receiver", Role(trr::TREASURY_OWNER)),
    ("set_referral_reward", Role(trr::TREASURY_ADMIN)),
    ("claim_fees", Role(trr::TREASURY_KEEPER)),
    ("prepare_gt_bank", Role(trr::TREASURY_KEEPER)),
    ("sync_gt_bank_v2", Role(trr::TREASURY_WITHDRAWER)),
    // the owner of the GT exchange ("the ownership should be checked by the CPI")
    ("complete_gt_exchange", Bound),
    ("create_swap_v2", Role(trr::TREASURY_KEEPER)),
    ("cancel_swap", Role(trr::TREASURY_KEEPER)),
];

/// Timelock program ("# CHECK: Only TIMELOCK_* can use"; approvals need `__TLD_<role>`).
pub const TIMELOCK_TABLE: &[(&str, Priv)] = &[
    ("initialize_config", Role(tlr::TIMELOCK_ADMIN)),
    ("increase_delay", Role(tlr::TIMELOCK_ADMIN)),
    // anyone may pay for an executor account
    ("initialize_executor", Open),
    ("create_instruction_buffer", Role(tlr::TIMELOCK_KEEPER)),
    ("approve_instruction", TimelockedRoleArg),
    ("approve_instructions", TimelockedRoleArg),
    ("cancel_instruction", Role(tlr::TIMELOCK_ADMIN)),
    ("cancel_instructions", Role(tlr::TIMELOCK_ADMIN)),
    ("execute_instruction", Role(tlr::TIMELOCK_KEEPER)),
    ("revoke_role", Role(tlr::TIMELOCKED_ADMIN)),
    ("set_expected_price_provider", Role(tlr::TIMELOCKED_MARKET_KEEPER)),
];

/// Liquidity-provider program ("the `authority` signer must match `global_state.authority`").
pub const LP_TABLE: &[(&str, Priv)] = &[
    // first caller becomes the authority (no privilege documented)
    ("initialize", Open),
    ("set_claim_enabled", ProgramAuthority),
    ("set_pricing_staleness", ProgramAuthority),
    ("update_apy_gradient_sparse", ProgramAuthority),
    ("update_apy_gradient_range", ProgramAuthority),
    ("stake_gm", Open),
    ("stake_glv", Open),
    // nobody signs: read-only reward computation
    ("calculate_gt_reward", Open),
    // owner of the position
    ("claim_gt", Bound),
    ("unstake_lp", Bound),
    ("update_min_stake_value", ProgramAuthority),
    ("transfer_authority", ProgramAuthority),
    // the recorded pending authority
    ("accept_authority", Bound),
    ("create_lp_token_controller", ProgramAuthority),
    ("disable_lp_token_controller", ProgramAuthority),
];

/// Competition program ("the callback-authority PDA (must be a signer)").
pub const COMPETITION_TABLE: &[(&str, Priv)] = &[
    // the payer becomes the authority of its own competition PDA
    ("initialize_competition", Open),
    ("create_participant_idempotent", Open),
    ("on_created", CallbackAuthority),
    ("on_updated", CallbackAuthority),
    ("on_executed", CallbackAuthority),
    ("on_closed", CallbackAuthority),
    // the trader that owns the participant account
    ("close_participant", Bound),
];

#[derive(Clone, Copy, Debug, PartialEq, Eq, PartialOrd, Ord)]
pub enum Prog {
    Store,
    Treasury,
    Timelock,
    Lp,
    Competition,
}

impl Prog {
    pub const ALL: [Prog; 5] = [Prog::Store, Prog::Treasury, Prog::Timelock, Prog::Lp, Prog::Competition];

    pub fn name(self) -> &'static str {
        match self {
            Prog::Store => "store",
            Prog::Treasury => "treasury",
            Prog::Timelock => "timelock",
            Prog::Lp => "liquidity_provider",
            Prog::Competition => "competition",
        }
    }

    pub fn id(self) -> Pubkey {
        match self {
            Prog::Store => STORE_PID,
            Prog::Treasury => gmsol_treasury::ID,
            Prog::Timelock => gmsol_timelock::ID,
            Prog::Lp => gmsol_liquidity_provider::ID,
            Prog::Competition => gmsol_competition::ID,
        }
    }

    pub fn table(self) -> &'static [(&'static str, Priv)] {
        match self {
            Prog::Store => STORE_TABLE,
            Prog::Treasury => TREASURY_TABLE,
            Prog::Timelock => TIMELOCK_TABLE,
            Prog::Lp => LP_TABLE,
            Prog::Competition => COMPETITION_TABLE,
        }
    }

    /// The program's `lib.rs` (instruction names only: used to check that the table is complete).
    fn source(self) -> &'static str {
        match self {
            Prog::Store => include_str!("/repo/programs/store/src/lib.rs"),
            Prog::Treasury => include_str!("/repo/programs/treasury/src/lib.rs"),
            Prog::Timelock => include_str!("/repo/programs/timelock/src/lib.rs"),
            Prog::Lp => include_str!("/repo/programs/liquidity-provider/src/lib.rs"),
            Prog::Competition => include_str!("/repo/programs/competition/src/lib.rs"),
        }
    }

    /// Names of the `pub fn`s directly inside the `#[program]` module.
    fn declared_instructions(self) -> Vec<String> {
        let src = self.source();
        let Some(p) = src.find("#[program]") else { return vec![] };
        let body = &src[p..];
        let body = &body[..body.find("\n}\n").unwrap_or(body.len())];
        body.lines()
            .filter_map(|l| l.strip_prefix("    pub fn "))
            .map(|r| r.chars().take_while(|c| c.is_alphanumeric() || *c == '_').collect())
            .collect()
    }

    /// Instructions missing from / unknown to the table (both empty = table complete).
    fn table_drift(self) -> (Vec<String>, Vec<String>) {
        let declared = self.declared_instructions();
        let missing = declared.iter().filter(|n| !self.table().iter().any(|(t, _)| t == n)).cloned().collect();
        let extra = self.table().iter().filter(|(t, _)| !declared.iter().any(|n| n == t)).map(|(t, _)| t.to_string()).collect();
        (missing, extra)
    }
}

/// Counter / distinct-signature label: plain instruction name for the store, `program.name` otherwise.
fn label(p: Prog, name: &str) -> String {
    if p == Prog::Store {
        name.to_string()
    } else {
        format!("{}.{name}", p.name())
    }
}

fn lookup(ix: &Instruction) -> Option<(Prog, &'static str, Priv)> {
    if ix.data.len() < 8 {
        return None;
    }
    let prog = Prog::ALL.into_iter().find(|p| p.id() == ix.program_id)?;
    prog.table().iter().find(|(n, _)| disc(n) == ix.data[..8]).map(|(n, p)| (prog, *n, *p))
}

fn has_role(svm: &Svm, store: &Pubkey, who: &Pubkey, role: &str) -> bool {
    load::<Store>(svm, store).map(|s| s.role().has_role(who, role).unwrap_or(false)).unwrap_or(false)
}

fn substitute(ix: &Instruction, from: &Pubkey, to: &Pubkey) -> Instruction {
    let mut ix = ix.clone();
    for m in ix.accounts.iter_mut() {
        if m.pubkey == *from {
            m.pubkey = *to;
        }
    }
    ix
}

/// First argument of an instruction decoded as a borsh `String`.
fn borsh_string_arg(data: &[u8]) -> Option<String> {
    let len = u32::from_le_bytes(data.get(8..12)?.try_into().ok()?) as usize;
    String::from_utf8(data.get(12..12usize.checked_add(len)?)?.to_vec()).ok()
}

/// Store roles any one of which satisfies the privilege (empty: not a role privilege).
fn required_roles(p: Priv, ix: &Instruction) -> Vec<String> {
    match p {
        Role(r) => vec![r.to_string()],
        MarketConfig => vec![RoleKey::MARKET_KEEPER.to_string(), RoleKey::MARKET_CONFIG_KEEPER.to_string()],
        TimelockedRoleArg => borsh_string_arg(&ix.data).map(|r| vec![format!("{}{r}", tlr::TIMELOCKED)]).unwrap_or_default(),
        _ => vec![],
    }
}

/// Whether a cluster restart is pending for the store (then RESTART_ADMIN legitimately stands for
/// every role): asked of the store's own `has_restarted` inside the runtime context of a scratch copy.
fn restart_pending(svm: &Svm, store: &Pubkey) -> bool {
    let Some(st) = load::<Store>(svm, store) else { return false };
    let mut probe = svm.clone();
    user::in_runtime(&mut probe, move || st.has_restarted().unwrap_or(true)).unwrap_or(true)
}

fn role_ix(store: Pubkey, authority: Pubkey, user: Pubkey, role: &str, grant: bool) -> Instruction {
    if grant {
        six(gmsol_store::accounts::GrantRole { authority, store }, gmsol_store::instruction::GrantRole { user, role: role.to_string() })
    } else {
        six(gmsol_store::accounts::RevokeRole { authority, store }, gmsol_store::instruction::RevokeRole { user, role: role.to_string() })
    }
}

struct Env {
    store: Pubkey,
}

type Budget = BTreeMap<(Prog, &'static str), u32>;

/// Replay one traced transaction with mutated authorities.
fn replay(m: &mut Monitor, env: &Env, t: &Traced, per_name_budget: &mut Budget, shard: u64) {
    for (i, ix) in t.ixs.iter().enumerate() {
        let Some((prog, name, privilege)) = lookup(ix) else { continue };
        let label = label(prog, name);
        if privilege == Open {
            m.count(&format!("seen_open_{label}"));
            continue;
        }
        let budget = per_name_budget.entry((prog, name)).or_insert(0);
        if *budget >= 12 {
            continue;
        }
        // the signer of this instruction
        let Some(signer) = ix.accounts.iter().find(|a| a.is_signer && t.signers.contains(&a.pubkey)).map(|a| a.pubkey) else { continue };
        let roles = required_roles(privilege, ix);
        if privilege == TimelockedRoleArg && roles.is_empty() {
            m.count("harness_role_argument_not_decodable");
            continue;
        }
        // state right before instruction i
        let mut base = t.pre.clone();
        if i > 0 && base.process(&t.ixs[..i], &t.signers).is_err() {
            continue;
        }
        // sanity: the instruction alone succeeds from here
        {
            let mut s = base.clone();
            if s.process(std::slice::from_ref(ix), &t.signers).is_err() {
                m.count("replay_baseline_not_reproducible");
                continue;
            }
        }
        *budget += 1;
        m.count(&format!("positive_{label}"));
        let stranger = hostsvm::key("c19-stranger");
        let sig = |class: &str| format!("C19:{}:{name}:{class}", prog.name());
        let wit = |variant: &str| {
            json!({"shard": shard, "program": prog.name(), "instruction": name, "variant": variant, "privilege": format!("{privilege:?}"),
                "required_roles": roles, "signer": signer.to_string(),
                "accounts": ix.accounts.iter().map(|a| a.pubkey.to_string()).collect::<Vec<_>>()})
        };
        if m.wants_sample() {
            m.sample(wit("positive run recorded; replayed with A: role revoked, B: stranger, C: holder of all other roles"));
        }
        // The store as it is right before the instruction: its authority signs the grants / revocations
        // below (for a PDA authority — the timelock's ADMIN executor wallet — the harness lists the key as
        // a signer, which hostsvm accepts: equivalent to the timelock executing that grant / revocation).
        let store_state = load::<Store>(&base, &env.store);
        let authority = store_state.as_ref().map(|s| s.authority);
        let pending = restart_pending(&base, &env.store);
        if matches!(privilege, Role(_) | TimelockedRoleArg) && store_state.is_some() && !pending && Some(signer) != authority {
            if !roles.iter().any(|r| has_role(&base, &env.store, &signer, r)) {
                m.eval();
                m.violation(&sig("succeeded_without_required_role"), wit("baseline"));
            }
        }
        // Variant A: revoke the role of the same signer
        if let (false, Some(authority)) = (roles.is_empty(), authority) {
            let mut s = base.clone();
            let mut revoked = true;
            for r in &roles {
                if has_role(&s, &env.store, &signer, r) && s.process(&[role_ix(env.store, authority, signer, r, false)], &[authority]).is_err() {
                    revoked = false;
                }
            }
            if !revoked {
                m.count("variant_A_skipped_revoke_failed");
            } else if signer != authority {
                m.eval();
                match s.process(std::slice::from_ref(ix), &t.signers) {
                    Ok(_) => m.violation(&sig("accepted_after_role_revoked"), wit("A: same signer, role revoked")),
                    Err(_) => {
                        m.count(&format!("denied_A_{label}"));
                        m.nontrivial(format!("A:{label}").as_bytes());
                    }
                }
            }
        }
        // Variant B: a stranger instead of the signer
        {
            let mut s = base.clone();
            s.airdrop(&stranger, 100 * LAMPORTS);
            let ix2 = substitute(ix, &signer, &stranger);
            let signers: Vec<Pubkey> = t.signers.iter().map(|k| if *k == signer { stranger } else { *k }).collect();
            m.eval();
            match s.process(&[ix2], &signers) {
                Ok(_) => m.violation(&sig("accepted_from_stranger"), wit("B: stranger substituted for the signer")),
                Err(_) => {
                    m.count(&format!("denied_B_{label}"));
                    m.nontrivial(format!("B:{label}").as_bytes());
                }
            }
        }
        // Variant D (ownership-bound instructions): an *equipped* stranger — a signer with its own
        // prepared user account in the store, substituted together with the user account derived from the
        // signer. A bare stranger (variant B) is often rejected merely because its accounts do not exist.
        if matches!(privilege, Bound | OwnerOrKeeper) {
            let mut s = base.clone();
            let eq = hostsvm::key("c19-equipped-stranger");
            s.airdrop(&eq, 100 * LAMPORTS);
            let prepared = s.process(&[crate::world::user::prepare_user_ix(env.store, eq)], &[eq]).is_ok();
            if prepared {
                let ix2 = substitute(&substitute(ix, &signer, &eq), &crate::world::user::user_address(&env.store, &signer), &crate::world::user::user_address(&env.store, &eq));
                let signers: Vec<Pubkey> = t.signers.iter().map(|k| if *k == signer { eq } else { *k }).collect();
                m.eval();
                match s.process(&[ix2], &signers) {
                    Ok(_) => m.violation(&sig("accepted_from_equipped_stranger"), wit("D: stranger with its own user account substituted for the signer and the signer's user account")),
                    Err(_) => {
                        m.count(&format!("denied_D_{label}"));
                        m.nontrivial(format!("D:{label}").as_bytes());
                    }
                }
            } else {
                m.count("variant_D_skipped_prepare_user_failed");
            }
        }
        // Variant C: a key holding every other enabled role of the store incl. RESTART_ADMIN (and, for
        // non-role privileges, every role); RESTART_ADMIN is left out only while a restart is pending,
        // when it legitimately stands for any role.
        if !matches!(privilege, Role(_) | Admin | MarketConfig | TimelockedRoleArg | ProgramAuthority | CallbackAuthority) {
            continue;
        }
        let (Some(st), Some(authority)) = (store_state, authority) else {
            m.count("variant_C_skipped_no_store");
            continue;
        };
        let mut s = base.clone();
        let other = hostsvm::key("c19-other-roles");
        s.airdrop(&other, 100 * LAMPORTS);
        let all: Vec<String> = st.role().roles().filter_map(|r| r.ok().map(str::to_string)).collect();
        let mut ok = true;
        let mut granted = 0u64;
        for r in &all {
            if roles.contains(r) || (pending && r == RoleKey::RESTART_ADMIN) || !matches!(st.role().enabled_role_index(r), Ok(Some(_))) {
                continue;
            }
            if s.process(&[role_ix(env.store, authority, other, r, true)], &[authority]).is_err() {
                ok = false;
            } else {
                granted += 1;
            }
        }
        if !ok {
            m.count("variant_C_skipped_grant_failed");
            continue;
        }
        m.max("max_other_roles_granted_in_variant_C", granted);
        let ix2 = substitute(ix, &signer, &other);
        let signers: Vec<Pubkey> = t.signers.iter().map(|k| if *k == signer { other } else { *k }).collect();
        m.eval();
        match s.process(&[ix2], &signers) {
            Ok(_) => m.violation(&sig("accepted_from_holder_of_other_roles"), wit("C: signer replaced by a holder of all other roles")),
            Err(_) => {
                m.count(&format!("denied_C_{label}"));
                m.nontrivial(format!("C:{label}").as_bytes());
            }
        }
    }
}

/// Outcome log of scenario steps: a failed step only costs coverage (it is counted and, with
/// `C19_DEBUG=1`, printed to stderr).
struct Steps {
    failed: Vec<String>,
    debug: bool,
}

impl Steps {
    fn new() -> Steps {
        Steps { failed: vec![], debug: std::env::var_os("C19_DEBUG").is_some() }
    }

    fn ok<T>(&mut self, what: &str, r: Result<T, (TxError, TxMeta)>) -> Option<T> {
        match r {
            Ok(v) => Some(v),
            Err((e, meta)) => {
                if self.debug {
                    let n = meta.logs.len().saturating_sub(8);
                    eprintln!("C19 scenario step `{what}` failed: {e:?} at ix {:?}; logs: {:?}", meta.failed_ix, &meta.logs[n..]);
                }
                self.failed.push(what.to_string());
                None
            }
        }
    }

    fn go(&mut self, w: &mut World, what: &str, ix: Instruction, signers: &[Pubkey]) -> bool {
        let r = w.send(&[ix], signers);
        self.ok(what, r).is_some()
    }
}

const E18: u128 = crate::sim::E18;

const CAPS: [(&str, u128); 4] = [
    ("max_pool_amount_for_long_token", 1_000_000_000_000_000_000u128),
    ("max_pool_amount_for_short_token", 1_000_000_000_000_000_000u128),
    ("max_pool_value_for_deposit_for_long_token", 1_000_000_000 * UNIT),
    ("max_pool_value_for_deposit_for_short_token", 1_000_000_000 * UNIT),
];

/// A store with oracle, BTC (synthetic) / SOL / USDC, one BTC/USD[SOL-USDC] market with generous caps,
/// published prices and base liquidity. Not traced (callers enable tracing afterwards).
fn small_exchange_world() -> (World, [usize; 3], usize) {
    let mut w = World::bootstrap_store();
    w.svm.keep_logs = std::env::var_os("C19_DEBUG").is_some();
    w.bootstrap_oracle();
    let btc = w.add_token("BTC", 8, 2, true);
    let sol = w.add_token("SOL", 9, 4, false);
    let usdc = w.add_token("USDC", 6, 6, false);
    let mk = w.add_market(btc, sol, usdc);
    // a second SOL/USDC market (index 1) so that market tokens can be shifted
    let mk2 = w.add_market(sol, sol, usdc);
    for (m, k, v) in [mk, mk2].into_iter().flat_map(|m| CAPS.iter().map(move |(k, v)| (m, *k, *v))) {
        let _ = w.set_market_config(m, k, v);
    }
    publish(&mut w, [btc, sol, usdc], 60_000 * E18);
    let lp = w.add_user("lp");
    let (sol_m, usdc_m) = (w.tokens[sol].mint, w.tokens[usdc].mint);
    token::fund_ata(&mut w.svm, &lp, &sol_m, 1_000_000 * 1_000_000_000);
    token::fund_ata(&mut w.svm, &lp, &usdc_m, 100_000_000 * 1_000_000);
    let d = w.create_deposit(lp, mk, 6_000 * 1_000_000_000, 1_000_000 * 1_000_000, None, None, &[], &[], 0).unwrap_or_else(|(e, _)| panic!("bootstrap step `create_deposit` failed: {e:?}"));
    w.execute_deposit(d, true).unwrap_or_else(|(e, _)| panic!("bootstrap step `execute_deposit` failed: {e:?}"));
    w.close_deposit(lp, d).unwrap_or_else(|(e, _)| panic!("bootstrap step `close_deposit` failed: {e:?}"));
    (w, [btc, sol, usdc], mk)
}

fn publish(w: &mut World, [btc, sol, usdc]: [usize; 3], btc_p: u128) {
    let _ = w.set_price(btc, btc_p - btc_p / 10_000, btc_p, btc_p + btc_p / 10_000);
    let _ = w.set_price(sol, 150 * E18, 150 * E18, 150 * E18);
    let _ = w.set_price(usdc, E18, E18, E18);
}

/// Positive scenarios for store instructions the exchange workload rarely or never completes: feed
/// status flags, empty claimable accounts, order updates by the owner, cancellation of an order whose
/// position is gone, empty positions, the closed state, disabled virtual inventories.
fn store_more_scenarios(st: &mut Steps) -> (Env, Vec<Traced>) {
    use gmsol_store::{accounts as sa, instruction as si};
    use gmsol_utils::oracle::PriceProviderKind;
    let (mut w, toks, mk) = small_exchange_world();
    let [btc, _sol, usdc] = toks;
    let (keeper, store, token_map) = (w.keeper, w.store, w.token_map);
    let market = w.markets[mk].market;
    let (btc_mint, usdc_mint) = (w.tokens[btc].mint, w.tokens[usdc].mint);
    let alice = w.add_user("alice");
    let bob = w.add_user("bob");
    for u in [alice, bob] {
        token::fund_ata(&mut w.svm, &u, &usdc_mint, 10_000_000 * 1_000_000);
    }
    w.enable_trace(3);
    // feed config market-status flag (AllowPreMarket) of the Chainlink data-streams feed
    st.go(
        &mut w,
        "set_feed_config_market_status_flag",
        six(sa::SetFeedConfigMarketStatusFlag { authority: keeper, store, token_map, token: btc_mint }, si::SetFeedConfigMarketStatusFlag { provider: PriceProviderKind::ChainlinkDataStreams as u8, flag: 1, enable: true }),
        &[keeper],
    );
    // an empty claimable account is created and closed again
    {
        let ts = w.svm.clock.unix_timestamp;
        let ix = w.use_claimable_ix(keeper, usdc_mint, alice, ts, 0);
        st.go(&mut w, "use_claimable_account", ix, &[keeper]);
        let account = w.claimable_pda(&usdc_mint, &alice, ts);
        st.go(
            &mut w,
            "close_empty_claimable_account",
            six(
                sa::CloseEmptyClaimableAccount { authority: keeper, store, mint: usdc_mint, owner: alice, account, system_program: anchor_lang::system_program::ID, token_program: anchor_spl::token::spl_token::ID },
                si::CloseEmptyClaimableAccount { timestamp: ts },
            ),
            &[keeper],
        );
    }
    // closed state of the market from fresh prices
    {
        let mut ix = six(sa::UpdateClosedState { authority: keeper, store, token_map, oracle: w.oracle, market }, si::UpdateClosedState {});
        ix.accounts.extend(w.feed_metas(&w.ordered_tokens(mk)));
        st.go(&mut w, "update_closed_state", ix, &[keeper]);
    }
    // alice: long position, a pending limit decrease that she updates, then the position is closed by a
    // market decrease and the keeper cancels the orphaned limit order
    let unit = 60_000 * E18 * 100 / 100_000_000; // unit price of BTC (8 decimals)
    let size = 30_000 * UNIT;
    let mut inc = OrderReq::new(OrderKind::MarketIncrease, mk, true, false);
    inc.initial_collateral_delta_amount = 10_000 * 1_000_000;
    inc.size_delta_value = size;
    let opened = match st.ok("create_order(increase)", w.create_order(alice, &inc)) {
        Some(o) => {
            let r = w.execute_order(o, true);
            let ok = st.ok("execute_order(increase)", r).is_some();
            let _ = w.close_order(alice, o);
            ok
        }
        None => false,
    };
    if opened {
        let mut lim = OrderReq::new(OrderKind::LimitDecrease, mk, true, false);
        lim.size_delta_value = size;
        lim.trigger_price = Some(unit / 100 * 120);
        if let Some(l1) = st.ok("create_order(limit decrease)", w.create_order(alice, &lim)) {
            let ea = w.event_authority();
            st.go(
                &mut w,
                "update_order_v2",
                six(
                    sa::UpdateOrderV2 {
                        owner: alice,
                        store,
                        market,
                        order: l1,
                        callback_authority: None,
                        callback_program: None,
                        callback_shared_data_account: None,
                        callback_partitioned_data_account: None,
                        event_authority: ea,
                        program: STORE_PID,
                    },
                    si::UpdateOrderV2 {
                        params: gmsol_store::states::UpdateOrderParams { size_delta_value: None, acceptable_price: None, trigger_price: Some(unit / 100 * 130), min_output: None, valid_from_ts: None },
                    },
                ),
                &[alice],
            );
            st.go(&mut w, "set_should_keep_position_account", six(sa::SetShouldKeepPositionAccount { owner: alice, order: l1 }, si::SetShouldKeepPositionAccount { keep: true }), &[alice]);
            let mut dec = OrderReq::new(OrderKind::MarketDecrease, mk, true, false);
            dec.size_delta_value = size;
            if let Some(o) = st.ok("create_order(decrease)", w.create_order(alice, &dec)) {
                let r = w.execute_order(o, true);
                st.ok("execute_order(decrease)", r);
                let _ = w.close_order(alice, o);
            }
            match w.cancel_order_if_no_position_ix(keeper, l1) {
                Some(ix) => {
                    st.go(&mut w, "cancel_order_if_no_position", ix, &[keeper]);
                }
                None => st.failed.push("cancel_order_if_no_position(ix)".into()),
            }
        }
    }
    // bob: the position account prepared for an order he cancels stays empty and can be closed by him
    {
        let mut inc = OrderReq::new(OrderKind::MarketIncrease, mk, true, false);
        inc.initial_collateral_delta_amount = 1_000 * 1_000_000;
        inc.size_delta_value = 2_000 * UNIT;
        if let Some(o) = st.ok("create_order(bob)", w.create_order(bob, &inc)) {
            let r = w.close_order(bob, o);
            st.ok("close_order(bob)", r);
            let position = w.position_pda(&bob, mk, true, false);
            st.go(&mut w, "close_empty_position", six(sa::CloseEmptyPosition { owner: bob, store, position }, si::CloseEmptyPosition {}), &[bob]);
        }
    }
    // a market leaves a virtual inventory that was disabled while the market was still a member
    {
        let sys = anchor_lang::system_program::ID;
        let vi = pda::find_virtual_inventory_for_swaps_address(&store, 5, &STORE_PID).0;
        st.go(
            &mut w,
            "create_virtual_inventory_for_swaps",
            six(sa::CreateVirtualInventoryForSwaps { authority: keeper, store, virtual_inventory: vi, system_program: sys }, si::CreateVirtualInventoryForSwaps { index: 5, long_amount_decimals: 9, short_amount_decimals: 6 }),
            &[keeper],
        );
        st.go(&mut w, "join_virtual_inventory_for_swaps", six(sa::JoinVirtualInventoryForSwaps { authority: keeper, store, token_map, virtual_inventory: vi, market }, si::JoinVirtualInventoryForSwaps {}), &[keeper]);
        st.go(&mut w, "disable_virtual_inventory", six(sa::DisableVirtualInventory { authority: keeper, store, virtual_inventory: vi }, si::DisableVirtualInventory {}), &[keeper]);
        st.go(&mut w, "leave_disabled_virtual_inventory", six(sa::LeaveDisabledVirtualInventory { authority: keeper, store, virtual_inventory: vi, market }, si::LeaveDisabledVirtualInventory {}), &[keeper]);
    }
    // the base liquidity provider shifts market tokens from the BTC market to the SOL market
    {
        let lp = hostsvm::key("user:lp");
        if let Some(sh) = st.ok("create_shift", w.create_shift(lp, mk, mk + 1, 1_000_000_000, 0)) {
            let r = w.execute_shift(sh, true);
            st.ok("execute_shift", r);
            let r = w.close_shift(lp, sh);
            st.ok("close_shift", r);
        }
    }
    // bob: a 10x long that a 15 % drop of the index makes liquidatable
    {
        let mut inc = OrderReq::new(OrderKind::MarketIncrease, mk, true, false);
        inc.initial_collateral_delta_amount = 1_000 * 1_000_000;
        inc.size_delta_value = 10_000 * UNIT;
        if let Some(o) = st.ok("create_order(bob, 10x)", w.create_order(bob, &inc)) {
            let r = w.execute_order(o, true);
            if st.ok("execute_order(bob, 10x)", r).is_some() {
                let _ = w.close_order(bob, o);
                w.svm.warp(10);
                publish(&mut w, toks, 51_000 * E18);
                let r = w.liquidate(w.position_pda(&bob, mk, true, false));
                st.ok("liquidate", r);
            }
        }
    }
    let traces = w.take_trace();
    (Env { store }, traces)
}

/// ADL: low pnl-factor limits, long positions, the index price moved in the traders' favour until
/// `update_adl_state` enables ADL and an `auto_deleverage` succeeds.
fn adl_scenario(st: &mut Steps) -> (Env, Vec<Traced>) {
    let (mut w, toks, mk) = small_exchange_world();
    let usdc_mint = w.tokens[toks[2]].mint;
    let keeper = w.keeper;
    let _ = w.set_market_config(mk, "max_pnl_factor_for_long_adl", 5 * UNIT / 100);
    let _ = w.set_market_config(mk, "min_pnl_factor_after_long_adl", UNIT / 100);
    let mut positions = vec![];
    for t in 0..3u128 {
        let u = w.add_user(&format!("t{t}"));
        token::fund_ata(&mut w.svm, &u, &usdc_mint, 10_000_000 * 1_000_000);
        let mut req = OrderReq::new(OrderKind::MarketIncrease, mk, true, false);
        req.initial_collateral_delta_amount = (20_000 + 5_000 * t as u64) * 1_000_000;
        req.size_delta_value = (80_000 + 20_000 * t) * UNIT;
        if let Some(o) = st.ok("create_order(adl trader)", w.create_order(u, &req)) {
            let r = w.execute_order(o, true);
            if st.ok("execute_order(adl trader)", r).is_some() {
                positions.push(w.position_pda(&u, mk, true, false));
            }
        }
    }
    w.enable_trace(3);
    let mut btc_p = 60_000 * E18;
    let mut done = false;
    for _hop in 0..8 {
        w.svm.warp(10);
        btc_p = btc_p / 100 * 115;
        publish(&mut w, toks, btc_p);
        let ix = w.update_adl_state_ix(keeper, mk, true);
        let _ = w.send(&[ix], &[keeper]);
        for p in positions.clone() {
            let size = load::<Position>(&w.svm, &p).map(|p| p.state.size_in_usd).unwrap_or(0);
            if size == 0 {
                continue;
            }
            if w.auto_deleverage(p, size / 3 + 1).is_ok() {
                done = true;
            }
        }
        if done {
            break;
        }
    }
    if !done {
        st.failed.push("auto_deleverage".into());
    }
    let traces = w.take_trace();
    (Env { store: w.store }, traces)
}

/// Treasury: the whole GT-bank flow of the C37 monitor (world/treasury.rs) once, plus the receiver
/// hand-over, referral rewards, withdrawal and the treasury swap (create / cancel).
fn treasury_scenarios(st: &mut Steps) -> (Env, Vec<Traced>) {
    use anchor_spl::{associated_token, token::spl_token};
    use gmsol_treasury::{accounts as ta, instruction as ti};
    let sys = anchor_lang::system_program::ID;
    let (mut w, toks, mk) = small_exchange_world();
    let [_btc, sol, usdc] = toks;
    let (keeper, store) = (w.keeper, w.store);
    let (sol_mint, usdc_mint) = (w.tokens[sol].mint, w.tokens[usdc].mint);
    let u0 = w.add_user("u0");
    let _ = w.prepare_user(u0);
    // a position order so that the market holds claimable fees
    token::fund_ata(&mut w.svm, &u0, &usdc_mint, 1_000_000_000_000);
    let mut req = OrderReq::new(OrderKind::MarketIncrease, mk, false, false);
    req.size_delta_value = 40_000 * UNIT;
    req.initial_collateral_delta_amount = 8_000 * 1_000_000;
    if let Ok(o) = w.create_order(u0, &req) {
        let _ = w.execute_order(o, true);
        let _ = w.close_order(u0, o);
    }
    w.enable_trace(3);
    // enable_role / grant_role / transfer_receiver (store), initialize_config, initialize_treasury_vault_config,
    // set_treasury_vault_config
    let t = w.bootstrap_treasury(0);
    st.ok("initialize_gt", w.initialize_gt(&gt::GtParams { decimals: 7, initial_minting_cost: 100 * UNIT / 10_000_000, grow_factor: UNIT + UNIT / 100, grow_step: 1_000_000_000, ranks: vec![10_000_000, 100_000_000, 1_000_000_000] }));
    st.ok("insert_token_to_treasury_vault", w.treasury_insert_token(&t, usdc_mint));
    st.ok("toggle_token_flag", w.treasury_toggle_token_flag(&t, usdc_mint, "allow_deposit", true));
    st.ok("toggle_token_flag", w.treasury_toggle_token_flag(&t, usdc_mint, "allow_withdrawal", true));
    st.ok("insert_token_to_treasury_vault(sol)", w.treasury_insert_token(&t, sol_mint));
    st.ok("remove_token_from_treasury_vault", w.treasury_remove_token(&t, sol_mint));
    st.ok("set_gt_factor", w.treasury_set_gt_factor(&t, keeper, UNIT / 2));
    st.ok("set_buyback_factor", w.treasury_set_buyback_factor(&t, keeper, UNIT / 2));
    st.go(
        &mut w,
        "set_referral_reward",
        wtr::tix(ta::SetReferralReward { authority: keeper, store, config: t.config, store_program: STORE_PID }, ti::SetReferralReward { factors: vec![0, UNIT / 100, UNIT / 50, UNIT / 20] }),
        &[keeper],
    );
    st.ok("mint_gt_reward", w.mint_gt_reward(keeper, u0, 50_000_000));
    let window = w.gt_state().map(|g| g.exchange_time_window()).unwrap_or(86_400) as i64;
    let index = w.svm.clock.unix_timestamp / window;
    if let Some(vault) = st.ok("prepare_gt_exchange_vault", w.prepare_gt_exchange_vault(keeper, index)) {
        st.ok("prepare_gt_bank", w.prepare_gt_bank(&t, vault));
        st.ok("claim_fees", w.treasury_claim_fees(&t, mk, usdc_mint, 0));
        token::fund_ata(&mut w.svm, &t.receiver, &usdc_mint, 1_000_000_000);
        st.ok("deposit_to_treasury_vault", w.deposit_to_treasury_vault(&t, vault, usdc_mint));
        st.ok("request_gt_exchange", w.request_gt_exchange(u0, vault, 10_000_000));
        w.svm.warp(window - w.svm.clock.unix_timestamp % window + 10);
        publish(&mut w, toks, 60_000 * E18);
        st.ok("confirm_gt_buyback", w.confirm_gt_buyback(&t, vault));
        st.ok("sync_gt_bank_v2", w.sync_gt_bank(&t, vault, usdc_mint));
        st.ok("complete_gt_exchange", w.complete_gt_exchange(&t, u0, vault));
    }
    token::fund_ata(&mut w.svm, &keeper, &usdc_mint, 1);
    st.ok("withdraw_from_treasury_vault", w.withdraw_from_treasury_vault(&t, usdc_mint, 1_000, 6, token::ata(&keeper, &usdc_mint)));
    // treasury swap SOL (not a treasury token) -> USDC (deposit allowed) through the market, then cancel
    {
        token::fund_ata(&mut w.svm, &t.receiver, &sol_mint, 5_000_000_000);
        let nonce = w.next_nonce();
        let order = pda::find_order_address(&store, &t.receiver, &nonce, &STORE_PID).0;
        let user = w.user_pda(&t.receiver);
        let market = w.markets[mk].market;
        let mut create = wtr::tix(
            ta::CreateSwapV2 {
                authority: keeper,
                store,
                config: t.config,
                treasury_vault_config: t.vault_config,
                swap_in_token: sol_mint,
                swap_out_token: usdc_mint,
                swap_in_token_receiver_vault: token::ata(&t.receiver, &sol_mint),
                market,
                receiver: t.receiver,
                user,
                swap_in_token_escrow: token::ata(&order, &sol_mint),
                swap_out_token_escrow: token::ata(&order, &usdc_mint),
                order,
                event_authority: w.event_authority(),
                store_program: STORE_PID,
                token_program: spl_token::ID,
                associated_token_program: associated_token::ID,
                system_program: sys,
                callback_authority: None,
                callback_program: None,
                callback_shared_data_account: None,
                callback_partitioned_data_account: None,
            },
            ti::CreateSwapV2 { nonce, swap_path_length: 1, swap_in_amount: 1_000_000_000, min_swap_out_amount: None, callback_version: None },
        );
        create.accounts.push(AccountMeta::new_readonly(market, false));
        let ixs = vec![w.prepare_ata_ix(keeper, t.receiver, usdc_mint), w.prepare_ata_ix(keeper, order, sol_mint), w.prepare_ata_ix(keeper, order, usdc_mint), create];
        let r = w.send(&ixs, &[keeper]);
        if st.ok("create_swap_v2", r).is_some() {
            let cancel = wtr::tix(
                ta::CancelSwap {
                    authority: keeper,
                    store,
                    store_wallet: w.store_wallet(),
                    config: t.config,
                    receiver: t.receiver,
                    user,
                    swap_in_token: sol_mint,
                    swap_out_token: usdc_mint,
                    swap_in_token_receiver_vault: token::ata(&t.receiver, &sol_mint),
                    swap_out_token_receiver_vault: token::ata(&t.receiver, &usdc_mint),
                    swap_in_token_escrow: token::ata(&order, &sol_mint),
                    swap_out_token_escrow: token::ata(&order, &usdc_mint),
                    order,
                    event_authority: w.event_authority(),
                    store_program: STORE_PID,
                    token_program: spl_token::ID,
                    associated_token_program: associated_token::ID,
                    system_program: sys,
                },
                ti::CancelSwap {},
            );
            st.go(&mut w, "cancel_swap", cancel, &[keeper]);
        }
    }
    // TREASURY_OWNER starts handing the store's receiver role over to another key
    st.go(
        &mut w,
        "transfer_receiver",
        wtr::tix(
            ta::TransferReceiver { authority: keeper, store, config: t.config, receiver: t.receiver, next_receiver: hostsvm::key("c19:next-receiver"), store_program: STORE_PID, system_program: sys },
            ti::TransferReceiver {},
        ),
        &[keeper],
    );
    let traces = w.take_trace();
    (Env { store }, traces)
}

/// Timelock: executors, config, delay, buffers created / approved (single and batch) / cancelled
/// (single and batch) / executed after the delay, and the two timelock-bypassing instructions
/// (world/timelock.rs, written for the C36 monitor).
fn timelock_scenarios(st: &mut Steps) -> (Env, Vec<Traced>) {
    use gmsol_utils::oracle::PriceProviderKind;
    use wtl::*;
    let mut w = World::bootstrap_store();
    w.svm.keep_logs = std::env::var_os("C19_DEBUG").is_some();
    w.bootstrap_oracle();
    let sol = w.add_token("SOL", 9, 4, false);
    let sol_mint = w.tokens[sol].mint;
    let (store, keeper, token_map) = (w.store, w.keeper, w.token_map);
    let approver = hostsvm::key("c19:tl-approver");
    w.svm.airdrop(&approver, 1_000 * LAMPORTS);
    w.enable_trace(3);
    let pre = vec![(approver, timelocked_role(RoleKey::MARKET_KEEPER)), (approver, timelocked_role(RoleKey::CONFIG_KEEPER))];
    // initialize_executor x3, store role set-up, transfer_store_authority, initialize_config
    let t = w.bootstrap_timelock(store, &[ADMIN_EXECUTOR_ROLE, RoleKey::MARKET_KEEPER, RoleKey::CONFIG_KEEPER], 5, "c19", &pre);
    let (tl_admin, tl_keeper) = (t.tl_admin, t.tl_keeper);
    st.go(&mut w, "increase_delay", tl_increase_delay_ix(tl_admin, store, t.timelock_config, 1), &[tl_admin]);
    let delay = 6i64;
    let (ex, wallet) = (t.executors[2], t.wallets[2]);
    let buf = |i: u32| hostsvm::key(&format!("c19:tl-buffer:{i}"));
    let inner = |k: u64| insert_amount_ix(wallet, store, "oracle_max_age", 3_000 + k);
    // one buffer goes the whole way
    if st.ok("create_instruction_buffer", w.tl_create(tl_keeper, store, ex, buf(1), &inner(1))).is_some() {
        st.ok("approve_instruction", w.tl_approve(approver, store, RoleKey::CONFIG_KEEPER, buf(1)));
        w.svm.warp(delay + 1);
        match w.tl_execute(tl_keeper, store, buf(1)) {
            Some(r) => {
                st.ok("execute_instruction", r);
            }
            None => st.failed.push("execute_instruction(buffer unreadable)".into()),
        }
    }
    // batch approval, single and batch cancellation
    let mut made = vec![];
    for i in 2..=4u32 {
        if st.ok("create_instruction_buffer", w.tl_create(tl_keeper, store, ex, buf(i), &inner(i as u64))).is_some() {
            made.push(buf(i));
        }
    }
    if made.len() == 3 {
        st.go(&mut w, "approve_instructions", tl_approve_many_ix(approver, store, ex, RoleKey::CONFIG_KEEPER, &made[..2]), &[approver]);
        st.go(&mut w, "cancel_instruction", tl_cancel_ix(tl_admin, store, ex, tl_keeper, made[0]), &[tl_admin]);
        st.go(&mut w, "cancel_instructions", tl_cancel_many_ix(tl_admin, store, ex, tl_keeper, &made[1..]), &[tl_admin]);
    }
    // bypass instructions
    st.go(&mut w, "revoke_role(bypass)", tl_bypass_revoke_role_ix(tl_admin, store, keeper, RoleKey::FEATURE_KEEPER), &[tl_admin]);
    st.go(&mut w, "set_expected_price_provider", tl_bypass_set_expected_price_provider_ix(approver, store, token_map, sol_mint, PriceProviderKind::Pyth as u8), &[approver]);
    let traces = w.take_trace();
    (Env { store }, traces)
}

/// Liquidity-provider program: global state, controllers, every authority-only setter, stake / claim /
/// unstake by the owner, two-step authority hand-over (world/lp.rs, written for the C38 monitor).
fn lp_scenarios(st: &mut Steps) -> (Env, Vec<Traced>) {
    use gmsol_liquidity_provider as lpp;
    use wlp::*;
    let mut w = World::bootstrap_store();
    w.svm.keep_logs = std::env::var_os("C19_DEBUG").is_some();
    w.bootstrap_oracle();
    let btc = w.add_token("BTC", 8, 2, true);
    let sol = w.add_token("SOL", 9, 4, false);
    let usdc = w.add_token("USDC", 6, 6, false);
    let m0 = w.add_market(sol, sol, usdc);
    let toks = [btc, sol, usdc];
    publish(&mut w, toks, 60_000 * E18);
    let (sol_mint, usdc_mint) = (w.tokens[sol].mint, w.tokens[usdc].mint);
    let u = w.add_user("lp0");
    token::fund_ata(&mut w.svm, &u, &sol_mint, 1_000_000_000_000_000);
    token::fund_ata(&mut w.svm, &u, &usdc_mint, 1_000_000_000_000_000);
    let d = w.create_deposit(u, m0, 100 * 1_000_000_000, 10_000 * 1_000_000, None, None, &[], &[], 0).unwrap_or_else(|(e, _)| panic!("bootstrap step `create_deposit` failed: {e:?}"));
    w.execute_deposit(d, true).unwrap_or_else(|(e, _)| panic!("bootstrap step `execute_deposit` failed: {e:?}"));
    w.close_deposit(u, d).unwrap_or_else(|(e, _)| panic!("bootstrap step `close_deposit` failed: {e:?}"));
    let pu = w.prepare_user_ix(u);
    w.must("prepare_user", &[pu], &[u]);
    let mint = w.markets[m0].market_token;
    let store = w.store;
    let admin = hostsvm::key("c19:lp-admin");
    let next_admin = hostsvm::key("c19:lp-next-admin");
    w.svm.airdrop(&next_admin, 10 * LAMPORTS);
    w.enable_trace(3);
    // initialize_gt (store), initialize (open: the caller becomes the authority), grant, oracle
    w.lp_bootstrap(admin, &GtParams::like_tests(), 0, UNIT / 10);
    let gs = lp_global_state();
    for c in 0..2u64 {
        let ix = w.lp_create_controller_ix(admin, mint, c);
        st.go(&mut w, "create_lp_token_controller", ix, &[admin]);
    }
    let ix = w.lp_set_claim_enabled_ix(admin, true);
    st.go(&mut w, "set_claim_enabled", ix, &[admin]);
    st.go(&mut w, "set_pricing_staleness", ix_(LP_PID, lpp::accounts::SetPricingStaleness { global_state: gs, authority: admin }, lpp::instruction::SetPricingStaleness { staleness_seconds: 600 }), &[admin]);
    let ix = w.lp_update_min_stake_value_ix(admin, 1);
    st.go(&mut w, "update_min_stake_value", ix, &[admin]);
    let ix = w.lp_update_apy_sparse_ix(admin, vec![0, 1], vec![UNIT / 10, UNIT / 20]);
    st.go(&mut w, "update_apy_gradient_sparse", ix, &[admin]);
    let ix = w.lp_update_apy_range_ix(admin, 2, 3, vec![UNIT / 10, UNIT / 10]);
    st.go(&mut w, "update_apy_gradient_range", ix, &[admin]);
    publish(&mut w, toks, 60_000 * E18);
    let balance = token::token_amount(&w.svm, &token::ata(&u, &mint)).unwrap_or(0);
    let ix = w.lp_stake_gm_ix(u, m0, 0, 1, balance / 2);
    if st.go(&mut w, "stake_gm", ix, &[u]) {
        w.svm.warp(3_600);
        publish(&mut w, toks, 60_000 * E18);
        let ix = w.lp_claim_gt_ix(u, mint, 0, 1);
        st.go(&mut w, "claim_gt", ix, &[u]);
        w.svm.warp(3_600);
        let ix = w.lp_unstake_ix(u, mint, 0, 1, balance / 4);
        st.go(&mut w, "unstake_lp", ix, &[u]);
    }
    let ix = w.lp_disable_controller_ix(admin, lp_controller(&mint, 1));
    st.go(&mut w, "disable_lp_token_controller", ix, &[admin]);
    st.go(&mut w, "transfer_authority", ix_(LP_PID, lpp::accounts::TransferAuthority { global_state: gs, authority: admin }, lpp::instruction::TransferAuthority { new_authority: next_admin }), &[admin]);
    st.go(&mut w, "accept_authority", ix_(LP_PID, lpp::accounts::AcceptAuthority { global_state: gs, pending_authority: next_admin }, lpp::instruction::AcceptAuthority {}), &[next_admin]);
    let traces = w.take_trace();
    (Env { store }, traces)
}

/// Competition: the callbacks are sent directly with the store's callback-authority PDA listed as a
/// signer (harness shortcut of world/competition.rs, written for the C39 monitor: on chain only the
/// store can sign for it), plus `close_participant` by the trader after the end.
fn competition_scenarios(st: &mut Steps) -> (Env, Vec<Traced>) {
    use wc::*;
    let mut w = World::bootstrap_store();
    w.svm.keep_logs = std::env::var_os("C19_DEBUG").is_some();
    let store = w.store;
    let payer = hostsvm::key("c19:comp-payer");
    let trader = hostsvm::key("c19:comp-trader");
    w.svm.airdrop(&payer, 1_000 * LAMPORTS);
    w.svm.airdrop(&trader, 100 * LAMPORTS);
    w.enable_trace(3);
    let now = w.svm.clock.unix_timestamp;
    let p = CompParams { start_time: now + 10, end_time: now + 10_000, volume_threshold: 1_000 * UNIT, extension_duration: 60, extension_cap: 600, only_count_increase: false, volume_merge_window: 30 };
    st.go(&mut w, "initialize_competition", comp_initialize_ix(payer, &p), &[payer]);
    let comp = competition_pda(&payer, p.start_time);
    st.go(&mut w, "create_participant_idempotent", comp_create_participant_ix(payer, comp, trader), &[payer]);
    w.svm.warp(20);
    let part = participant_pda(&comp, &trader);
    let (order, position, td) = (hostsvm::key("c19:comp-order"), hostsvm::key("c19:comp-position"), hostsvm::key("c19:comp-trade-event"));
    let a1 = CallbackArgs::store_like(1);
    let signers = [payer, a1.authority];
    st.go(&mut w, "on_created", comp_on_created_ix(&a1, comp, part, trader, order, position), &signers);
    st.go(&mut w, "on_updated", comp_on_other_ix(&a1, false, comp, part, trader, order), &signers);
    let a2 = CallbackArgs::store_like(2);
    set_trade_data(&mut w.svm, td, trader, 0, 500 * UNIT);
    st.go(&mut w, "on_executed", comp_on_executed_ix(&a2, true, comp, part, trader, order, position, Some(td)), &signers);
    st.go(&mut w, "on_executed(failed order)", comp_on_executed_ix(&a2, false, comp, part, trader, order, position, None), &signers);
    st.go(&mut w, "on_closed", comp_on_other_ix(&a1, true, comp, part, trader, order), &signers);
    w.svm.warp(20_000);
    st.go(&mut w, "close_participant", comp_close_participant_ix(trader, comp), &[trader]);
    let traces = w.take_trace();
    (Env { store }, traces)
}


/// Additional positive scenarios (each instruction at least once, failures ignored: they only cost
/// coverage). Uses a dedicated world so that toggles do not disturb the exchange workload.
fn extra_scenarios() -> (Env, Vec<Traced>) {
    use gmsol_store::{accounts as sa, instruction as si};
    use gmsol_utils::oracle::PriceProviderKind;
    let mut w = World::bootstrap_store_with_trace(3);
    w.bootstrap_oracle();
    let btc = w.add_token("BTC", 8, 2, true);
    let sol = w.add_token("SOL", 9, 4, false);
    let usdc = w.add_token("USDC", 6, 6, false);
    let mk = w.add_market(btc, sol, usdc);
    let (keeper, admin, store, token_map) = (w.keeper, w.admin, w.store, w.token_map);
    let market = w.markets[mk].market;
    let sol_mint = w.tokens[sol].mint;
    let go = |w: &mut World, ix: Instruction, signers: &[Pubkey]| {
        let _ = w.send(&[ix], signers);
    };
    go(&mut w, six(sa::ToggleFeature { authority: keeper, store }, si::ToggleFeature { domain: "deposit".into(), action: "create".into(), enable: false }), &[keeper]);
    go(&mut w, six(sa::ToggleFeature { authority: keeper, store }, si::ToggleFeature { domain: "deposit".into(), action: "create".into(), enable: true }), &[keeper]);
    go(&mut w, six(sa::ToggleTokenConfig { authority: keeper, store, token_map }, si::ToggleTokenConfig { token: sol_mint, enable: false }), &[keeper]);
    go(&mut w, six(sa::ToggleTokenConfig { authority: keeper, store, token_map }, si::ToggleTokenConfig { token: sol_mint, enable: true }), &[keeper]);
    go(&mut w, six(sa::ToggleTokenConfig { authority: keeper, store, token_map }, si::ToggleTokenPriceAdjustment { token: sol_mint, enable: true }), &[keeper]);
    go(&mut w, six(sa::SetExpectedProvider { authority: keeper, store, token_map }, si::SetExpectedProvider { token: sol_mint, provider: PriceProviderKind::Pyth as u8 }), &[keeper]);
    go(&mut w, six(sa::SetExpectedProvider { authority: keeper, store, token_map }, si::SetExpectedProvider { token: sol_mint, provider: PriceProviderKind::ChainlinkDataStreams as u8 }), &[keeper]);
    go(
        &mut w,
        six(
            sa::SetFeedConfig { authority: keeper, store, token_map },
            si::SetFeedConfigV2 { token: sol_mint, provider: PriceProviderKind::ChainlinkDataStreams as u8, feed: None, timestamp_adjustment: Some(1), max_deviation_factor: Some(UNIT / 100) },
        ),
        &[keeper],
    );
    go(&mut w, six(sa::ToggleMarket { authority: keeper, store, market }, si::ToggleMarket { enable: false }), &[keeper]);
    go(&mut w, six(sa::ToggleMarket { authority: keeper, store, market }, si::ToggleMarket { enable: true }), &[keeper]);
    go(&mut w, six(sa::ToggleGTMinting { authority: keeper, store, market }, si::ToggleGtMinting { enable: true }), &[keeper]);
    go(&mut w, six(sa::InsertConfig { authority: keeper, store }, si::InsertAddress { key: "holding".into(), address: hostsvm::key("new-holding") }), &[keeper]);
    go(&mut w, six(sa::InsertConfig { authority: keeper, store }, si::InsertOrderFeeDiscountForReferredUser { factor: UNIT / 10 }), &[keeper]);
    // idempotent feed update
    {
        let ts = w.svm.clock.unix_timestamp;
        let e18 = crate::sim::E18;
        let r = w.report_for(sol, vcommon::big::b(149 * e18), vcommon::big::b(150 * e18), vcommon::big::b(151 * e18), ts);
        let ix = w.update_feed_ix(sol, r.compressed_full_report(), true, keeper);
        go(&mut w, ix, &[keeper]);
    }
    // config buffer by the keeper
    {
        let buffer = hostsvm::key("c19-cfgbuf");
        let init = six(
            sa::InitializeMarketConfigBuffer { authority: keeper, store, buffer, system_program: anchor_lang::system_program::ID },
            si::InitializeMarketConfigBuffer { expire_after_secs: 600 },
        );
        let _ = w.send(&[init], &[keeper, buffer]);
        go(
            &mut w,
            six(
                sa::PushToMarketConfigBuffer { authority: keeper, buffer, system_program: anchor_lang::system_program::ID },
                si::PushToMarketConfigBuffer { new_configs: vec![gmsol_store::states::market::config::EntryArgs { key: "swap_fee_receiver_factor".into(), value: UNIT / 3 }] },
            ),
            &[keeper],
        );
        go(&mut w, six(sa::UpdateMarketConfigWithBuffer { authority: keeper, store, market, buffer }, si::UpdateMarketConfigWithBuffer {}), &[keeper]);
        go(&mut w, six(sa::SetMarketConfigBufferAuthority { authority: keeper, buffer }, si::SetMarketConfigBufferAuthority { new_authority: keeper }), &[keeper]);
        go(&mut w, six(sa::CloseMarketConfigBuffer { authority: keeper, buffer, receiver: keeper }, si::CloseMarketConfigBuffer {}), &[keeper]);
    }
    // virtual inventories
    {
        let vi = pda::find_virtual_inventory_for_swaps_address(&store, 0, &STORE_PID).0;
        go(
            &mut w,
            six(
                sa::CreateVirtualInventoryForSwaps { authority: keeper, store, virtual_inventory: vi, system_program: anchor_lang::system_program::ID },
                si::CreateVirtualInventoryForSwaps { index: 0, long_amount_decimals: 9, short_amount_decimals: 6 },
            ),
            &[keeper],
        );
        go(&mut w, six(sa::JoinVirtualInventoryForSwaps { authority: keeper, store, token_map, virtual_inventory: vi, market }, si::JoinVirtualInventoryForSwaps {}), &[keeper]);
        go(&mut w, six(sa::LeaveVirtualInventoryForSwaps { authority: keeper, store, virtual_inventory: vi, market }, si::LeaveVirtualInventoryForSwaps {}), &[keeper]);
        let index_token = w.tokens[btc].mint;
        let vip = pda::find_virtual_inventory_for_positions_address(&store, &index_token, &STORE_PID).0;
        go(
            &mut w,
            six(
                sa::CreateVirtualInventoryForPositions { authority: keeper, store, index_token, virtual_inventory: vip, system_program: anchor_lang::system_program::ID },
                si::CreateVirtualInventoryForPositions {},
            ),
            &[keeper],
        );
        go(&mut w, six(sa::JoinOrLeaveVirtualInventoryForPositions { authority: keeper, store, virtual_inventory: vip, market }, si::JoinVirtualInventoryForPositions {}), &[keeper]);
        go(&mut w, six(sa::JoinOrLeaveVirtualInventoryForPositions { authority: keeper, store, virtual_inventory: vip, market }, si::LeaveVirtualInventoryForPositions {}), &[keeper]);
        go(&mut w, six(sa::DisableVirtualInventory { authority: keeper, store, virtual_inventory: vi }, si::DisableVirtualInventory {}), &[keeper]);
        let store_wallet = w.store_wallet();
        go(&mut w, six(sa::CloseVirtualInventory { authority: keeper, store, store_wallet, virtual_inventory: vi }, si::CloseVirtualInventory {}), &[keeper]);
    }
    // referral codes: handed over only by their owner, accepted only by the designated next owner
    {
        let (ra, rb) = (hostsvm::key("c19-ref-a"), hostsvm::key("c19-ref-b"));
        w.svm.airdrop(&ra, 10 * LAMPORTS);
        w.svm.airdrop(&rb, 10 * LAMPORTS);
        let code = *b"C19CODE1";
        let _ = w.user_prepare(ra);
        let _ = w.user_prepare(rb);
        let _ = w.referral_init_code(ra, code);
        let _ = w.referral_transfer_code(ra, code, rb);
        let _ = w.referral_cancel_transfer(ra, code);
        let _ = w.referral_transfer_code(ra, code, rb);
        let _ = w.referral_accept_code(rb, code);
    }
    // roles and authorities (admin)
    let pal = hostsvm::key("c19-pal");
    w.svm.airdrop(&pal, 10 * LAMPORTS);
    let _ = w.grant(&pal, RoleKey::ORDER_KEEPER);
    let _ = w.revoke(&pal, RoleKey::ORDER_KEEPER);
    go(&mut w, six(sa::DisableRole { authority: admin, store }, si::DisableRole { role: RoleKey::MIGRATION_KEEPER.into() }), &[admin]);
    // a cluster restart: the admin refreshes the cached slot (until then RESTART_ADMIN stands for any role)
    w.svm.last_restart_slot += 7;
    go(&mut w, six(sa::UpdateLastRestartedSlot { authority: admin, store }, si::UpdateLastRestartedSlot {}), &[admin]);
    go(&mut w, six(sa::TransferReceiver { authority: admin, store, next_receiver: pal }, si::TransferReceiver {}), &[admin]);
    go(&mut w, six(sa::AcceptReceiver { next_receiver: pal, store }, si::AcceptReceiver {}), &[pal]);
    go(&mut w, six(sa::TransferStoreAuthority { authority: admin, store, next_authority: pal }, si::TransferStoreAuthority {}), &[admin]);
    go(&mut w, six(sa::AcceptStoreAuthority { next_authority: pal, store }, si::AcceptStoreAuthority {}), &[pal]);
    let env = Env { store };
    let traces = w.take_trace();
    (env, traces)
}

/// GT and GLV administration / keeper scenarios (world helpers written for the C30 / C45 monitors).
fn gt_glv_scenarios() -> (Env, Vec<Traced>) {
    use crate::world::gt::GtParams;
    use gmsol_store::states::glv::UpdateGlvParams;
    use gmsol_utils::glv::GlvMarketFlag;
    let mut sim = Sim::new_traced(7, 0, 3);
    let w = &mut sim.w;
    let keeper = w.keeper;
    let user = sim.users[0];
    let _ = w.initialize_gt(&GtParams { decimals: 7, initial_minting_cost: 100 * UNIT / 10_000_000, grow_factor: UNIT + UNIT / 100, grow_step: 1_000_000_000, ranks: vec![10_000_000, 100_000_000, 1_000_000_000] });
    let _ = w.toggle_gt_minting(0, true);
    let _ = w.gt_set_order_fee_discount_factors(vec![0, UNIT / 100, UNIT / 50, UNIT / 20]);
    let _ = w.gt_set_referral_reward_factors(vec![0, UNIT / 100, UNIT / 50, UNIT / 20]);
    let _ = w.gt_set_exchange_time_window(3600);
    let _ = w.prepare_user(user);
    let _ = w.mint_gt_reward(keeper, user, 50_000_000);
    let _ = w.update_gt_cumulative_inv_cost_factor(keeper);
    let idx = w.svm.clock.unix_timestamp / 86_400;
    if let Ok(vault) = w.prepare_gt_exchange_vault(keeper, idx) {
        let _ = w.request_gt_exchange(user, vault, 10_000_000);
        w.svm.warp(86_400 + 10);
        let _ = w.confirm_gt_exchange_vault(keeper, vault, 0, None);
        let _ = w.close_gt_exchange(keeper, user, vault);
    }
    sim.refresh_prices();
    let w = &mut sim.w;
    // GLV over the two SOL/USDC markets with different index tokens (0 and 3)
    if let Ok(glv) = w.initialize_glv(0, &[0]) {
        let _ = w.insert_glv_market(&glv, 3);
        let mt0 = w.markets[0].market_token;
        let _ = w.update_glv_market_config(&glv, mt0, Some(u64::MAX / 2), Some(u128::MAX / 4));
        let _ = w.toggle_glv_market_flag(&glv, mt0, GlvMarketFlag::IsDepositAllowed, true);
        let mt3 = w.markets[3].market_token;
        let _ = w.update_glv_market_config(&glv, mt3, Some(u64::MAX / 2), Some(u128::MAX / 4));
        let _ = w.toggle_glv_market_flag(&glv, mt3, GlvMarketFlag::IsDepositAllowed, true);
        if let Ok(d) = w.create_glv_deposit(user, &glv, 0, 0, 2_000_000_000, 300_000_000, 0, 0) {
            let _ = w.execute_glv_deposit(d, false);
            let _ = w.close_glv_deposit(keeper, d);
        }
        if let Ok(s) = w.create_glv_shift(&glv, 0, 3, 1_000_000, 0) {
            let _ = w.execute_glv_shift(s, false);
            let _ = w.close_glv_shift(s);
        }
        let gt_bal = hostsvm::token::token_amount(&w.svm, &crate::world::glv::ata22(&user, &glv.glv_token)).unwrap_or(0);
        if let Ok(wd) = w.create_glv_withdrawal(user, &glv, 0, gt_bal / 2, 0, 0) {
            let _ = w.execute_glv_withdrawal(wd, false);
            let _ = w.close_glv_withdrawal(keeper, wd);
        }
        // each field must differ from the current value: one call per field so that one odd default costs one call only
        let _ = w.update_glv_config(&glv, UpdateGlvParams { min_tokens_for_first_deposit: None, shift_min_interval_secs: Some(0), shift_max_price_impact_factor: None, shift_min_value: None });
        let _ = w.update_glv_config(&glv, UpdateGlvParams { min_tokens_for_first_deposit: None, shift_min_interval_secs: None, shift_max_price_impact_factor: Some(UNIT), shift_min_value: None });
        let _ = w.update_glv_config(&glv, UpdateGlvParams { min_tokens_for_first_deposit: None, shift_min_interval_secs: None, shift_max_price_impact_factor: None, shift_min_value: Some(7) });
        let _ = w.update_glv_config(&glv, UpdateGlvParams { min_tokens_for_first_deposit: Some(12_345), shift_min_interval_secs: Some(3), shift_max_price_impact_factor: None, shift_min_value: None });
        // a market without balance can be removed again
        let _ = w.insert_glv_market(&glv, 1);
        let _ = w.remove_glv_market(&glv, 1);
        let _ = w.remove_glv_market(&glv, 3);
    }
    let env = Env { store: w.store };
    let traces = w.take_trace();
    (env, traces)
}

fn run_shard(args: &Args, shard: u64, m: &mut Monitor) {
    let mut budget: Budget = BTreeMap::new();
    // Source 1: bootstrap + exchange workload
    let steps = args.scale(220, 500);
    let mut sim = Sim::new_traced(args.seed, shard, 6);
    let env = Env { store: sim.w.store };
    for _ in 0..steps {
        let _ = sim.step();
    }
    // Source 2: oracle controller instructions
    {
        let keeper = sim.w.keeper;
        sim.refresh_prices();
        let tokens: Vec<Pubkey> = sim.w.tokens.iter().map(|t| t.mint).collect();
        let feeds: Vec<Pubkey> = sim.w.tokens.iter().map(|t| t.feed).collect();
        let mut ix = six(
            gmsol_store::accounts::SetPricesFromPriceFeed { authority: keeper, store: sim.w.store, oracle: sim.w.oracle, token_map: sim.w.token_map, chainlink_program: None },
            gmsol_store::instruction::SetPricesFromPriceFeed { tokens },
        );
        ix.accounts.extend(feeds.iter().map(|f| anchor_lang::solana_program::instruction::AccountMeta::new_readonly(*f, false)));
        let _ = sim.w.send(&[ix], &[keeper]);
        let clr = six(
            gmsol_store::accounts::ClearAllPrices { authority: keeper, store: sim.w.store, oracle: sim.w.oracle },
            gmsol_store::instruction::ClearAllPrices {},
        );
        let _ = sim.w.send(&[clr], &[keeper]);
        let _ = sim.w.insert_amount("oracle_max_age", 3600);
        let _ = sim.w.insert_factor("oracle_ref_price_deviation", UNIT / 100);
        let store = sim.w.store;
        let _ = sim.w.send(
            &[six(
                gmsol_store::accounts::SetMarketConfigUpdatable { authority: keeper, store },
                gmsol_store::instruction::SetMarketConfigUpdatable { is_flag: false, key: "swap_fee_receiver_factor".into(), updatable: true },
            )],
            &[keeper],
        );
        let ix = sim.w.update_market_config_flag_ix(keeper, 0, "skip_borrowing_fee_for_smaller_side", true);
        let _ = sim.w.send(&[ix], &[keeper]);
    }
    let traces = sim.w.take_trace();
    m.add("traced_transactions", traces.len() as u64);
    for t in &traces {
        replay(m, &env, t, &mut budget, shard);
    }
    // Sources 3..10: dedicated scenario worlds, one per shard class
    type Scenario = fn(&mut Steps) -> (Env, Vec<Traced>);
    let (what, f): (&str, Scenario) = match shard % 8 {
        0 => ("store_admin_config", |_| extra_scenarios()),
        1 => ("store_gt_glv", |_| gt_glv_scenarios()),
        2 => ("treasury", treasury_scenarios),
        3 => ("timelock", timelock_scenarios),
        4 => ("liquidity_provider", lp_scenarios),
        5 => ("competition", competition_scenarios),
        6 => ("store_orders_positions", store_more_scenarios),
        _ => ("store_adl", adl_scenario),
    };
    let mut st = Steps::new();
    match guard(|| f(&mut st)) {
        Ok((env2, traces2)) => {
            m.count(&format!("scenario_runs_{what}"));
            m.add("traced_transactions", traces2.len() as u64);
            for t in &traces2 {
                replay(m, &env2, t, &mut budget, shard);
            }
        }
        Err(e) => m.inconclusive(&format!("harness: scenario `{what}` aborted: {e}")),
    }
    for s in &st.failed {
        m.count(&format!("scenario_step_failed_{what}:{s}"));
    }
    for ((prog, name), n) in budget {
        m.max(&format!("max_variants_runs_{}", label(prog, name)), n as u64);
    }
}

pub fn run(args: &Args) -> Option<i32> {
    let mut mon = Monitor::new(
        args,
        "authority-mutation replay: every successful transaction of the traced workloads (store bootstrap, exchange \
         workload, oracle / config / GT / GLV / order / ADL scenarios, treasury, timelock, liquidity-provider and competition \
         scenarios) is re-executed from its pre-state, per privileged instruction, with (A) the signer's required role \
         revoked via the real revoke_role, (B) a stranger as signer, (C) a holder of all other roles as signer, (D, ownership-bound \
         instructions) a stranger equipped with its own user account, substituted together with the signer's user account; all must be \
         rejected. non-trivial = a denied variant; distinct = (variant, program, instruction)",
    );
    mon.assume("privilege tables written from the instruction documentation (c19.rs STORE_TABLE, TREASURY_TABLE, TIMELOCK_TABLE, LP_TABLE, COMPETITION_TABLE)");
    mon.assume("'rejection leaves accounts unchanged' is provided by transaction atomicity (runtime), not observed");
    mon.assume("grants / revocations of the variants are signed by the store authority of the replayed pre-state; a PDA authority (timelock ADMIN executor wallet) and the store's callback-authority PDA are listed as transaction signers by the harness (hostsvm accepts any listed key)");
    for p in Prog::ALL {
        let (missing, extra) = p.table_drift();
        if !missing.is_empty() || !extra.is_empty() {
            mon.inconclusive(&format!("harness: privilege table of `{}` out of date: not in table {missing:?}, not in program {extra:?}", p.name()));
        }
    }
    let shards = args.scale(16, 64);
    let quiet = hostsvm::QuietStdout::new();
    run_shards(&mut mon, args.threads, shards, |shard, m| run_shard(args, shard, m));
    drop(quiet);
    // coverage report per program: which privileged instructions had a positive scenario with denied variants
    for p in Prog::ALL {
        let mut covered: BTreeSet<&str> = BTreeSet::new();
        let mut uncovered: Vec<&str> = vec![];
        let mut open: Vec<&str> = vec![];
        for (name, pr) in p.table() {
            if *pr == Open {
                open.push(name);
            } else if mon.counter(&format!("positive_{}", label(p, name))) > 0 {
                covered.insert(name);
            } else {
                uncovered.push(name);
            }
        }
        mon.set_extra(&format!("{}_privileged_instructions_covered", p.name()), json!(covered));
        mon.set_extra(&format!("{}_privileged_instructions_without_positive_scenario", p.name()), json!(uncovered));
        mon.set_extra(&format!("{}_instructions_open_by_design", p.name()), json!(open));
        let key = if p == Prog::Store { "privileged_instructions_covered".to_string() } else { format!("{}_privileged_instructions_covered", p.name()) };
        mon.add(&key, covered.len() as u64);
    }
    mon.set_extra(
        "no_positive_scenario_possible_in_this_build",
        json!({
            "store.gt_set_exchange_time_window": "returns Unimplemented unless the program is built with the `test-only` feature",
            "store.migrate_referral_code": "returns Unimplemented unless the program is built with the `migration` feature",
            "store.create_token_metadata": "needs the Metaplex token-metadata program, which hostsvm does not provide",
            "store.update_token_metadata": "needs the Metaplex token-metadata program, which hostsvm does not provide",
        }),
    );
    mon.require("privileged_instructions_covered", 15);
    mon.require("treasury_privileged_instructions_covered", 12);
    mon.require("timelock_privileged_instructions_covered", 8);
    mon.require("liquidity_provider_privileged_instructions_covered", 8);
    mon.require("competition_privileged_instructions_covered", 4);
    Some(mon.finish())
}
