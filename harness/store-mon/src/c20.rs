//! Monitor for C20 (see /verif/DESIGN.md §5 C20).
use vcommon::Args;

pub fn run(_args: &Args) -> Option<i32> {
    None
}
