//! C20 — market config updates follow the keeper permission policy.
//!
//! Observed: the real `set_market_config_updatable`, `update_market_config`, `update_market_config_flag`,
//! `initialize_market_config_buffer`, `push_to_market_config_buffer`, `update_market_config_with_buffer`
//! instructions in hostsvm, called by a MARKET_KEEPER, a MARKET_CONFIG_KEEPER, a holder of another role
//! and a stranger. Oracle: the four-line policy of the property over a reference set of updatable keys.
use crate::world::{exchange::load, *};
use anchor_lang::prelude::Pubkey;
use gmsol_store::{accounts as sa, instruction as si, states::{market::config::EntryArgs, Market}};
use gmsol_utils::{market::{MarketConfigFlag, MarketConfigKey}, role::RoleKey};
use std::collections::BTreeSet;
use strum::IntoEnumIterator;
use vcommon::{json, monitor::run_shards, Args, Monitor, Rng};

#[derive(Clone, Copy, Debug, PartialEq, Eq)]
enum Actor {
    MarketKeeper,
    ConfigKeeper,
    OtherRole,
    Stranger,
}

fn run_shard(args: &Args, shard: u64, m: &mut Monitor) {
    let mut rng = Rng::derive(args.seed, shard, 0x20);
    let mut w = World::bootstrap_store();
    w.bootstrap_oracle();
    let btc = w.add_token("BTC", 8, 2, true);
    let sol = w.add_token("SOL", 9, 4, false);
    let usdc = w.add_token("USDC", 6, 6, false);
    let mk = w.add_market(btc, sol, usdc);
    let market = w.markets[mk].market;
    let keeper = w.keeper;
    let mck = w.add_user("config-keeper");
    let other = w.add_user("order-keeper-only");
    let stranger = w.add_user("nobody");
    w.grant(&mck, RoleKey::MARKET_CONFIG_KEEPER).expect("grant");
    w.grant(&other, RoleKey::ORDER_KEEPER).expect("grant");
    let key_of = |a: Actor| match a {
        Actor::MarketKeeper => keeper,
        Actor::ConfigKeeper => mck,
        Actor::OtherRole => other,
        Actor::Stranger => stranger,
    };
    let keys: Vec<MarketConfigKey> = MarketConfigKey::iter().collect();
    let flags: Vec<MarketConfigFlag> = MarketConfigFlag::iter().collect();
    m.max("max_config_keys_enumerated", keys.len() as u64);
    m.max("max_config_flags_enumerated", flags.len() as u64);
    let set_updatable = |w: &mut World, is_flag: bool, key: String, updatable: bool| {
        let store = w.store;
        w.send(
            &[six(sa::SetMarketConfigUpdatable { authority: keeper, store }, si::SetMarketConfigUpdatable { is_flag, key, updatable })],
            &[keeper],
        )
    };
    // Start from "nothing updatable" (the instruction refuses a no-op change, hence results are ignored).
    for k in &keys {
        let _ = set_updatable(&mut w, false, k.to_string(), false);
    }
    for f in &flags {
        let _ = set_updatable(&mut w, true, f.to_string(), false);
    }
    let mut upd_keys: BTreeSet<String> = BTreeSet::new();
    let mut upd_flags: BTreeSet<String> = BTreeSet::new();
    let rounds = args.scale(400, 1500);
    let actors = [Actor::MarketKeeper, Actor::ConfigKeeper, Actor::ConfigKeeper, Actor::OtherRole, Actor::Stranger];
    for round in 0..rounds {
        // permission changes
        if rng.chance(1, 3) {
            if rng.chance(4, 5) {
                let k = rng.pick(&keys).to_string();
                let want = !upd_keys.contains(&k);
                if set_updatable(&mut w, false, k.clone(), want).is_ok() {
                    if want { upd_keys.insert(k); } else { upd_keys.remove(&k); }
                    m.count("permission_changes");
                }
            } else {
                let f = rng.pick(&flags).to_string();
                let want = !upd_flags.contains(&f);
                if set_updatable(&mut w, true, f.clone(), want).is_ok() {
                    if want { upd_flags.insert(f); } else { upd_flags.remove(&f); }
                    m.count("permission_changes");
                }
            }
        }
        let actor = *rng.pick(&actors);
        let who = key_of(actor);
        let wit = |what: &str, extra: vcommon::serde_json::Value| json!({"shard": shard, "round": round, "actor": format!("{actor:?}"), "what": what, "extra": extra});
        match rng.below(5) {
            0 | 1 => {
                // single key
                let k = *rng.pick(&keys);
                let ks = k.to_string();
                let value = rng.biased_u128(u128::MAX, UNIT);
                let allowed = actor == Actor::MarketKeeper || (actor == Actor::ConfigKeeper && upd_keys.contains(&ks));
                let ix = w.update_market_config_ix(who, mk, &ks, value);
                let r = w.send(&[ix], &[who]);
                m.eval();
                m.nontrivial(format!("key:{actor:?}:{}:{}", upd_keys.contains(&ks), r.is_ok()).as_bytes());
                let stored = load::<Market>(&w.svm, &market).and_then(|x| x.get_config_by_key(k).copied());
                match (r.is_ok(), allowed) {
                    (true, false) => m.violation("C20:update_market_config:unauthorised_update_accepted", wit("key update accepted", json!({"key": ks, "updatable": upd_keys.contains(&k.to_string())}))),
                    (false, true) => m.violation("C20:update_market_config:authorised_update_rejected", wit("key update rejected", json!({"key": ks, "error": format!("{:?}", r.err().map(|e| e.0))}))),
                    (true, true) => {
                        m.count(&format!("key_update_ok_{actor:?}"));
                        if stored != Some(value) {
                            m.violation("C20:update_market_config:value_not_written", wit("", json!({"key": ks, "value": value.to_string(), "stored": stored.map(|s| s.to_string())})));
                        }
                    }
                    (false, false) => m.count(&format!("key_update_denied_{actor:?}")),
                }
            }
            2 => {
                let f = *rng.pick(&flags);
                let fs = f.to_string();
                let value = rng.bool();
                let allowed = actor == Actor::MarketKeeper || (actor == Actor::ConfigKeeper && upd_flags.contains(&fs));
                let ix = w.update_market_config_flag_ix(who, mk, &fs, value);
                let r = w.send(&[ix], &[who]);
                m.eval();
                m.nontrivial(format!("flag:{actor:?}:{}:{}", upd_flags.contains(&fs), r.is_ok()).as_bytes());
                let stored = load::<Market>(&w.svm, &market).map(|x| x.get_config_flag_by_key(f));
                match (r.is_ok(), allowed) {
                    (true, false) => m.violation("C20:update_market_config_flag:unauthorised_update_accepted", wit("flag update accepted", json!({"flag": fs}))),
                    (false, true) => m.violation("C20:update_market_config_flag:authorised_update_rejected", wit("flag update rejected", json!({"flag": fs, "error": format!("{:?}", r.err().map(|e| e.0))}))),
                    (true, true) => {
                        m.count(&format!("flag_update_ok_{actor:?}"));
                        if stored != Some(value) {
                            m.violation("C20:update_market_config_flag:value_not_written", wit("", json!({"flag": fs})));
                        }
                    }
                    (false, false) => m.count(&format!("flag_update_denied_{actor:?}")),
                }
            }
            _ => {
                // buffer
                let n = rng.range(1, 6) as usize;
                let mut entries: Vec<(MarketConfigKey, u128)> = vec![];
                for _ in 0..n {
                    // bias towards updatable keys so that all-updatable buffers occur
                    let k = if !upd_keys.is_empty() && rng.chance(2, 3) {
                        let names: Vec<&String> = upd_keys.iter().collect();
                        let name = (*rng.pick(&names)).clone();
                        *keys.iter().find(|k| k.to_string() == name).unwrap()
                    } else {
                        *rng.pick(&keys)
                    };
                    entries.push((k, rng.biased_u128(u128::MAX, UNIT)));
                }
                let buffer = hostsvm::key(&format!("cfgbuf:{shard}:{round}"));
                let expire_after: u32 = rng.range(5, 60) as u32;
                let store = w.store;
                let init = six(
                    sa::InitializeMarketConfigBuffer { authority: who, store, buffer, system_program: anchor_lang::system_program::ID },
                    si::InitializeMarketConfigBuffer { expire_after_secs: expire_after },
                );
                let push = six(
                    sa::PushToMarketConfigBuffer { authority: who, buffer, system_program: anchor_lang::system_program::ID },
                    si::PushToMarketConfigBuffer { new_configs: entries.iter().map(|(k, v)| EntryArgs { key: k.to_string(), value: *v }).collect() },
                );
                if w.send(&[init, push], &[who, buffer]).is_err() {
                    m.count("buffer_setup_failed");
                    continue;
                }
                let created_at = w.svm.clock.unix_timestamp;
                let expired = if rng.chance(1, 3) {
                    w.svm.warp(expire_after as i64 + rng.range_i64(0, 5));
                    true
                } else {
                    w.svm.warp(rng.range_i64(0, 3));
                    false
                };
                let now = w.svm.clock.unix_timestamp;
                let really_expired = now >= created_at + expire_after as i64;
                let _ = expired;
                let all_updatable = entries.iter().all(|(k, _)| upd_keys.contains(&k.to_string()));
                let allowed = !really_expired && (actor == Actor::MarketKeeper || (actor == Actor::ConfigKeeper && all_updatable));
                let pre: Vec<Option<u128>> = keys.iter().map(|k| load::<Market>(&w.svm, &market).and_then(|x| x.get_config_by_key(*k).copied())).collect();
                let ix = six(
                    sa::UpdateMarketConfigWithBuffer { authority: who, store, market, buffer },
                    si::UpdateMarketConfigWithBuffer {},
                );
                let r = w.send(&[ix], &[who]);
                m.eval();
                m.nontrivial(format!("buf:{actor:?}:{all_updatable}:{really_expired}:{}", r.is_ok()).as_bytes());
                match (r.is_ok(), allowed) {
                    (true, false) => {
                        let class = if really_expired { "expired_buffer_applied" } else { "unauthorised_buffer_applied" };
                        m.violation(&format!("C20:update_market_config_with_buffer:{class}"), wit("", json!({"entries": entries.iter().map(|(k, _)| k.to_string()).collect::<Vec<_>>(), "all_updatable": all_updatable, "expired": really_expired})));
                    }
                    (false, true) => m.violation("C20:update_market_config_with_buffer:authorised_buffer_rejected", wit("", json!({"error": format!("{:?}", r.err().map(|e| e.0)), "entries": entries.len()}))),
                    (true, true) => {
                        m.count(&format!("buffer_applied_{actor:?}"));
                        // last write per key wins; untouched keys unchanged
                        for (i, k) in keys.iter().enumerate() {
                            let expect = entries.iter().rev().find(|(ek, _)| ek == k).map(|(_, v)| *v).or(pre[i]);
                            let got = load::<Market>(&w.svm, &market).and_then(|x| x.get_config_by_key(*k).copied());
                            if got != expect {
                                m.violation("C20:update_market_config_with_buffer:applied_values_differ", wit("", json!({"key": k.to_string()})));
                            }
                        }
                    }
                    (false, false) => m.count(&format!("buffer_denied_{actor:?}{}", if really_expired { "_expired" } else { "" })),
                }
            }
        }
        if m.wants_sample() && round % 97 == 3 {
            m.sample(json!({"round": round, "actor": format!("{actor:?}"), "updatable_keys": upd_keys.len(), "updatable_flags": upd_flags.len()}));
        }
    }
    let _: Option<Pubkey> = None;
}

pub fn run(args: &Args) -> Option<i32> {
    let mut mon = Monitor::new(
        args,
        "random histories of permission changes (set_market_config_updatable over every MarketConfigKey / \
         MarketConfigFlag), single-key / flag updates and config buffers (1–6 entries mixing updatable and \
         non-updatable keys, fresh or expired) by a MARKET_KEEPER, a MARKET_CONFIG_KEEPER, an ORDER_KEEPER-only key \
         and a stranger, through the real instructions in hostsvm; oracle = the policy in the property over a \
         reference set of updatable keys. non-trivial = every attempt; distinct = (kind, actor, updatable?, outcome)",
    );
    let shards = args.scale(16, 64);
    let quiet = hostsvm::QuietStdout::new();
    run_shards(&mut mon, args.threads, shards, |shard, m| run_shard(args, shard, m));
    drop(quiet);
    mon.require("key_update_ok_ConfigKeeper", 50);
    mon.require("key_update_denied_ConfigKeeper", 50);
    mon.require("buffer_applied_ConfigKeeper", 10);
    mon.require("buffer_denied_ConfigKeeper", 10);
    mon.require("buffer_denied_MarketKeeper_expired", 5);
    Some(mon.finish())
}
