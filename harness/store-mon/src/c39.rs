//! Monitor for C39 (see /verif/DESIGN.md §5 C39): the competition leaderboard is the top traders by
//! volume; volume-triggered extensions respect their bounds.
//!
//! Two drivers feed one reference model (map trader → cumulative counted volume):
//! * direct: `on_created / on_updated / on_executed / on_closed` sent to the competition program with the
//!   store's callback-authority PDA listed as transaction signer and a fabricated `TradeData` account;
//! * real orders: the store's `create_order_v2` / `execute_*_order_v2` / `close_order_v2` with callback
//!   accounts pointing at the competition program; the model consumes exactly what the store's CPI
//!   carried (success flag, trade-event account).
use crate::world::{
    competition::*,
    exchange::{self, OrderKind, OrderReq},
    new_svm, World, LAMPORTS, UNIT,
};
use anchor_lang::{prelude::Pubkey, Discriminator};
use gmsol_competition as comp;
use gmsol_competition::states::{Competition, Participant};
use gmsol_store::events::TradeData;
use hostsvm::{key, token, Svm, TxError, TxMeta};
use std::collections::{BTreeMap, BTreeSet};
use vcommon::{json, serde_json::Value, Args, Monitor, Rng};

const MAX_BOARD: usize = 5;

// ------------------------------------------------------------------------------------------------
// Reference model + oracle (shared by both drivers)

#[derive(Default, Clone)]
struct Model {
    /// Existing participants → cumulative counted volume (saturating at `u128::MAX`, as a `u128` total must).
    volumes: BTreeMap<Pubkey, u128>,
    /// Traders with at least one counted trade.
    counted: BTreeSet<Pubkey>,
    /// Traders whose participant account was closed after the end of the competition: the board is
    /// final by then and keeps showing their final volume (a re-created account starts from zero).
    frozen: BTreeSet<Pubkey>,
}

/// One `on_executed` delivery as the competition program received it.
#[derive(Clone, Debug)]
struct ExecInput {
    /// Signed by the store's callback authority with the arguments the store uses for orders.
    from_store: bool,
    success: bool,
    trader: Pubkey,
    /// `(user, before.size_in_usd, after.size_in_usd)` of the trade event, if one was passed.
    event: Option<(Pubkey, u128, u128)>,
    now: i64,
}

fn short(k: &Pubkey) -> String {
    k.to_string().chars().take(6).collect()
}

fn board_json(c: &Competition) -> Value {
    json!(c.leaderboard.iter().map(|e| json!({"trader": short(&e.address), "volume": e.volume.to_string()})).collect::<Vec<_>>())
}

fn model_json(model: &Model) -> Value {
    json!(model.volumes.iter().map(|(k, v)| json!({"trader": short(k), "volume": v.to_string(), "counted": model.counted.contains(k)})).collect::<Vec<_>>())
}

/// End-time bounds, checked across *every* successful instruction.
fn check_end_time(m: &mut Monitor, pre: &Competition, post: &Competition, now: i64, wit: &dyn Fn(Value) -> Value) {
    let (old, new) = (pre.end_time as i128, post.end_time as i128);
    if new < old {
        m.violation("C39:extension:end_time_moved_earlier", wit(json!({"old_end": pre.end_time, "new_end": post.end_time, "now": now})));
    }
    let limit = old.max(now as i128 + pre.extension_cap as i128);
    if new > limit {
        m.violation(
            "C39:extension:end_time_past_cap",
            wit(json!({"old_end": pre.end_time, "new_end": post.end_time, "now": now, "extension_cap": pre.extension_cap, "limit": limit.to_string()})),
        );
    }
    if new > old {
        m.count("extension_moved_end");
        let proposed = old + pre.extension_duration as i128;
        if new == proposed.min(i64::MAX as i128) && new < now as i128 + pre.extension_cap as i128 {
            m.count("extension_full_duration");
        } else if new == (now as i128 + pre.extension_cap as i128).min(i64::MAX as i128) {
            m.count("extension_clipped_at_trigger_plus_cap");
        }
    }
}

/// Leaderboard oracle.
fn check_board(m: &mut Monitor, post: &Competition, model: &Model, wit: &dyn Fn(Value) -> Value) {
    let lb = &post.leaderboard;
    let w = |what: &str| wit(json!({"what": what, "leaderboard": board_json(post), "model": model_json(model)}));
    if lb.len() > MAX_BOARD {
        m.violation("C39:leaderboard:more_than_five", w("more than five entries"));
        return;
    }
    let distinct: BTreeSet<Pubkey> = lb.iter().map(|e| e.address).collect();
    if distinct.len() != lb.len() {
        m.violation("C39:leaderboard:duplicate_trader", w("a trader appears twice"));
        return;
    }
    if lb.windows(2).any(|p| p[0].volume < p[1].volume) {
        m.violation("C39:leaderboard:not_sorted", w("volumes are not non-increasing"));
        return;
    }
    for e in lb.iter() {
        match model.volumes.get(&e.address) {
            Some(v) if *v == e.volume => {}
            _ => {
                m.violation("C39:leaderboard:stale_or_wrong_volume", w(&format!("entry of {} does not show the trader's latest volume", short(&e.address))));
                return;
            }
        }
    }
    if lb.len() == MAX_BOARD {
        m.count("board_full_checks");
        let last = lb[MAX_BOARD - 1].volume;
        let mut off = 0u64;
        for (k, v) in model.volumes.iter() {
            if distinct.contains(k) {
                continue;
            }
            off += 1;
            if *v > last {
                m.violation("C39:leaderboard:left_off_with_more_volume", w(&format!("{} has more volume than the last entry", short(k))));
                return;
            }
            if *v == last && *v > 0 {
                m.count("tie_with_last_entry_left_off");
            }
        }
        m.max("max_participants_left_off_full_board", off);
        if off > 0 {
            m.count("board_full_with_participants_left_off");
        }
    } else {
        // Title of the property (“is the top traders”): nobody with counted volume is missing from a board that still has room.
        for k in model.counted.iter() {
            if model.volumes.contains_key(k) && !distinct.contains(k) {
                m.violation("C39:leaderboard:counted_trader_missing_from_open_board", w(&format!("{} traded but is not on a board with free slots", short(k))));
                return;
            }
        }
    }
    if lb.windows(2).any(|p| p[0].volume == p[1].volume) {
        m.count("board_with_equal_volumes");
    }
    m.max("max_board_len", lb.len() as u64);
}

/// Apply one successful `on_executed` to the model and run all oracles on the post-state.
fn after_on_executed(
    m: &mut Monitor,
    model: &mut Model,
    pre: &Competition,
    post: &Competition,
    part_post: Option<&Participant>,
    input: &ExecInput,
    wit: &dyn Fn(Value) -> Value,
) {
    m.eval();
    let in_window = input.now >= pre.start_time && input.now <= pre.end_time;
    let vol = input.event.map(|(_, before, after)| if pre.only_count_increase { after.saturating_sub(before) } else { after.abs_diff(before) });
    let owned = input.event.map(|(u, _, _)| u == input.trader).unwrap_or(false);
    let counted = input.from_store && input.success && in_window && owned && vol.unwrap_or(0) > 0;
    if counted {
        let v = vol.unwrap_or(0);
        match model.volumes.get_mut(&input.trader) {
            Some(x) => {
                if x.checked_add(v).is_none() {
                    m.count("volume_saturated_at_u128_max");
                }
                *x = x.saturating_add(v);
                model.counted.insert(input.trader);
                m.count("trades_counted");
                m.count(if input.event.map(|(_, b, a)| a >= b).unwrap_or(true) { "trades_counted_increase" } else { "trades_counted_decrease" });
            }
            None => {
                m.violation("C39:on_executed:counted_without_participant", wit(json!({"input": format!("{input:?}")})));
                return;
            }
        }
    } else {
        m.count(if !input.from_store {
            "ignored_not_from_store"
        } else if !input.success {
            "ignored_failed_order"
        } else if !in_window {
            if input.now < pre.start_time {
                "ignored_before_start"
            } else {
                "ignored_after_end"
            }
        } else if input.event.is_none() {
            "ignored_no_trade_event"
        } else {
            "ignored_zero_volume"
        });
    }
    if let (Some(p), Some(v)) = (part_post, model.volumes.get(&input.trader)) {
        if p.volume != *v && !model.frozen.contains(&input.trader) {
            m.violation(
                "C39:on_executed:participant_volume_mismatch",
                wit(json!({"input": format!("{input:?}"), "participant_volume": p.volume.to_string(), "model_volume": v.to_string(), "counted_by_model": counted})),
            );
            return;
        }
        if counted && post.end_time == pre.end_time && post.extension_triggerer == Some(input.trader) && p.merged_volume == 0 {
            m.count("extension_triggered_without_moving_end");
        }
    }
    check_end_time(m, pre, post, input.now, wit);
    check_board(m, post, model, wit);
    if counted {
        let mut sig = Vec::new();
        for e in post.leaderboard.iter() {
            sig.extend_from_slice(&e.volume.to_le_bytes());
        }
        sig.extend_from_slice(&vol.unwrap_or(0).to_le_bytes());
        sig.extend_from_slice(&(input.now - pre.start_time).to_le_bytes());
        m.nontrivial(&sig);
        if m.wants_sample() && post.leaderboard.len() == MAX_BOARD && vol.unwrap_or(0) % 7 == 0 {
            m.sample(json!({
                "kind": "counted trade", "trader": short(&input.trader), "volume": vol.unwrap_or(0).to_string(),
                "seconds_since_start": input.now - pre.start_time, "end_time_before": pre.end_time, "end_time_after": post.end_time,
                "extension_cap": pre.extension_cap, "leaderboard_after": board_json(post), "participants": model.volumes.len(),
            }));
        }
    }
}

fn err_class(e: &TxError) -> String {
    match e {
        TxError::Program(anchor_lang::solana_program::program_error::ProgramError::Custom(c)) => format!("custom_{c}"),
        TxError::Program(_) => "program_error".into(),
        TxError::Panic(_) => "panic".into(),
        TxError::Runtime(s) => format!("runtime_{}", s.split_whitespace().next().unwrap_or("")).chars().filter(|c| c.is_alphanumeric() || *c == '_').collect(),
    }
}

// ------------------------------------------------------------------------------------------------
// Driver 1: direct callbacks with fabricated trade events

struct Direct {
    svm: Svm,
    payer: Pubkey,
    comp: Pubkey,
    traders: Vec<Pubkey>,
    model: Model,
    td: Pubkey,
    log: Vec<String>,
    tag: String,
    params: CompParams,
}

fn gen_params(rng: &mut Rng, now: i64) -> CompParams {
    let start_time = now + rng.range(1, 50) as i64;
    let extreme = rng.chance(1, 12);
    let len: i64 = if extreme {
        *rng.pick(&[i64::MAX - start_time - 1, i64::MAX / 2, 1])
    } else {
        match rng.below(4) {
            0 => rng.range(5, 60) as i64,
            1 => rng.range(60, 3_600) as i64,
            _ => rng.range(3_600, 1_000_000) as i64,
        }
    };
    let extension_duration: i64 = if extreme {
        *rng.pick(&[1, i64::MAX, i64::MAX / 2])
    } else {
        match rng.below(3) {
            0 => rng.range(1, 10) as i64,
            1 => rng.range(10, 1_000) as i64,
            _ => rng.range(1_000, 200_000) as i64,
        }
    };
    // cap >= duration is required; make "cap in the past of the end", "cap clips" and "cap far away" all common.
    let extension_cap: i64 = if extreme {
        *rng.pick(&[extension_duration, i64::MAX])
    } else {
        match rng.below(4) {
            0 => extension_duration,
            1 => extension_duration.saturating_add(rng.range(0, 20) as i64),
            2 => extension_duration.saturating_add(rng.range(0, (len as u64).max(1)) as i64),
            _ => extension_duration.saturating_mul(rng.range(1, 50) as i64),
        }
    };
    let volume_threshold = match rng.below(5) {
        0 => 1,
        1 => rng.log_u128(u128::MAX).max(1),
        2 => rng.range_u128(1, 1_000) * UNIT,
        _ => rng.log_u128(10u128.pow(30)).max(1),
    };
    let volume_merge_window = match rng.below(4) {
        0 => 1,
        1 => rng.range(1, 30) as i64,
        2 => rng.range(30, 100_000) as i64,
        _ => {
            if extreme {
                i64::MAX
            } else {
                rng.range(1, 600) as i64
            }
        }
    };
    CompParams {
        start_time,
        end_time: start_time.saturating_add(len.max(1)),
        volume_threshold,
        extension_duration,
        extension_cap,
        only_count_increase: rng.chance(1, 3),
        volume_merge_window,
    }
}

impl Direct {
    fn new(rng: &mut Rng, tag: String, m: &mut Monitor) -> Option<Direct> {
        let mut svm = new_svm();
        let payer = key("competition-payer");
        svm.airdrop(&payer, 1_000_000 * LAMPORTS);
        let n_traders = rng.range(8, 14) as usize;
        let traders: Vec<Pubkey> = (0..n_traders).map(|i| key(&format!("trader:{i}"))).collect();
        for t in &traders {
            svm.airdrop(t, 100 * LAMPORTS);
        }
        // A few rejected parameter sets first (not part of the property; counted only).
        let now = svm.clock.unix_timestamp;
        if rng.chance(1, 3) {
            let mut bad = gen_params(rng, now);
            match rng.below(5) {
                0 => bad.start_time = now,
                1 => bad.end_time = bad.start_time,
                2 => bad.extension_cap = bad.extension_duration - 1,
                3 => bad.volume_threshold = 0,
                _ => bad.volume_merge_window = 0,
            }
            match svm.process(&[comp_initialize_ix(payer, &bad)], &[payer]) {
                Ok(_) => m.count("init_invalid_params_accepted"),
                Err(_) => m.count("init_invalid_params_rejected"),
            }
        }
        let params = gen_params(rng, now);
        if let Err((e, _)) = svm.process(&[comp_initialize_ix(payer, &params)], &[payer]) {
            m.count("init_failed");
            m.inconclusive(&format!("harness: initialize_competition with valid parameters failed: {e:?} {params:?}"));
            return None;
        }
        m.count("competitions");
        let comp = competition_pda(&payer, params.start_time);
        let mut d = Direct { svm, payer, comp, traders, model: Model::default(), td: key("trade-event"), log: vec![], tag, params };
        d.note(format!("init {:?}", d.params));
        // Most participants exist from the beginning; the rest join later.
        for i in 0..n_traders {
            if rng.chance(4, 5) {
                d.create_participant(i, m);
            }
        }
        Some(d)
    }

    fn now(&self) -> i64 {
        self.svm.clock.unix_timestamp
    }

    fn note(&mut self, s: String) {
        if self.log.len() >= 600 {
            self.log.remove(0);
        }
        self.log.push(format!("t={} {s}", self.now()));
    }

    fn comp_state(&self) -> Competition {
        comp_load::<Competition>(&self.svm, &self.comp).expect("competition account")
    }

    fn participant(&self, t: &Pubkey) -> Option<Participant> {
        comp_load::<Participant>(&self.svm, &participant_pda(&self.comp, t))
    }

    fn create_participant(&mut self, i: usize, m: &mut Monitor) {
        let t = self.traders[i];
        let payer = if i % 2 == 0 { t } else { self.payer };
        match self.svm.process(&[comp_create_participant_ix(payer, self.comp, t)], &[payer]) {
            Ok(_) => {
                m.count("op_create_participant_ok");
                let existed = self.model.volumes.contains_key(&t) && !self.model.frozen.contains(&t);
                self.model.volumes.entry(t).or_insert(0);
                self.note(format!("create_participant {i} existed={existed}"));
            }
            Err((e, _)) => {
                m.count("create_participant_failed");
                self.note(format!("create_participant {i} -> {e:?}"));
            }
        }
    }

    fn witness(&self, extra: Value) -> Value {
        json!({"history": self.tag, "params": format!("{:?}", self.params), "detail": extra, "ops": self.log})
    }

    fn op_warp(&mut self, rng: &mut Rng, m: &mut Monitor) {
        let c = self.comp_state();
        let now = self.now();
        let to_end = (c.end_time as i128 - now as i128).clamp(1, 1 << 40) as u64;
        let win = (c.volume_merge_window.clamp(1, 1 << 40)) as u64;
        // Most steps are small against the remaining time so that histories stay inside the window;
        // steps around the merge window are taken exactly when they fit.
        let fit = |x: u64, rng: &mut Rng| if x <= to_end / 6 || rng.chance(1, 40) { x } else { rng.range(0, 2) };
        let dt: u64 = match rng.below(12) {
            0 | 1 => 0,
            2 => 1,
            3 => fit(win, rng),
            4 => fit(win + 1, rng),
            5 => fit(win.saturating_sub(1), rng),
            6 => {
                let x = rng.range(1, win.saturating_mul(2).min(1 << 40));
                fit(x, rng)
            }
            7 => rng.range(1, (to_end / 10).max(1)),
            8 => rng.range(1, (to_end / 40).max(1)),
            9 => {
                if now < c.start_time {
                    (c.start_time - now) as u64
                } else {
                    rng.range(1, 5)
                }
            }
            10 => {
                if rng.chance(1, 30) {
                    to_end.saturating_add(rng.range(0, 3))
                } else {
                    rng.range(1, 3)
                }
            }
            _ => fit(rng.range(1, 20), rng),
        };
        let dt = dt.min((i64::MAX - now - 1).max(0) as u64).min(1 << 41);
        if dt > 0 {
            self.svm.warp(dt as i64);
        }
        m.count("op_warp");
        self.note(format!("warp {dt}"));
    }

    /// A volume for `trader` biased towards ties with other traders, the threshold and the type limits.
    fn gen_volume(&self, rng: &mut Rng, trader: &Pubkey) -> u128 {
        let cur = self.model.volumes.get(trader).copied().unwrap_or(0);
        let thr = self.params.volume_threshold;
        match rng.below(12) {
            0 => rng.range_u128(1, 10),
            1 => thr,
            2 => thr.saturating_sub(1).max(1),
            3 => thr.saturating_add(1),
            4 | 5 => {
                // reach exactly (or just around) another trader's volume
                let others: Vec<u128> = self.model.volumes.values().copied().filter(|v| *v > cur).collect();
                if others.is_empty() {
                    rng.log_u128(10u128.pow(26)).max(1)
                } else {
                    let target = *rng.pick(&others);
                    let d = target - cur;
                    match rng.below(3) {
                        0 => d,
                        1 => d.saturating_add(1),
                        _ => d.saturating_sub(1).max(1),
                    }
                }
            }
            6 => rng.log_u128(10u128.pow(36)).max(1),
            7 => {
                if rng.chance(1, 5) {
                    u128::MAX - rng.range_u128(0, 3)
                } else {
                    rng.log_u128(u128::MAX).max(1)
                }
            }
            8 => (thr / rng.range_u128(2, 5)).max(1),
            _ => rng.log_u128(10u128.pow(28)).max(1),
        }
    }

    fn op_trade(&mut self, rng: &mut Rng, m: &mut Monitor) {
        let ti = rng.below(self.traders.len() as u64) as usize;
        let trader = self.traders[ti];
        let v = self.gen_volume(rng, &trader);
        let base = if rng.chance(1, 3) { 0 } else { rng.log_u128(u128::MAX - v) };
        let (before, after) = match rng.below(10) {
            0 | 1 | 2 => (base.saturating_add(v), base), // decrease
            3 => (base, base),                           // no size change
            _ => (base, base.saturating_add(v)),         // increase
        };
        // Variants of the delivery.
        let mut args = CallbackArgs::store_like(2);
        let mut from_store = true;
        let mut success = true;
        let mut event_user = trader;
        let mut with_event = true;
        let mut participant_of = trader;
        let mut signer_is_listed = true;
        let variant = match rng.below(40) {
            0 => {
                success = false;
                "failed_order"
            }
            1 => {
                with_event = false;
                "no_trade_event"
            }
            2 => {
                args.authority = key("not-the-callback-authority");
                from_store = false;
                "wrong_authority"
            }
            3 => {
                args.authority_bump = args.authority_bump.wrapping_sub(1);
                from_store = false;
                "wrong_bump"
            }
            4 => {
                args.action_kind = *rng.pick(&[0u8, 1, 2, 4, 5, 6, 200]);
                from_store = false;
                "wrong_action_kind"
            }
            5 => {
                args.callback_version = rng.range(1, 255) as u8;
                from_store = false;
                "wrong_callback_version"
            }
            6 => {
                args.extra_account_count = rng.range(0, 1) as u8;
                from_store = false;
                "too_few_extra_accounts"
            }
            7 => {
                event_user = self.traders[(ti + 1) % self.traders.len()];
                "event_of_other_user"
            }
            8 => {
                participant_of = self.traders[(ti + 1) % self.traders.len()];
                from_store = false;
                "participant_of_other_trader"
            }
            9 => {
                signer_is_listed = false;
                from_store = false;
                "authority_did_not_sign"
            }
            10 => {
                args.extra_account_count = rng.range(3, 255) as u8;
                "more_extra_accounts"
            }
            _ => "plain",
        };
        set_trade_data(&mut self.svm, self.td, event_user, before, after);
        let participant = participant_pda(&self.comp, &participant_of);
        let i = comp_on_executed_ix(&args, success, self.comp, participant, trader, key("order"), key("position"), with_event.then_some(self.td));
        let pre = self.comp_state();
        let now = self.now();
        let signers: Vec<Pubkey> = if signer_is_listed { vec![self.payer, args.authority] } else { vec![self.payer] };
        let r = self.svm.process(&[i], &signers);
        m.count("op_on_executed");
        m.count(&format!("delivery_{variant}"));
        let input = ExecInput { from_store, success, trader, event: with_event.then_some((event_user, before, after)), now };
        match r {
            Ok(_) => {
                m.count("on_executed_ok");
                self.note(format!("on_executed[{variant}] trader={ti} before={before} after={after} -> ok"));
                let post = self.comp_state();
                let part = self.participant(&trader);
                let mut model = std::mem::take(&mut self.model);
                let wit = |extra: Value| self.witness(extra);
                after_on_executed(m, &mut model, &pre, &post, part.as_ref(), &input, &wit);
                self.model = model;
            }
            Err((e, _)) => {
                m.count(&format!("on_executed_rejected_{variant}"));
                m.count(&format!("on_executed_err_{}", err_class(&e)));
                self.note(format!("on_executed[{variant}] trader={ti} before={before} after={after} -> {e:?}"));
            }
        }
    }

    /// `on_created` / `on_updated` / `on_closed`: must not disturb the board or the end time.
    fn op_other_callback(&mut self, rng: &mut Rng, m: &mut Monitor) {
        let ti = rng.below(self.traders.len() as u64) as usize;
        let trader = self.traders[ti];
        let args = CallbackArgs::store_like(1);
        let participant = participant_pda(&self.comp, &trader);
        let (name, i) = match rng.below(3) {
            0 => ("on_created", comp_on_created_ix(&args, self.comp, participant, trader, key("order"), key("position"))),
            1 => ("on_updated", comp_on_other_ix(&args, false, self.comp, participant, trader, key("order"))),
            _ => ("on_closed", comp_on_other_ix(&args, true, self.comp, participant, trader, key("order"))),
        };
        let pre = self.comp_state();
        let now = self.now();
        let r = self.svm.process(&[i], &[self.payer, args.authority]);
        m.count(&format!("op_{name}"));
        match r {
            Ok(_) => {
                m.count(&format!("{name}_ok"));
                self.note(format!("{name} trader={ti} -> ok"));
                let post = self.comp_state();
                m.eval();
                let wit = |extra: Value| self.witness(extra);
                check_end_time(m, &pre, &post, now, &wit);
                check_board(m, &post, &self.model, &wit);
            }
            Err((e, _)) => {
                m.count(&format!("{name}_rejected"));
                self.note(format!("{name} trader={ti} -> {e:?}"));
            }
        }
    }

    fn op_close_participant(&mut self, rng: &mut Rng, m: &mut Monitor) {
        let ti = rng.below(self.traders.len() as u64) as usize;
        let trader = self.traders[ti];
        let r = self.svm.process(&[comp_close_participant_ix(trader, self.comp)], &[trader]);
        m.count("op_close_participant");
        match r {
            Ok(_) => {
                m.count("close_participant_ok");
                let c = self.comp_state();
                if self.now() > c.end_time {
                    // The competition is over (the end can no longer move): the board is final.
                    m.count("close_participant_ok_after_end");
                    self.model.frozen.insert(trader);
                } else {
                    self.model.volumes.remove(&trader);
                    self.model.counted.remove(&trader);
                }
                self.note(format!("close_participant {ti} -> ok"));
            }
            Err((e, _)) => {
                m.count("close_participant_rejected");
                self.note(format!("close_participant {ti} -> {e:?}"));
            }
        }
    }

    fn run(&mut self, rng: &mut Rng, m: &mut Monitor, ops: u64) {
        let mut after_end = 0;
        for _ in 0..ops {
            if self.now() > self.comp_state().end_time {
                // Nothing counts any more; a few more deliveries (all ignored), then stop.
                after_end += 1;
                if after_end > 8 {
                    break;
                }
            }
            match rng.weighted(&[60, 22, 4, 5, 2]) {
                0 => self.op_trade(rng, m),
                1 => self.op_warp(rng, m),
                2 => {
                    let i = rng.below(self.traders.len() as u64) as usize;
                    self.create_participant(i, m)
                }
                3 => self.op_other_callback(rng, m),
                _ => self.op_close_participant(rng, m),
            }
            if m.has_violations() {
                break;
            }
        }
        let c = self.comp_state();
        m.max("max_final_board_len", c.leaderboard.len() as u64);
        if self.model.counted.len() >= 8 {
            m.count("histories_with_8_or_more_counted_traders");
        }
    }
}

// ------------------------------------------------------------------------------------------------
// Driver 2: real orders through the store

struct Real {
    w: World,
    comp: Pubkey,
    traders: Vec<Pubkey>,
    model: Model,
    market: usize,
    tokens: (usize, usize),
    prices_at: i64,
    sol_price: u128,
    log: Vec<String>,
    tag: String,
    params: CompParams,
}

const E18: u128 = 1_000_000_000_000_000_000;

impl Real {
    fn new(rng: &mut Rng, tag: String, m: &mut Monitor) -> Option<Real> {
        let mut w = World::bootstrap_store();
        w.bootstrap_oracle();
        let sol = w.add_token("SOL", 9, 4, false);
        let usdc = w.add_token("USDC", 6, 6, false);
        let market = w.add_market(sol, sol, usdc);
        let sol_price = rng.range_u128(50, 250);
        let mut r = Real {
            w,
            comp: Pubkey::default(),
            traders: vec![],
            model: Model::default(),
            market,
            tokens: (sol, usdc),
            prices_at: 0,
            sol_price,
            log: vec![],
            tag,
            params: CompParams { start_time: 0, end_time: 0, volume_threshold: 1, extension_duration: 1, extension_cap: 1, only_count_increase: false, volume_merge_window: 1 },
        };
        r.refresh_prices();
        // Lift the default pool / open-interest caps so that many traders can hold sizeable positions.
        for (k, v) in [
            ("max_pool_amount_for_long_token", 1_000_000_000_000_000_000u128),
            ("max_pool_amount_for_short_token", 1_000_000_000_000_000_000),
            ("max_pool_value_for_deposit_for_long_token", 1_000_000_000 * UNIT),
            ("max_pool_value_for_deposit_for_short_token", 1_000_000_000 * UNIT),
            ("max_open_interest_for_long", 100_000_000 * UNIT),
            ("max_open_interest_for_short", 100_000_000 * UNIT),
        ] {
            if let Err((e, _)) = r.w.set_market_config(market, k, v) {
                panic!("bootstrap step `update_market_config {k}` failed: {e:?}");
            }
        }
        let (sol_mint, usdc_mint) = (r.w.tokens[sol].mint, r.w.tokens[usdc].mint);
        let lp = r.w.add_user("lp");
        token::fund_ata(&mut r.w.svm, &lp, &sol_mint, 400_000 * 1_000_000_000);
        token::fund_ata(&mut r.w.svm, &lp, &usdc_mint, 40_000_000 * 1_000_000);
        let d = r.w.create_deposit(lp, market, 400_000 * 1_000_000_000, 40_000_000 * 1_000_000, None, None, &[], &[], 0).unwrap_or_else(|(e, _)| panic!("bootstrap create_deposit: {e:?}"));
        r.w.execute_deposit(d, true).unwrap_or_else(|(e, _)| panic!("bootstrap execute_deposit: {e:?}"));
        r.w.close_deposit(lp, d).unwrap_or_else(|(e, _)| panic!("bootstrap close_deposit: {e:?}"));
        if let Err((e, _)) = r.w.init_callback_authority() {
            panic!("bootstrap step `initialize_callback_authority` failed: {e:?}");
        }
        for i in 0..rng.range(8, 10) {
            let t = r.w.add_user(&format!("trader{i}"));
            token::fund_ata(&mut r.w.svm, &t, &usdc_mint, 50_000_000 * 1_000_000);
            token::fund_ata(&mut r.w.svm, &t, &sol_mint, 1_000 * 1_000_000_000);
            r.traders.push(t);
        }
        let now = r.w.svm.clock.unix_timestamp;
        let start_time = now + rng.range(1, 5) as i64;
        let len = rng.range(30, 600) as i64;
        let extension_duration = rng.range(1, 120) as i64;
        let extension_cap = match rng.below(3) {
            0 => extension_duration,
            1 => extension_duration + rng.range(0, 30) as i64,
            _ => extension_duration * rng.range(1, 20) as i64,
        };
        r.params = CompParams {
            start_time,
            end_time: start_time + len,
            volume_threshold: rng.range_u128(100, 60_000) * UNIT,
            extension_duration,
            extension_cap,
            only_count_increase: rng.chance(1, 3),
            volume_merge_window: rng.range(1, 40) as i64,
        };
        let keeper = r.w.keeper;
        if let Err((e, _)) = r.w.send(&[comp_initialize_ix(keeper, &r.params)], &[keeper]) {
            m.inconclusive(&format!("harness: initialize_competition (real-order driver) failed: {e:?}"));
            return None;
        }
        r.comp = competition_pda(&keeper, start_time);
        m.count("competitions");
        m.count("competitions_real_orders");
        r.note(format!("init {:?}", r.params));
        Some(r)
    }

    fn now(&self) -> i64 {
        self.w.svm.clock.unix_timestamp
    }

    fn note(&mut self, s: String) {
        if self.log.len() >= 400 {
            self.log.remove(0);
        }
        self.log.push(format!("t={} {s}", self.now()));
    }

    fn witness(&self, extra: Value) -> Value {
        json!({"history": self.tag, "driver": "real orders", "params": format!("{:?}", self.params), "detail": extra, "ops": self.log})
    }

    fn refresh_prices(&mut self) {
        let (sol, usdc) = self.tokens;
        let p = self.sol_price * E18;
        for (t, p) in [(sol, p), (usdc, E18)] {
            if let Err((e, _)) = self.w.set_price(t, p - p / 5000, p, p + p / 5000) {
                panic!("bootstrap step `set_price` failed: {e:?}");
            }
        }
        self.prices_at = self.now();
    }

    fn comp_state(&self) -> Competition {
        comp_load::<Competition>(&self.w.svm, &self.comp).expect("competition account")
    }

    fn position_size(&self, trader: &Pubkey, is_long: bool) -> u128 {
        let k = self.w.position_pda(trader, self.market, is_long, false);
        exchange::load::<gmsol_store::states::Position>(&self.w.svm, &k).map(|p| p.state.size_in_usd).unwrap_or(0)
    }

    /// The `on_executed` CPI the store made to the competition program in this transaction.
    fn find_on_executed(meta: &TxMeta) -> Option<&hostsvm::CpiRecord> {
        meta.cpis.iter().find(|c| c.program_id == COMP_PID && c.data.len() >= 8 && c.data[..8] == *comp::instruction::OnExecuted::DISCRIMINATOR)
    }

    fn op_trade(&mut self, rng: &mut Rng, m: &mut Monitor) {
        let ti = rng.below(self.traders.len() as u64) as usize;
        let trader = self.traders[ti];
        let is_long = rng.bool();
        let have = self.position_size(&trader, is_long);
        let decrease = have > 0 && rng.chance(2, 5);
        let thr = self.params.volume_threshold;
        let size: u128 = match rng.below(6) {
            0 => thr,
            1 => thr + UNIT,
            2 => (thr / 2).max(UNIT),
            3 => rng.range_u128(10, 200) * UNIT,
            _ => rng.range_u128(200, 80_000) * UNIT,
        };
        let mut req = OrderReq::new(if decrease { OrderKind::MarketDecrease } else { OrderKind::MarketIncrease }, self.market, is_long, false);
        if decrease {
            req.size_delta_value = if rng.chance(1, 3) { have } else { size.min(have) };
        } else {
            req.size_delta_value = size;
            // collateral in USDC (6 decimals): size / leverage
            let lev = rng.range_u128(1, 8);
            req.initial_collateral_delta_amount = ((size / lev / (UNIT / 1_000_000)) as u64).max(20_000_000);
        }
        if self.now() != self.prices_at {
            self.refresh_prices();
        }
        let cb = OrderCallback { program: COMP_PID, shared: self.comp, partitioned: participant_pda(&self.comp, &trader) };
        let existed = comp_load::<Participant>(&self.w.svm, &cb.partitioned).is_some();
        let pre_ix = comp_create_participant_ix(trader, self.comp, trader);
        m.count("op_real_order");
        let order = match self.w.create_order_with_callback(trader, &req, &cb, &[pre_ix]) {
            Ok(o) => o,
            Err((e, meta)) => {
                let c = self.comp_state();
                let outside = self.now() < c.start_time || self.now() > c.end_time;
                m.count(if outside { "real_create_rejected_outside_competition_time" } else { "real_create_failed" });
                if !outside {
                    m.count(&format!("real_create_err_{}", err_class(&e)));
                }
                self.note(format!("create {} trader={ti} long={is_long} size={} -> {e:?} (failed ix {:?})", if decrease { "decrease" } else { "increase" }, req.size_delta_value, meta.failed_ix));
                return;
            }
        };
        if !existed {
            self.model.volumes.entry(trader).or_insert(0);
            m.count("op_create_participant_ok");
        }
        m.count("real_create_ok_on_created_delivered");
        // Sometimes let time pass between creation and execution (merge window / end of the competition).
        if rng.chance(1, 3) {
            let dt = match rng.below(3) {
                0 => 1,
                1 => self.params.volume_merge_window + 1,
                _ => rng.range(1, 25) as i64,
            };
            self.w.svm.warp(dt);
            self.refresh_prices();
        }
        let pre = self.comp_state();
        let now = self.now();
        let r = self.w.execute_order_with_callback(order, &cb, false);
        match r {
            Ok(meta) => {
                let Some(rec) = Self::find_on_executed(&meta) else {
                    m.count("real_execute_without_on_executed");
                    self.note(format!("execute trader={ti} -> ok but no on_executed CPI"));
                    m.inconclusive("harness: an order with callback executed without an on_executed CPI");
                    return;
                };
                // Decode what the store delivered.
                let success = rec.data.get(11).copied().unwrap_or(0) != 0;
                let ev_key = rec.accounts.get(6).map(|a| a.pubkey);
                let event = match ev_key {
                    Some(k) if k != COMP_PID => exchange::load::<TradeData>(&self.w.svm, &k).map(|td| (td.user, td.before.size_in_usd, td.after.size_in_usd)),
                    _ => None,
                };
                let signed = rec.pda_signers.contains(&callback_authority().0) && rec.accounts.first().map(|a| a.is_signer && a.pubkey == callback_authority().0).unwrap_or(false);
                if signed {
                    m.count("real_on_executed_signed_by_callback_authority_pda");
                }
                // Cross-check of the direct driver: same accounts / data as the store's CPI.
                let twin = comp_on_executed_ix(
                    &CallbackArgs::store_like(2),
                    success,
                    self.comp,
                    cb.partitioned,
                    trader,
                    order,
                    rec.accounts.get(5).map(|a| a.pubkey).unwrap_or_default(),
                    ev_key.filter(|k| *k != COMP_PID),
                );
                let same = twin.data == rec.data && twin.accounts.len() == rec.accounts.len() && twin.accounts.iter().zip(rec.accounts.iter()).all(|(a, b)| a.pubkey == b.pubkey && a.is_signer == b.is_signer);
                if same {
                    m.count("real_cpi_equals_direct_driver_instruction");
                } else {
                    m.count("real_cpi_differs_from_direct_driver_instruction");
                    m.inconclusive("harness: the direct driver's on_executed instruction differs from the store's CPI (accounts / data)");
                }
                m.count("op_on_executed");
                m.count("on_executed_ok");
                m.count(if success { "real_execute_success" } else { "real_execute_soft_failure" });
                self.note(format!("execute trader={ti} {} long={is_long} size={} -> ok success={success} event={event:?}", if decrease { "decrease" } else { "increase" }, req.size_delta_value));
                let input = ExecInput { from_store: signed, success, trader, event, now };
                let post = self.comp_state();
                let part = comp_load::<Participant>(&self.w.svm, &cb.partitioned);
                let mut model = std::mem::take(&mut self.model);
                let wit = |extra: Value| self.witness(extra);
                after_on_executed(m, &mut model, &pre, &post, part.as_ref(), &input, &wit);
                self.model = model;
            }
            Err((e, _)) => {
                m.count("real_execute_failed");
                m.count(&format!("real_execute_err_{}", err_class(&e)));
                self.note(format!("execute trader={ti} -> {e:?}"));
            }
        }
        // Close (on_closed is a no-op for the competition).
        let pre = self.comp_state();
        match self.w.close_order_with_callback(trader, order, &cb) {
            Ok(meta) => {
                if meta.cpis.iter().any(|c| c.program_id == COMP_PID) {
                    m.count("real_close_ok_on_closed_delivered");
                } else {
                    m.count("real_close_ok_without_callback");
                }
                let post = self.comp_state();
                m.eval();
                let now = self.now();
                let wit = |extra: Value| self.witness(extra);
                check_end_time(m, &pre, &post, now, &wit);
                check_board(m, &post, &self.model, &wit);
            }
            Err((e, _)) => {
                m.count("real_close_failed");
                self.note(format!("close trader={ti} -> {e:?}"));
            }
        }
    }

    fn run(&mut self, rng: &mut Rng, m: &mut Monitor, ops: u64) {
        // Go to the start of the competition.
        let dt = self.params.start_time - self.now();
        if dt > 0 {
            self.w.svm.warp(dt);
        }
        let mut outside = 0;
        for _ in 0..ops {
            if rng.chance(1, 3) {
                let dt = match rng.below(4) {
                    0 => 1,
                    1 => self.params.volume_merge_window,
                    2 => self.params.volume_merge_window + 1,
                    _ => rng.range(1, 30) as i64,
                };
                self.w.svm.warp(dt);
                self.note(format!("warp {dt}"));
            }
            let before = m.counter("real_create_rejected_outside_competition_time");
            self.op_trade(rng, m);
            if m.counter("real_create_rejected_outside_competition_time") > before {
                outside += 1;
                if outside >= 3 {
                    break;
                }
            }
            if m.has_violations() {
                break;
            }
        }
        if self.model.counted.len() >= 8 {
            m.count("histories_with_8_or_more_counted_traders");
        }
    }
}

pub fn run(args: &Args) -> Option<i32> {
    let quiet = hostsvm::QuietStdout::new();
    let mut mon = Monitor::new(
        args,
        "random competitions (8–14 traders, random threshold / extension / cap / merge window / only-increase flag) and random \
         histories of on_executed deliveries (direct with fabricated TradeData, and through real store orders with callback), clock \
         advances, participant creation / closing and the no-op callbacks; after every successful instruction the board and the end \
         time are compared with the reference model. A case is non-trivial when the delivery was a counted trade; distinct = hash of \
         (board volumes after the trade, trade volume, seconds since start)",
    );
    let n_shards = args.scale(64, 256);
    let only = args.extra.get("only").cloned().unwrap_or_default();
    let direct_histories = if only == "real" { 0 } else { args.scale(30, 80) };
    let direct_ops = args.scale(220, 300);
    let real_histories = if only == "direct" { 0 } else { args.scale(1, 1) };
    let real_ops = args.scale(30, 80);
    let seed = args.seed;
    vcommon::monitor::run_shards(&mut mon, args.threads, n_shards, |shard, m| {
        for h in 0..direct_histories {
            let mut rng = Rng::derive(seed, shard, 39_000 + h);
            if let Some(mut d) = Direct::new(&mut rng, format!("seed={seed} shard={shard} direct={h}"), m) {
                d.run(&mut rng, m, direct_ops);
            }
            if m.has_violations() {
                return;
            }
        }
        for h in 0..real_histories {
            let mut rng = Rng::derive(seed, shard, 39_500_000 + h);
            if let Some(mut r) = Real::new(&mut rng, format!("seed={seed} shard={shard} real={h}"), m) {
                r.run(&mut rng, m, real_ops);
            }
            if m.has_violations() {
                return;
            }
        }
    });
    drop(quiet);
    mon.assume("direct driver: the store's callback-authority PDA is listed as a transaction signer (a PDA can only sign through the store's CPI on chain; hostsvm checks signer membership only) and the trade event is a fabricated TradeData account owned by the store program; the real-order driver checks that this instruction is byte-identical to the store's own CPI");
    mon.assume("a trade is counted when the store delivered it (callback authority, action kind Order, version 0, ≥ 2 extra accounts), the order succeeded, start ≤ now ≤ end (end before this trade's extension), a trade event of the trader is attached and the size change is non-zero (|after − before|, or after − before floored at 0 when only increases count); the cumulative volume saturates at u128::MAX");
    mon.assume("ties are tolerated: a participant left off a full board may have exactly the last entry's volume; equal volumes may appear in any order");
    mon.assume("reading of the title: while the board has a free slot every trader with a counted trade is on it");
    mon.assume("threshold / merge-window logic is not predicted; only the stated end-time bounds are asserted on every successful instruction");
    mon.require("trades_counted", args.scale(60_000, 1_000_000));
    mon.require("board_full_with_participants_left_off", args.scale(10_000, 100_000));
    mon.require("extension_moved_end", args.scale(5_000, 50_000));
    mon.require("extension_clipped_at_trigger_plus_cap", args.scale(500, 5_000));
    mon.require("extension_triggered_without_moving_end", args.scale(200, 2_000));
    mon.require("histories_with_8_or_more_counted_traders", args.scale(200, 2_000));
    mon.require("real_execute_success", args.scale(500, 5_000));
    mon.require("real_cpi_equals_direct_driver_instruction", args.scale(500, 5_000));
    mon.require("tie_with_last_entry_left_off", args.scale(50, 500));
    Some(mon.finish())
}
