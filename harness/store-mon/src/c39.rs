//! Monitor for C39 (see /verif/DESIGN.md §5 C39).
use vcommon::Args;

pub fn run(_args: &Args) -> Option<i32> {
    None
}
