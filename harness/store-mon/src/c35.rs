//! Monitor for C35 (see /verif/DESIGN.md §5 C35).
use vcommon::Args;

pub fn run(_args: &Args) -> Option<i32> {
    None
}
