//! Monitor for C35 — "Stored names read back exactly as they were accepted".
//!
//! (a) library level: `gmsol_utils::fixed_str::{fixed_str_to_bytes, bytes_to_fixed_str}` (and the store
//!     program's wrappers) for the capacities the programs use (32: store key, role name, token name,
//!     executor role; 64: market name) plus tiny capacities (1, 2, 3: exhaustive over the alphabet):
//!     every string of byte length 0..=cap+2 of the structured families (plain, NUL at every position,
//!     multi-byte tail, spaces, all-NUL) and random strings over an alphabet with NUL, spaces and
//!     2/3/4-byte UTF-8 characters. Oracle: accepted ⇒ reads back as the same string.
//! (b) through the program: `enable_role` (+ grant / has_role / check_role / disable_role on the accepted
//!     role), `initialize_market`, `push_to_token_map`, `push_to_token_map_synthetic` (read back through the
//!     `token_name` instruction and `TokenConfig::name`), timelock `initialize_executor`
//!     (`Executor::role_name`), and directly `RoleMetadata::new`, `Market::init`, `Store::init`
//!     (`Store::key`). Oracle: accepted ⇒ the program's own accessor returns the same string, and an
//!     accepted role can be granted, is reported as held, and can be disabled.
use crate::world::{self, exchange::load, ix, six, user::in_runtime, World, STORE_PID};
use anchor_lang::{prelude::Pubkey, system_program, AccountDeserialize};
use gmsol_store::{
    accounts as sa, instruction as si,
    states::{Market, RoleMetadata, Seed, Store},
};
use gmsol_utils::{oracle::PriceProviderKind, token_config::TokenMapAccess, token_config::UpdateTokenConfigParams};
use hostsvm::{key, token, Svm};
use vcommon::{json, monitor::guard, monitor::run_shards, Args, Monitor, Rng};

const ALPHABET: &[&str] = &["a", "B", "7", " ", "_", "/", "\0", "é", "ß", "€", "中", "😀"];

fn class_of(s: &str, cap: usize) -> &'static str {
    if s.as_bytes().contains(&0) {
        "nul_in_name_not_round_tripped"
    } else if s.len() == cap {
        "full_length_name_unreadable"
    } else {
        "other_name_not_round_tripped"
    }
}

fn shape_of(s: &str, cap: usize) -> String {
    format!(
        "len{}{}:nul={}:mb={}:sp={}",
        if s.len() < cap { "<" } else if s.len() == cap { "=" } else { ">" },
        if s.is_empty() { "(0)" } else { "" },
        if s.as_bytes().contains(&0) { if s.ends_with('\0') { "trail" } else { "inner" } } else { "no" },
        !s.is_ascii(),
        s.contains(' ')
    )
}

fn show(s: &str) -> String {
    format!("{s:?} ({} bytes)", s.len())
}

/// A string of exactly `len` bytes: random characters, padded with `a`.
fn random_name(rng: &mut Rng, len: usize, nul_den: u64) -> String {
    let mut s = String::new();
    let mut tries = 0;
    while s.len() < len && tries < 4 * len + 8 {
        tries += 1;
        let c = *rng.pick(ALPHABET);
        if c == "\0" && !rng.chance(1, nul_den) {
            continue;
        }
        if s.len() + c.len() <= len {
            s.push_str(c);
        }
    }
    while s.len() < len {
        s.push('a');
    }
    s
}

fn pick_len(rng: &mut Rng, cap: usize) -> usize {
    if rng.chance(3, 10) {
        (cap + rng.below(3) as usize).saturating_sub(1)
    } else {
        rng.below(cap as u64 + 3) as usize
    }
}

/// The structured families for capacity `cap` (every byte length 0..=cap+2).
fn structured(cap: usize, full_nul_positions: bool) -> Vec<String> {
    let mut v = vec![];
    for len in 0..=cap + 2 {
        v.push("a".repeat(len));
        v.push(" ".repeat(len));
        v.push("\0".repeat(len));
        if len >= 2 {
            v.push(format!(" {}", "x".repeat(len - 1)));
            v.push(format!("{} ", "x".repeat(len - 1)));
        }
        for tail in ["é", "€", "😀"] {
            if len >= tail.len() {
                v.push(format!("{}{}", "m".repeat(len - tail.len()), tail));
            }
        }
        let positions: Vec<usize> = if full_nul_positions { (0..len).collect() } else { vec![0, len / 2, len.saturating_sub(1)] };
        for p in positions {
            if p < len {
                let mut b = vec![b'n'; len];
                b[p] = 0;
                v.push(String::from_utf8(b).unwrap());
            }
        }
    }
    v.sort();
    v.dedup();
    v
}

/// Names used at instruction level: boundary lengths × families, plus random ones.
fn instruction_names(cap: usize, rng: &mut Rng, n_random: usize, with_structured: bool) -> Vec<String> {
    let mut v = vec![];
    if with_structured {
        let lens = [0usize, 1, 2, cap / 2, cap - 2, cap - 1, cap, cap + 1, cap + 2];
        for s in structured(cap, false) {
            if lens.contains(&s.len()) {
                v.push(s);
            }
        }
    }
    for _ in 0..n_random {
        let len = pick_len(rng, cap);
        v.push(random_name(rng, len, 3));
    }
    v
}

// ------------------------------------------------------------------------------------------------
// (a) library level

fn lib_check<const N: usize>(m: &mut Monitor, s: &str, structured: bool) {
    for (site, accepted, back) in [
        {
            let r = guard(|| gmsol_utils::fixed_str::fixed_str_to_bytes::<N>(s));
            match r {
                Ok(Ok(b)) => ("gmsol_utils::fixed_str", true, Some(gmsol_utils::fixed_str::bytes_to_fixed_str(&b).map(|x| x.to_string()).map_err(|e| format!("{e:?}")))),
                Ok(Err(_)) => ("gmsol_utils::fixed_str", false, None),
                Err(p) => ("gmsol_utils::fixed_str", false, Some(Err(format!("panic: {p}")))),
            }
        },
        {
            let r = guard(|| gmsol_store::utils::fixed_str::fixed_str_to_bytes::<N>(s));
            match r {
                Ok(Ok(b)) => (
                    "gmsol_store::utils::fixed_str",
                    true,
                    Some(gmsol_store::utils::fixed_str::bytes_to_fixed_str(&b).map(|x| x.to_string()).map_err(|e| format!("{e:?}").chars().take(120).collect())),
                ),
                Ok(Err(_)) => ("gmsol_store::utils::fixed_str", false, None),
                Err(p) => ("gmsol_store::utils::fixed_str", false, Some(Err(format!("panic: {p}")))),
            }
        },
    ] {
        m.eval();
        if !accepted {
            m.count(&format!("lib_cap{N}_rejected"));
            if s.len() <= N {
                m.count("lib_rejected_although_it_fits");
            }
            if let Some(Err(p)) = back {
                m.count("lib_panics");
                let _ = p;
            }
            continue;
        }
        m.count(&format!("lib_cap{N}_accepted"));
        if structured {
            m.nontrivial(format!("lib:{site}:{N}:{s}").as_bytes());
        } else {
            m.nontrivial(format!("lib:{site}:{N}:{}:{}", s.len(), shape_of(s, N)).as_bytes());
        }
        let back = back.unwrap();
        if back.as_deref() == Ok(s) {
            m.count("lib_round_trips");
        } else {
            m.count(&format!("lib_cap{N}_not_round_tripped[{}]", class_of(s, N)));
            m.violation(
                &format!("C35:fixed_str:{}", class_of(s, N)),
                json!({"site": site, "capacity": N, "input": show(s), "input_bytes": s.as_bytes(),
                    "fixed_str_to_bytes": "Ok", "bytes_to_fixed_str": format!("{back:?}")}),
            );
        }
    }
}

fn lib_check_cap(m: &mut Monitor, cap: usize, s: &str, structured: bool) {
    match cap {
        1 => lib_check::<1>(m, s, structured),
        2 => lib_check::<2>(m, s, structured),
        3 => lib_check::<3>(m, s, structured),
        8 => lib_check::<8>(m, s, structured),
        32 => lib_check::<32>(m, s, structured),
        64 => lib_check::<64>(m, s, structured),
        _ => unreachable!(),
    }
}

/// All strings over `ALPHABET` of byte length ≤ `max_bytes`.
fn exhaustive(max_bytes: usize) -> Vec<String> {
    let mut out = vec![String::new()];
    let mut frontier = vec![String::new()];
    while let Some(s) = frontier.pop() {
        for c in ALPHABET {
            if s.len() + c.len() <= max_bytes {
                let t = format!("{s}{c}");
                out.push(t.clone());
                frontier.push(t);
            }
        }
    }
    out
}

// ------------------------------------------------------------------------------------------------
// (b) program level

fn ok_str(r: &Result<String, String>, want: &str) -> bool {
    r.as_deref() == Ok(want)
}

fn report(m: &mut Monitor, site: &str, cap: usize, name: &str, readbacks: Vec<(&str, Result<String, String>)>, usable: Option<(bool, vcommon::serde_json::Value)>) {
    m.eval();
    m.count(&format!("{site}_accepted"));
    m.nontrivial(format!("{site}:{name}").as_bytes());
    let all_back = readbacks.iter().all(|(_, r)| ok_str(r, name));
    let rb = json!(readbacks.iter().map(|(k, r)| (k.to_string(), format!("{r:?}"))).collect::<std::collections::BTreeMap<_, _>>());
    if !all_back {
        m.count(&format!("{site}_not_read_back[{}]", class_of(name, cap)));
        m.violation(
            &format!("C35:{site}:{}", class_of(name, cap)),
            json!({"instruction": site, "capacity": cap, "name": show(name), "name_bytes": name.as_bytes(), "accepted": true,
                "accessors": rb, "usability": usable.as_ref().map(|u| u.1.clone())}),
        );
    } else {
        m.count(&format!("{site}_read_back_ok"));
        if let Some((false, detail)) = &usable {
            m.violation(
                &format!("C35:{site}:accepted_role_unusable"),
                json!({"instruction": site, "name": show(name), "accessors": rb, "usability": detail}),
            );
        }
    }
    if let Some((true, _)) = usable {
        m.count(&format!("{site}_role_usable"));
    }
    if m.wants_sample() && all_back && name.len() > 3 {
        m.sample(json!({"site": site, "name": show(name), "accessors": rb}));
    }
}

fn rejected(m: &mut Monitor, site: &str, cap: usize, name: &str, err: &str) {
    m.eval();
    m.count(&format!("{site}_rejected"));
    if name.len() <= cap && !name.as_bytes().contains(&0) && name.len() < cap {
        // A perfectly storable name was refused: not a property matter, but must be visible.
        m.count(&format!("{site}_rejected_storable_name"));
        if m.wants_sample() && site != "initialize" {
            m.sample(json!({"site": site, "storable_name_rejected": show(name), "error": err}));
        }
    }
}

fn tx_err(e: &hostsvm::TxError) -> String {
    match e.custom_code() {
        Some(c) => format!("Custom({c})"),
        None => format!("{e:?}").chars().take(100).collect(),
    }
}

fn ret_bool(r: world::TxResult) -> Result<bool, String> {
    match r {
        Ok(mt) => match mt.return_data {
            Some((_, d)) if d.len() == 1 => Ok(d[0] != 0),
            o => Err(format!("no bool return data {o:?}")),
        },
        Err((e, _)) => Err(tx_err(&e)),
    }
}

struct Bases {
    /// Store initialised, no roles.
    roles: Svm,
    roles_admin: Pubkey,
    roles_store: Pubkey,
    /// Store + token map + tokens + vaults.
    world: World,
}

fn bases() -> Bases {
    let mut svm = world::new_svm();
    let admin = key("c35-admin");
    svm.airdrop(&admin, 10_000 * world::LAMPORTS);
    let store = world::pda::find_store_address("", &STORE_PID).0;
    svm.process(
        &[six(
            sa::Initialize { payer: admin, authority: None, receiver: None, holding: None, store, system_program: system_program::ID },
            si::Initialize { key: String::new() },
        )],
        &[admin],
    )
    .map_err(|(e, _)| e)
    .expect("initialize");
    let mut w = World::bootstrap_store();
    w.bootstrap_oracle();
    w.add_token("BTC", 8, 2, true);
    w.add_token("SOL", 9, 4, false);
    w.add_token("USDC", 6, 6, false);
    // Creates the SOL and USDC vaults as a side effect.
    crate::c17::create_market(&mut w, 1, 1, 2, "base", true).expect("base market");
    Bases { roles: svm, roles_admin: admin, roles_store: store, world: w }
}

fn role_case(m: &mut Monitor, b: &Bases, name: &str) {
    // direct: RoleMetadata::new / name
    match guard(|| RoleMetadata::new(name, 0)) {
        Ok(Ok(md)) => {
            let back = md.name().map(|s| s.to_string()).map_err(|e| format!("{e:?}").chars().take(100).collect());
            report(m, "RoleMetadata::new", 32, name, vec![("RoleMetadata::name", back)], None);
        }
        Ok(Err(_)) => rejected(m, "RoleMetadata::new", 32, name, "Err"),
        Err(p) => {
            m.count("panics");
            rejected(m, "RoleMetadata::new", 32, name, &p);
        }
    }
    // instruction
    let mut svm = b.roles.clone();
    let (admin, store) = (b.roles_admin, b.roles_store);
    let r = svm.process(&[six(sa::EnableRole { authority: admin, store }, si::EnableRole { role: name.to_string() })], &[admin]);
    if let Err((e, _)) = &r {
        rejected(m, "enable_role", 32, name, &tx_err(e));
        return;
    }
    let Some(st) = load::<Store>(&svm, &store) else {
        m.inconclusive("store unreadable");
        return;
    };
    let names: Vec<Result<String, String>> =
        st.role().roles().map(|r| r.map(|s| s.to_string()).map_err(|e| format!("{e:?}").chars().take(100).collect())).collect();
    let back = if names.len() == 1 { names[0].clone() } else { Err(format!("{} roles stored", names.len())) };
    // usability
    let holder = key("c35-holder");
    let grant = svm
        .process(&[six(sa::GrantRole { authority: admin, store }, si::GrantRole { user: holder, role: name.to_string() })], &[admin])
        .map(|_| ())
        .map_err(|(e, _)| tx_err(&e));
    let has = ret_bool(svm.process(&[six(sa::HasRole { store }, si::HasRole { authority: holder, role: name.to_string() })], &[]));
    let check = ret_bool(svm.process(&[six(sa::CheckRole { authority: holder, store }, si::CheckRole { role: name.to_string() })], &[holder]));
    let disable = svm
        .process(&[six(sa::DisableRole { authority: admin, store }, si::DisableRole { role: name.to_string() })], &[admin])
        .map(|_| ())
        .map_err(|(e, _)| tx_err(&e));
    let has_after = ret_bool(svm.process(&[six(sa::HasRole { store }, si::HasRole { authority: holder, role: name.to_string() })], &[]));
    let disabled_in_store = load::<Store>(&svm, &store).map(|s| s.role().enabled_role_index(name).is_err());
    let usable = grant.is_ok() && has == Ok(true) && check == Ok(true) && disable.is_ok() && has_after != Ok(true) && disabled_in_store == Some(true);
    let detail = json!({"grant_role": format!("{grant:?}"), "has_role": format!("{has:?}"), "check_role": format!("{check:?}"),
        "disable_role": format!("{disable:?}"), "has_role_after_disable": format!("{has_after:?}"), "reported_disabled": disabled_in_store});
    report(m, "enable_role", 32, name, vec![("RoleMetadata::name (Store::role().roles())", back)], Some((usable, detail)));
}

fn market_case(m: &mut Monitor, b: &Bases, name: &str, pure: bool) {
    let mut w = b.world.clone();
    // direct
    let store = w.store;
    let r = in_runtime(&mut w.svm, || {
        let mut mk = Box::new(Market::default());
        mk.init(1, store, name, key("mt"), key("it"), key("lt"), key("st"), true)
            .map(|_| mk.name().map(|s| s.to_string()).map_err(|e| format!("{e:?}").chars().take(100).collect::<String>()))
            .map_err(|e| format!("{e:?}").chars().take(100).collect::<String>())
    });
    match r {
        Ok(Ok(back)) => report(m, "Market::init", 64, name, vec![("Market::name", back)], None),
        Ok(Err(e)) => rejected(m, "Market::init", 64, name, &e),
        Err(p) => {
            m.count("panics");
            rejected(m, "Market::init", 64, name, &p);
        }
    }
    // instruction
    let (it, lt, st) = if pure { (0, 1, 1) } else { (0, 1, 2) };
    match crate::c17::create_market(&mut w, it, lt, st, name, true) {
        Ok(market) => match load::<Market>(&w.svm, &market) {
            Some(mk) => {
                let back = mk.name().map(|s| s.to_string()).map_err(|e| format!("{e:?}").chars().take(100).collect());
                let desc = mk.description().map_err(|e| format!("{e:?}").chars().take(60).collect::<String>());
                m.count(if desc.is_ok() { "market_description_ok" } else { "market_description_err" });
                report(m, "initialize_market", 64, name, vec![("Market::name", back)], None);
            }
            None => m.inconclusive("market unreadable after initialize_market"),
        },
        Err(e) => rejected(m, "initialize_market", 64, name, &e),
    }
}

fn token_case(m: &mut Monitor, b: &Bases, name: &str, synthetic: bool, n: u64) {
    let mut w = b.world.clone();
    let (keeper, store, token_map) = (w.keeper, w.store, w.token_map);
    let mint = key(&format!("c35-mint-{n}"));
    if !synthetic {
        token::set_mint(&mut w.svm, mint, Some(key("mint-authority")), 7, 0);
    }
    let provider = PriceProviderKind::ChainlinkDataStreams;
    let builder = UpdateTokenConfigParams::default()
        .update_price_feed(&provider, key("c35-feed"), None)
        .expect("feed")
        .with_expected_provider(provider)
        .with_precision(3);
    let site = if synthetic { "push_to_token_map_synthetic" } else { "push_to_token_map" };
    let r = if synthetic {
        w.send(
            &[six(
                sa::PushToTokenMapSynthetic { authority: keeper, store, token_map, system_program: system_program::ID },
                si::PushToTokenMapSynthetic { name: name.to_string(), token: mint, token_decimals: 7, builder, enable: true, new: true },
            )],
            &[keeper],
        )
    } else {
        w.send(
            &[six(
                sa::PushToTokenMap { authority: keeper, store, token_map, token: mint, system_program: system_program::ID },
                si::PushToTokenMap { name: name.to_string(), builder, enable: true, new: true },
            )],
            &[keeper],
        )
    };
    if let Err((e, _)) = &r {
        rejected(m, site, 32, name, &tx_err(e));
        return;
    }
    // program's own read instruction
    let via_ix = match w.send(&[six(sa::ReadTokenMap { token_map }, si::TokenName { token: mint })], &[]) {
        Ok(mt) => match mt.return_data {
            Some((_, d)) if d.len() >= 4 => {
                let n = u32::from_le_bytes(d[..4].try_into().unwrap()) as usize;
                if d.len() == 4 + n {
                    String::from_utf8(d[4..].to_vec()).map_err(|e| format!("{e:?}"))
                } else {
                    Err("malformed return data".into())
                }
            }
            o => Err(format!("no return data {o:?}")),
        },
        Err((e, _)) => Err(tx_err(&e)),
    };
    let mut backs = vec![("token_name instruction", via_ix)];
    if let Some(a) = w.svm.get(&token_map) {
        if let Ok(tm) = gmsol_store::states::TokenMap::try_deserialize(&mut &a.data[..]) {
            if let Some(cfg) = tm.get(&mint) {
                backs.push(("TokenConfig::name", cfg.name().map(|s| s.to_string()).map_err(|e| format!("{e:?}"))));
            } else {
                m.count("token_config_not_found_via_TokenMap_util");
            }
        }
    }
    report(m, site, 32, name, backs, None);
}

fn executor_case(m: &mut Monitor, b: &Bases, name: &str) {
    let mut svm = b.roles.clone();
    let payer = b.roles_admin;
    let store = b.roles_store;
    let mut seed = [0u8; 32];
    let nb = name.as_bytes();
    let n = nb.len().min(32);
    seed[..n].copy_from_slice(&nb[..n]);
    let pid = gmsol_timelock::ID;
    let executor = Pubkey::find_program_address(&[gmsol_timelock::states::Executor::SEED, store.as_ref(), &seed], &pid).0;
    let wallet = Pubkey::find_program_address(&[gmsol_timelock::states::Executor::WALLET_SEED, executor.as_ref()], &pid).0;
    let r = svm.process(
        &[ix(
            pid,
            gmsol_timelock::accounts::InitializeExecutor { payer, store, executor, wallet, system_program: system_program::ID },
            gmsol_timelock::instruction::InitializeExecutor { role: name.to_string() },
        )],
        &[payer],
    );
    if let Err((e, _)) = &r {
        rejected(m, "initialize_executor", 32, name, &tx_err(e));
        return;
    }
    match load::<gmsol_timelock::states::Executor>(&svm, &executor) {
        Some(ex) => {
            let back = ex.role_name().map(|s| s.to_string()).map_err(|e| format!("{e:?}").chars().take(100).collect());
            report(m, "initialize_executor", 32, name, vec![("Executor::role_name", back)], None);
        }
        None => m.inconclusive("executor unreadable after initialize_executor"),
    }
}

fn store_case(m: &mut Monitor, b: &Bases, name: &str) {
    // direct Store::init (the instruction only admits the empty key in this build)
    let mut svm = b.roles.clone();
    let r = in_runtime(&mut svm, || {
        let mut st: Box<Store> = Box::new(bytemuck::Zeroable::zeroed());
        let a = key("c35-auth");
        st.init(a, name, 254, a, a)
            .map(|_| st.key().map(|s| s.to_string()).map_err(|e| format!("{e:?}").chars().take(100).collect::<String>()))
            .map_err(|e| format!("{e:?}").chars().take(100).collect::<String>())
    });
    match r {
        Ok(Ok(back)) => report(m, "Store::init", 32, name, vec![("Store::key", back)], None),
        Ok(Err(e)) => rejected(m, "Store::init", 32, name, &e),
        Err(p) => {
            m.count("panics");
            rejected(m, "Store::init", 32, name, &p);
        }
    }
    // instruction `initialize` on a fresh runtime
    let mut svm = world::new_svm();
    let admin = key("c35-admin2");
    svm.airdrop(&admin, 1_000 * world::LAMPORTS);
    let store = world::pda::find_store_address(name, &STORE_PID).0;
    let r = svm.process(
        &[six(
            sa::Initialize { payer: admin, authority: None, receiver: None, holding: None, store, system_program: system_program::ID },
            si::Initialize { key: name.to_string() },
        )],
        &[admin],
    );
    match r {
        Ok(_) => match load::<Store>(&svm, &store) {
            Some(st) => {
                let back = st.key().map(|s| s.to_string()).map_err(|e| format!("{e:?}").chars().take(100).collect());
                report(m, "initialize", 32, name, vec![("Store::key", back)], None);
            }
            None => m.inconclusive("store unreadable after initialize"),
        },
        Err((e, _)) => rejected(m, "initialize", 32, name, &tx_err(&e)),
    }
}

pub fn run(args: &Args) -> Option<i32> {
    let mut mon = Monitor::new(
        args,
        "cases: (a) strings of byte length 0..=cap+2 for cap in {1,2,3 exhaustive over a 12-character alphabet with NUL, \
         space, 2/3/4-byte UTF-8; 8,32,64 structured families (plain, NUL at every position, multi-byte tail, spaces, \
         all-NUL) + random} through fixed_str_to_bytes/bytes_to_fixed_str (gmsol-utils and the store wrappers); (b) names \
         (boundary lengths × families + random) through enable_role(+grant/has_role/check_role/disable_role), \
         initialize_market, push_to_token_map(_synthetic), initialize_executor, initialize, and directly RoleMetadata::new, \
         Market::init, Store::init, read back with the program's accessors. non-trivial: the name was accepted (so the \
         read-back rule applies); distinct = distinct (site, string) for structured/instruction cases and distinct (site, \
         cap, length, content shape) for random library strings",
    );
    mon.assume("capacities used by the programs: 32 (store key, role, token, executor) and 64 (market); 1,2,3,8 are added to make exhaustive enumeration feasible");
    mon.assume("the `initialize` instruction of this build only admits the empty store key (no `multi-store` feature); non-empty keys are exercised through Store::init directly");
    let quiet = hostsvm::QuietStdout::new();
    let shards = args.scale(128, 192);
    let lib_random = args.scale(150_000, 2_000_000);
    let ix_random = args.scale(60, 240) as usize;
    let seed = args.seed;
    run_shards(&mut mon, args.threads, shards, |shard, m| {
        let mut rng = Rng::derive(seed, shard, 35);
        // ---------------- (a)
        if shard == 0 {
            for cap in [1usize, 2, 3] {
                for s in exhaustive(cap + 2) {
                    lib_check_cap(m, cap, &s, true);
                    m.count("lib_exhaustive_strings");
                }
            }
            for cap in [8usize, 32, 64] {
                for s in structured(cap, true) {
                    lib_check_cap(m, cap, &s, true);
                    m.count("lib_structured_strings");
                }
            }
        }
        for i in 0..lib_random {
            let cap = [8usize, 32, 64, 32, 64][(i % 5) as usize];
            let len = pick_len(&mut rng, cap);
            let s = random_name(&mut rng, len, 4);
            lib_check_cap(m, cap, &s, false);
        }
        m.add("lib_random_strings", lib_random);
        // ---------------- (b)
        let b = match guard(bases) {
            Ok(b) => b,
            Err(e) => {
                m.inconclusive(&format!("bootstrap failed: {e}"));
                return;
            }
        };
        let with_structured = shard % 8 == 0;
        for (i, name) in instruction_names(32, &mut rng, ix_random, with_structured).iter().enumerate() {
            role_case(m, &b, name);
            token_case(m, &b, name, i % 2 == 0, i as u64);
            executor_case(m, &b, name);
            if i % 4 == 0 || with_structured {
                store_case(m, &b, name);
            }
        }
        for (i, name) in instruction_names(64, &mut rng, ix_random, with_structured).iter().enumerate() {
            market_case(m, &b, name, i % 3 == 0);
        }
    });
    drop(quiet);
    for c in [
        "enable_role_accepted", "enable_role_rejected", "enable_role_role_usable", "initialize_market_accepted", "initialize_market_rejected",
        "push_to_token_map_accepted", "push_to_token_map_synthetic_accepted", "push_to_token_map_rejected", "initialize_executor_accepted",
        "initialize_executor_rejected", "Store::init_accepted", "RoleMetadata::new_accepted", "Market::init_accepted", "initialize_rejected",
    ] {
        mon.require(c, 20);
    }
    mon.require("initialize_accepted", 2);
    mon.require("lib_cap32_accepted", 10_000);
    mon.require("lib_cap64_accepted", 10_000);
    mon.require("lib_cap32_rejected", 1_000);
    mon.require("lib_cap64_rejected", 1_000);
    mon.require("lib_exhaustive_strings", 1_000);
    mon.require("lib_structured_strings", 1_000);
    Some(mon.finish())
}
