//! C28 — Chainlink reports are decoded safely and converted faithfully.
//!
//! Code under test: `decode_compressed_full_report`, `decode_full_report`, `decode`
//! (gmsol-chainlink-datastreams/src/report.rs) and `PriceFeedPrice::from_chainlink_report`
//! (…/src/gmsol.rs).
//!
//! Oracles (all independent of the repo code):
//! * any panic ⇒ violation;
//! * `decode_full_report` Ok ⇒ the returned context is words 0..3 and the returned blob is *the* slice
//!   `payload[off+32 .. off+32+len]` where `off` is the full 256-bit big-endian integer in word 3 and
//!   `len` the full 256-bit integer at `off` (ABI `bytes` encoding); identity of the slice is checked by
//!   pointer offset and length, not only by content;
//! * `decode` Ok ⇒ every public field equals an independent read of the ABI words (only for words that
//!   are canonical for their Solidity type; others are skipped and counted);
//! * compressed path Ok ⇒ our own snappy decompression + ABI slicing + `decode` of that slice gives the
//!   same report;
//! * conversion: never panics; negative or misordered bid/price/ask ⇒ Err; Ok ⇒ min ≤ price ≤ max and
//!   `price = ⌊P/10^k⌋, min = ⌊B/10^k⌋, max = ⌊A/10^k⌋` for the single `k = 18 − decimals`.
use gmsol_chainlink_datastreams::report::{
    decode, decode_compressed_full_report, decode_full_report, ExtendedMarketStatus, MarketStatus,
    Report,
};
use gmsol_chainlink_datastreams::FromChainlinkReport;
use gmsol_utils::price::PriceFeedPrice;
use std::sync::Mutex;
use vcommon::monitor::guard;
use vcommon::num_bigint::{BigInt, BigUint, Sign};
use vcommon::num_traits::{One, Signed, ToPrimitive, Zero};
use vcommon::{json, Args, Monitor, Rng};

use crate::util::{hex, limbs_to_biguint};

const W: usize = 32;

// ---------------------------------------------------------------------------------------------
// independent ABI helpers

fn word_from_biguint(x: &BigUint) -> [u8; 32] {
    let b = x.to_bytes_be();
    let mut w = [0u8; 32];
    let n = b.len().min(32);
    w[32 - n..].copy_from_slice(&b[b.len() - n..]);
    w
}

/// 256-bit two's complement.
fn word_from_bigint(x: &BigInt) -> [u8; 32] {
    if x.is_negative() {
        let m = (BigUint::one() << 256usize) - x.magnitude();
        word_from_biguint(&m)
    } else {
        word_from_biguint(x.magnitude())
    }
}

fn word_u64(x: u64) -> [u8; 32] {
    word_from_biguint(&BigUint::from(x))
}

fn full_uint(w: &[u8]) -> BigUint {
    BigUint::from_bytes_be(w)
}

fn canon_u32(w: &[u8]) -> Option<u32> {
    full_uint(w).to_u32()
}
fn canon_u64(w: &[u8]) -> Option<u64> {
    full_uint(w).to_u64()
}
fn canon_u192(w: &[u8]) -> Option<BigUint> {
    if w[..8].iter().all(|b| *b == 0) {
        Some(BigUint::from_bytes_be(&w[8..]))
    } else {
        None
    }
}
/// int192 stored sign-extended in a 256-bit word.
fn canon_i192(w: &[u8]) -> Option<BigInt> {
    let neg = w[8] & 0x80 != 0;
    let ext = if neg { 0xFF } else { 0x00 };
    if !w[..8].iter().all(|b| *b == ext) {
        return None;
    }
    let mag = BigUint::from_bytes_be(&w[8..]);
    if neg {
        Some(BigInt::from_biguint(Sign::Plus, mag) - (BigInt::one() << 192usize))
    } else {
        Some(BigInt::from_biguint(Sign::Plus, mag))
    }
}

/// What the ABI says about the report blob inside a full-report payload.
#[derive(Debug, Clone, PartialEq, Eq)]
pub enum Abi {
    HeadTooShort,
    Slice { start: usize, end: usize },
    /// offset/length as full 256-bit integers do not describe a slice of the payload
    OutOfRange { offset_fits_u64: bool, length_fits_u64: Option<bool> },
}

pub fn abi_blob(payload: &[u8]) -> Abi {
    if payload.len() < 4 * W {
        return Abi::HeadTooShort;
    }
    let n = BigUint::from(payload.len());
    let off = full_uint(&payload[96..128]);
    let off_fits = off.to_u64().is_some();
    let len_start = &off + BigUint::from(W);
    if len_start > n {
        // try to learn whether the low 8 bytes alone would have been in range (for classification)
        return Abi::OutOfRange { offset_fits_u64: off_fits, length_fits_u64: None };
    }
    let o = off.to_usize().unwrap();
    let len = full_uint(&payload[o..o + W]);
    let end = &len_start + &len;
    if end > n {
        return Abi::OutOfRange { offset_fits_u64: off_fits, length_fits_u64: Some(len.to_u64().is_some()) };
    }
    Abi::Slice { start: o + W, end: end.to_usize().unwrap() }
}

/// Independent read of a report blob. `None` fields = word not canonical for its type (skipped).
#[derive(Debug, Default, Clone)]
pub struct Parsed {
    pub version: u16,
    pub valid_from: Option<u32>,
    pub obs: Option<u32>,
    pub expires: Option<u32>,
    pub native_ok: bool,
    pub link_ok: bool,
    pub price: Option<BigInt>,
    pub bid: Option<BigInt>,
    pub ask: Option<BigInt>,
    pub last_update: Option<Option<u64>>,
    pub status: Option<u32>,
    pub supported: bool,
    pub long_enough: bool,
}

pub fn needed_words(version: u16) -> Option<usize> {
    match version {
        2 | 7 => Some(7),
        3 | 8 => Some(9),
        11 => Some(14),
        _ => None,
    }
}

pub fn parse_blob(blob: &[u8]) -> Option<Parsed> {
    if blob.len() < W {
        return None;
    }
    let version = u16::from_be_bytes([blob[0], blob[1]]);
    let mut p = Parsed { version, ..Default::default() };
    let Some(need) = needed_words(version) else {
        return Some(p);
    };
    p.supported = true;
    p.long_enough = blob.len() >= need * W;
    if !p.long_enough {
        return Some(p);
    }
    let w = |i: usize| &blob[i * W..(i + 1) * W];
    p.valid_from = canon_u32(w(1));
    p.obs = canon_u32(w(2));
    p.native_ok = canon_u192(w(3)).is_some();
    p.link_ok = canon_u192(w(4)).is_some();
    p.expires = canon_u32(w(5));
    match version {
        2 | 7 => {
            p.price = canon_i192(w(6));
            p.bid = p.price.clone();
            p.ask = p.price.clone();
            p.last_update = Some(None);
        }
        3 => {
            p.price = canon_i192(w(6));
            p.bid = canon_i192(w(7));
            p.ask = canon_i192(w(8));
            p.last_update = Some(None);
        }
        8 => {
            p.last_update = canon_u64(w(6)).map(Some);
            p.price = canon_i192(w(7));
            p.bid = p.price.clone();
            p.ask = p.price.clone();
            p.status = canon_u32(w(8));
        }
        11 => {
            p.price = canon_i192(w(6));
            p.last_update = canon_u64(w(7)).map(Some);
            p.bid = canon_i192(w(8));
            p.ask = canon_i192(w(10));
            p.status = canon_u32(w(13));
        }
        _ => unreachable!(),
    }
    Some(p)
}

// ---------------------------------------------------------------------------------------------
// checks

fn u192_opt(x: Option<gmsol_utils::price::U192>) -> Option<BigUint> {
    x.map(|v| limbs_to_biguint(v.as_limbs()))
}

/// `decode(blob)` + field faithfulness + conversion. Returns the report if decoding succeeded.
#[allow(deprecated)]
pub fn check_decode(m: &mut Monitor, blob: &[u8], origin: &str) -> Option<Report> {
    m.eval();
    let w = |what: String| json!({"blob_hex": hex(blob), "origin": origin, "detail": what});
    let parsed = parse_blob(blob);
    let r = match guard(|| decode(blob)) {
        Err(msg) => {
            m.count("panics");
            m.violation("C28:decode:panic", w(format!("panic: {msg}")));
            return None;
        }
        Ok(r) => r,
    };
    let report = match r {
        Err(e) => {
            let class = match &parsed {
                None => "decode_err_shorter_than_one_word",
                Some(p) if !p.supported => "decode_err_unsupported_version",
                Some(p) if !p.long_enough => "decode_err_truncated",
                Some(p) => {
                    let bad_status = match (p.version, p.status) {
                        (8, Some(s)) => s > 2,
                        (11, Some(s)) => s > 5,
                        _ => false,
                    };
                    if bad_status {
                        "decode_err_bad_market_status"
                    } else if p.status.is_none() && matches!(p.version, 8 | 11) {
                        "decode_err_other"
                    } else {
                        // structurally valid by our reading, still refused: not a violation of the
                        // statement (it only speaks about success), but visible in the evidence
                        if m.wants_sample() {
                            m.sample(w(format!("structurally valid report refused: {e}")));
                        }
                        "decode_err_structurally_valid_refused"
                    }
                }
            };
            m.count(class);
            if origin.starts_with("mutated") || origin.starts_with("built") {
                crate::util::nontrivial_capped(m, blob);
            }
            return None;
        }
        Ok(r) => r,
    };
    m.count("decode_ok");
    m.count(&format!("decode_ok_v{}", parsed.as_ref().map(|p| p.version).unwrap_or(0)));
    let Some(p) = parsed else {
        m.violation("C28:decode:ok_on_blob_shorter_than_one_word", w(format!("{report:?}")));
        return None;
    };
    if !p.supported || !p.long_enough {
        m.violation("C28:decode:ok_on_unsupported_or_truncated_blob", w(format!("{report:?}")));
        return None;
    }
    let mut bad: Vec<String> = vec![];
    if report.feed_id.0[..] != blob[..W] {
        bad.push("feed_id".into());
    }
    let mut skipped = 0u64;
    macro_rules! cmp {
        ($name:expr, $exp:expr, $got:expr) => {
            match $exp {
                Some(e) => {
                    if e != $got {
                        bad.push(format!("{}: expected {:?} got {:?}", $name, e, $got));
                    }
                }
                None => skipped += 1,
            }
        };
    }
    cmp!("valid_from_timestamp", p.valid_from, report.valid_from_timestamp);
    cmp!("observations_timestamp", p.obs, report.observations_timestamp);
    cmp!("expires_at", p.expires, report.expires_at());
    cmp!("last_update_timestamp", p.last_update, report.last_update_timestamp());
    let nn = |x: &Option<BigInt>| x.as_ref().map(|v| if v.is_negative() { None } else { Some(v.magnitude().clone()) });
    cmp!("price", nn(&p.price), u192_opt(report.non_negative_price()));
    cmp!("bid", nn(&p.bid), u192_opt(report.non_negative_bid()));
    cmp!("ask", nn(&p.ask), u192_opt(report.non_negative_ask()));
    let (exp_status, exp_ext): (Option<MarketStatus>, Option<Option<ExtendedMarketStatus>>) = match p.version {
        2 | 3 | 7 => (Some(MarketStatus::Open), Some(None)),
        8 => match p.status {
            Some(0) => (Some(MarketStatus::Unknown), Some(Some(ExtendedMarketStatus::Unknown))),
            Some(1) => (Some(MarketStatus::Closed), Some(Some(ExtendedMarketStatus::Closed))),
            Some(2) => (Some(MarketStatus::Open), Some(Some(ExtendedMarketStatus::RegularHours))),
            Some(_) => {
                bad.push("accepted a v8 market status > 2".into());
                (None, None)
            }
            None => (None, None),
        },
        11 => {
            let ext = match p.status {
                Some(0) => Some(ExtendedMarketStatus::Unknown),
                Some(1) => Some(ExtendedMarketStatus::PreMarket),
                Some(2) => Some(ExtendedMarketStatus::RegularHours),
                Some(3) => Some(ExtendedMarketStatus::PostMarket),
                Some(4) => Some(ExtendedMarketStatus::Overnight),
                Some(5) => Some(ExtendedMarketStatus::Closed),
                Some(_) => {
                    bad.push("accepted a v11 market status > 5".into());
                    None
                }
                None => None,
            };
            (Some(MarketStatus::Unknown), ext.map(Some))
        }
        _ => (None, None),
    };
    cmp!("market_status", exp_status, report.market_status());
    cmp!("extended_market_status", exp_ext, report.extended_market_status());
    if skipped > 0 {
        m.add("noncanonical_words_skipped", skipped);
    }
    if !bad.is_empty() {
        m.violation("C28:decode:field_differs_from_abi_word", w(bad.join("; ")));
        return Some(report);
    }
    crate::util::nontrivial_capped(m, blob);
    Some(report)
}

/// `PriceFeedPrice::from_chainlink_report` on a decoded report.
pub fn check_convert(m: &mut Monitor, report: &Report, blob: &[u8]) {
    m.eval();
    let p = u192_opt(report.non_negative_price());
    let bd = u192_opt(report.non_negative_bid());
    let a = u192_opt(report.non_negative_ask());
    let w = |what: String| json!({"blob_hex": hex(blob), "report": format!("{report:?}"), "detail": what});
    let r = match guard(|| PriceFeedPrice::from_chainlink_report(report)) {
        Err(msg) => {
            m.count("panics");
            m.violation("C28:from_chainlink_report:panic", w(format!("panic: {msg}")));
            return;
        }
        Ok(r) => r,
    };
    let negative = p.is_none() || bd.is_none() || a.is_none();
    let misordered = match (&p, &bd, &a) {
        (Some(p), Some(b), Some(a)) => a < p || p < b,
        _ => false,
    };
    match r {
        Err(e) => {
            let s = e.to_string();
            if negative {
                m.count("convert_rejected_negative");
            } else if misordered {
                m.count("convert_rejected_misordered");
            } else if s.contains("last_update_timestamp") {
                m.count("convert_rejected_last_update_in_future");
            } else if s.contains("divisor_decimals") {
                m.count("convert_rejected_too_large");
            } else {
                m.count("convert_rejected_other");
            }
        }
        Ok(fp) => {
            if negative {
                m.violation("C28:from_chainlink_report:accepts_negative", w(format!("{fp:?}")));
                return;
            }
            if misordered {
                m.violation("C28:from_chainlink_report:accepts_misordered", w(format!("{fp:?}")));
                return;
            }
            let (p, bd, a) = (p.unwrap(), bd.unwrap(), a.unwrap());
            if !(fp.min_price() <= fp.price() && fp.price() <= fp.max_price()) {
                m.violation("C28:from_chainlink_report:order_not_preserved", w(format!("{fp:?}")));
                return;
            }
            let decimals = bytemuck::bytes_of(&fp)[0];
            if decimals > 18 {
                m.violation("C28:from_chainlink_report:decimals_out_of_range", w(format!("{fp:?}")));
                return;
            }
            let k = BigUint::from(10u8).pow(18 - decimals as u32);
            let ok = BigUint::from(*fp.price()) == &p / &k
                && BigUint::from(*fp.min_price()) == &bd / &k
                && BigUint::from(*fp.max_price()) == &a / &k;
            if !ok {
                m.violation("C28:from_chainlink_report:not_a_common_power_of_ten_scale", w(format!("{fp:?}")));
                return;
            }
            m.count("convert_ok");
            if decimals < 18 {
                m.count("convert_ok_scaled_down");
            }
            if bd != p || a != p {
                m.count("convert_ok_distinct_bid_ask");
            }
            let mut sig = blob.to_vec();
            sig.push(0xC0);
            crate::util::nontrivial_capped(m, &sig);
            if m.wants_sample() && m.counter("sampled_conversions") < 2 {
                m.count("sampled_conversions");
                m.sample(json!({"kind": "conversion", "report": format!("{report:?}"), "price_feed_price": format!("{fp:?}")}));
            }
        }
    }
}

/// `decode_full_report(payload)` against the ABI reading. Returns the blob range on success.
pub fn check_full(m: &mut Monitor, payload: &[u8], origin: &str) -> Option<(usize, usize)> {
    m.eval();
    let w = |what: String| json!({"payload_hex": hex(payload), "origin": origin, "detail": what});
    let abi = abi_blob(payload);
    let r = match guard(|| {
        decode_full_report(payload).map(|(ctx, blob)| {
            (ctx, blob.as_ptr() as usize - payload.as_ptr() as usize, blob.len())
        })
    }) {
        Err(msg) => {
            m.count("panics");
            m.violation("C28:decode_full_report:panic", w(format!("panic: {msg}")));
            return None;
        }
        Ok(r) => r,
    };
    match r {
        Err(e) => {
            match &abi {
                Abi::HeadTooShort => m.count("full_err_head_too_short"),
                Abi::OutOfRange { .. } => m.count("full_err_out_of_range"),
                Abi::Slice { .. } => {
                    let off = full_uint(&payload[96..128]);
                    if off < BigUint::from(128u32) {
                        m.count("full_err_offset_into_head");
                    } else {
                        m.count("full_err_abi_valid_slice_refused");
                        if m.wants_sample() {
                            m.sample(w(format!("ABI-valid slice refused: {e}")));
                        }
                    }
                }
            }
            if origin != "random" {
                crate::util::nontrivial_capped(m, payload);
            }
            None
        }
        Ok((ctx, start, len)) => {
            m.count("full_ok");
            for i in 0..3 {
                if ctx[i][..] != payload[i * W..(i + 1) * W] {
                    m.violation("C28:decode_full_report:context_mismatch", w(format!("context word {i}")));
                    return None;
                }
            }
            match abi {
                Abi::Slice { start: s, end: e } => {
                    if s != start || e - s != len {
                        m.violation(
                            "C28:decode_full_report:blob_is_not_the_abi_slice",
                            w(format!("abi {s}..{e}, returned {start}..{}", start + len)),
                        );
                        return None;
                    }
                    if e == payload.len() {
                        m.count("full_ok_blob_ends_at_payload_end");
                    }
                    if len == 0 {
                        m.count("full_ok_empty_blob");
                    }
                    crate::util::nontrivial_capped(m, payload);
                    Some((start, start + len))
                }
                Abi::HeadTooShort => {
                    m.violation("C28:decode_full_report:ok_on_short_payload", w(String::new()));
                    None
                }
                Abi::OutOfRange { offset_fits_u64, length_fits_u64 } => {
                    // The ABI words (256-bit) do not describe a slice of this payload, yet a blob was
                    // returned. Classify by which word's upper bytes were disregarded.
                    // Residual bound for these classes: the blob must at least be the slice described
                    // by the low 64 bits of the two words; anything else is a different deviation.
                    let off64 = u64::from_be_bytes(payload[120..128].try_into().unwrap()) as u128;
                    let low_ok = off64 + 32 <= payload.len() as u128 && {
                        let o = off64 as usize;
                        let len64 = u64::from_be_bytes(payload[o + 24..o + 32].try_into().unwrap()) as u128;
                        start as u128 == off64 + 32 && len as u128 == len64
                    };
                    let sig = if !low_ok {
                        "C28:decode_full_report:blob_is_not_the_abi_slice"
                    } else if !offset_fits_u64 {
                        "C28:decode_full_report:offset_high_bytes_ignored"
                    } else if length_fits_u64 == Some(false) {
                        "C28:decode_full_report:length_high_bytes_ignored"
                    } else {
                        "C28:decode_full_report:blob_is_not_the_abi_slice"
                    };
                    m.violation(
                        sig,
                        w(format!(
                            "offset word = 0x{}, returned blob = payload[{start}..{}]; as 256-bit ABI integers offset/length point outside the {}-byte payload",
                            hex(&payload[96..128]),
                            start + len,
                            payload.len()
                        )),
                    );
                    None
                }
            }
        }
    }
}

static BIG_ALLOC: Mutex<()> = Mutex::new(());
const BIG_DECLARED: u64 = 4 << 20;

fn snap_declared_len(c: &[u8]) -> Option<u64> {
    snap::raw::decompress_len(c).ok().map(|x| x as u64)
}

/// Compressed path.
pub fn check_compressed(m: &mut Monitor, compressed: &[u8], origin: &str, big_ok: bool) {
    let w = |what: String| json!({"compressed_hex": hex(compressed), "origin": origin, "detail": what});
    // Streams declaring a large output make the decoder allocate (and zero) that much memory up
    // front. Those above 4 MiB are only run when `big_ok` (a fixed fraction of the cases) and one at
    // a time, so that the harness itself cannot be the one that dies or crawls.
    let declared = snap_declared_len(compressed).unwrap_or(0);
    if declared > BIG_DECLARED && !big_ok {
        m.count("snap_declared_len_above_4MiB_not_run");
        return;
    }
    m.eval();
    let _g = if declared > BIG_DECLARED {
        m.count("snap_declared_len_above_4MiB_run");
        Some(BIG_ALLOC.lock().unwrap_or_else(|e| e.into_inner()))
    } else {
        None
    };
    let r = match guard(|| decode_compressed_full_report(compressed)) {
        Err(msg) => {
            m.count("panics");
            m.violation("C28:decode_compressed_full_report:panic", w(format!("panic: {msg}")));
            return;
        }
        Ok(r) => r,
    };
    // independent pipeline
    let mine: Result<Vec<u8>, String> = snap::raw::Decoder::new().decompress_vec(compressed).map_err(|e| e.to_string());
    drop(_g);
    match r {
        Err(_) => {
            match &mine {
                Err(_) => m.count("compressed_err_snap"),
                Ok(payload) => match abi_blob(payload) {
                    Abi::Slice { .. } => m.count("compressed_err_after_slicing"),
                    _ => m.count("compressed_err_full_report"),
                },
            }
            if origin != "random" {
                crate::util::nontrivial_capped(m, compressed);
            }
        }
        Ok(report) => {
            m.count("compressed_ok");
            let payload = match mine {
                Ok(p) => p,
                Err(e) => {
                    m.violation("C28:decode_compressed_full_report:ok_on_undecompressable_input", w(e));
                    return;
                }
            };
            let Abi::Slice { start, end } = abi_blob(&payload) else {
                let off_high = payload.len() >= 128 && full_uint(&payload[96..128]).to_u64().is_none();
                m.violation(
                    if off_high { "C28:decode_full_report:offset_high_bytes_ignored" } else { "C28:decode_full_report:length_high_bytes_ignored" },
                    w(format!("decompressed payload = {}", hex(&payload))),
                );
                return;
            };
            let blob = &payload[start..end];
            match guard(|| decode(blob)) {
                Ok(Ok(direct)) => {
                    if format!("{direct:?}") != format!("{report:?}") {
                        m.violation(
                            "C28:decode_compressed_full_report:differs_from_decode_of_abi_slice",
                            w(format!("compressed path: {report:?}; direct: {direct:?}")),
                        );
                        return;
                    }
                }
                _ => {
                    m.violation(
                        "C28:decode_compressed_full_report:differs_from_decode_of_abi_slice",
                        w(format!("compressed path decoded {report:?}, decode(ABI slice) fails")),
                    );
                    return;
                }
            }
            let mut sig = compressed.to_vec();
            sig.push(0x5A);
            crate::util::nontrivial_capped(m, &sig);
            if m.wants_sample() && origin.starts_with("built") && m.counter("sampled_compressed") < 2 {
                m.count("sampled_compressed");
                m.sample(json!({"kind": "compressed full report", "compressed_len": compressed.len(), "payload_len": payload.len(), "blob": format!("{start}..{end}"), "report": format!("{report:?}")}));
            }
        }
    }
}

// ---------------------------------------------------------------------------------------------
// structure-aware generators

fn gen_i192(rng: &mut Rng) -> BigInt {
    let max: BigInt = (BigInt::one() << 191usize) - 1;
    let min: BigInt = -(BigInt::one() << 191usize);
    let mag = |rng: &mut Rng| -> BigInt {
        match rng.below(6) {
            0 => BigInt::from(rng.log_u128(u128::MAX)),
            1 => BigInt::from(rng.biased_u128(u128::MAX, 10u128.pow(18))),
            2 => (BigInt::from(rng.next_u128()) << 64usize) + BigInt::from(rng.next_u64()),
            3 => {
                // around 2^128 * 10^i (scaling boundaries of the conversion)
                let i = rng.range(0, 19) as u32;
                (BigInt::one() << 128usize) * BigInt::from(10u8).pow(i) + BigInt::from(rng.range_i64(-3, 3))
            }
            4 => BigInt::from(rng.range(0, 3)),
            _ => BigInt::from(rng.range(1, 100_000)) * BigInt::from(10u64.pow(18)),
        }
    };
    let v = match rng.below(12) {
        0 => max.clone(),
        1 => min.clone(),
        2 => BigInt::zero(),
        3 | 4 => -mag(rng),
        _ => mag(rng),
    };
    v.clamp(min, max)
}

#[derive(Clone, Debug)]
pub struct Fields {
    pub version: u16,
    pub feed_tail: [u8; 30],
    pub valid_from: u32,
    pub obs: u32,
    pub native: BigUint,
    pub link: BigUint,
    pub expires: u32,
    pub price: BigInt,
    pub bid: BigInt,
    pub ask: BigInt,
    pub last_update: u64,
    pub status: u32,
    pub vols: [BigInt; 3],
}

pub fn gen_fields(rng: &mut Rng) -> Fields {
    let version = match rng.below(12) {
        0 => *rng.pick(&[0u16, 1, 4, 5, 6, 9, 10, 12, 13, 0x0200, 0xFFFF]),
        1 => rng.next_u64() as u16,
        _ => *rng.pick(&[2u16, 3, 7, 8, 11, 3, 11, 8]),
    };
    let mut feed_tail = [0u8; 30];
    rng.fill(&mut feed_tail);
    let price = gen_i192(rng);
    // bid/ask: mostly ordered around the price, sometimes equal, sometimes crossed or negative
    let spread = |rng: &mut Rng| BigInt::from(rng.log_u128(u64::MAX as u128));
    let (bid, ask) = match rng.below(10) {
        0 => (gen_i192(rng), gen_i192(rng)),
        1 => (&price + spread(rng), &price - spread(rng)),
        2 => (price.clone(), price.clone()),
        3 => (&price - 1, &price + 1),
        4 => (&price + 1, &price + 2),
        5 => (&price - 2, &price - 1),
        _ => (&price - spread(rng), &price + spread(rng)),
    };
    let lim: BigInt = (BigInt::one() << 191usize) - 1;
    let clampi = |x: BigInt| x.clamp(-(BigInt::one() << 191usize), lim.clone());
    let obs = match rng.below(6) {
        0 => *rng.pick(&[0u32, 1, u32::MAX, u32::MAX - 1]),
        1 => rng.next_u64() as u32,
        _ => rng.range(1_600_000_000, 1_900_000_000) as u32,
    };
    let obs_ns = obs as u128 * 1_000_000_000;
    let last_update = match rng.below(10) {
        0 => 0u64,
        1 => u64::MAX,
        2 => rng.next_u64(),
        3 => (obs_ns + rng.range(0, 999_999_999) as u128).min(u64::MAX as u128) as u64,
        4 => (obs_ns + 1_000_000_000 + rng.range(0, 5) as u128).min(u64::MAX as u128) as u64,
        5 => (obs_ns + 999_999_999).min(u64::MAX as u128) as u64,
        6 => obs_ns.saturating_sub(rng.log_u64(u64::MAX) as u128).min(u64::MAX as u128) as u64,
        _ => obs_ns.saturating_sub(rng.range(0, 5_000_000_000) as u128).min(u64::MAX as u128) as u64,
    };
    let u192 = |rng: &mut Rng| -> BigUint {
        match rng.below(4) {
            0 => (BigUint::one() << 192usize) - BigUint::one(),
            1 => BigUint::zero(),
            _ => BigUint::from(rng.log_u128(u128::MAX)),
        }
    };
    Fields {
        version,
        feed_tail,
        valid_from: if rng.chance(1, 5) { rng.next_u64() as u32 } else { obs.saturating_sub(rng.range(0, 10) as u32) },
        obs,
        native: u192(rng),
        link: u192(rng),
        expires: if rng.chance(1, 5) { rng.next_u64() as u32 } else { obs.saturating_add(rng.range(0, 100_000) as u32) },
        price,
        bid: clampi(bid),
        ask: clampi(ask),
        last_update,
        status: match rng.below(8) {
            0 => *rng.pick(&[3u32, 5, 6, 7, 255, u32::MAX]),
            1 => rng.next_u64() as u32,
            _ => rng.range(0, 5) as u32,
        },
        vols: [gen_i192(rng), gen_i192(rng), gen_i192(rng)],
    }
}

/// Our own ABI encoder (layouts from the Solidity structs documented for each schema version).
pub fn encode_fields(f: &Fields) -> Vec<u8> {
    let mut words: Vec<[u8; 32]> = vec![];
    let mut id = [0u8; 32];
    id[..2].copy_from_slice(&f.version.to_be_bytes());
    id[2..].copy_from_slice(&f.feed_tail);
    words.push(id);
    words.push(word_u64(f.valid_from as u64));
    words.push(word_u64(f.obs as u64));
    words.push(word_from_biguint(&f.native));
    words.push(word_from_biguint(&f.link));
    words.push(word_u64(f.expires as u64));
    match f.version {
        3 => {
            words.push(word_from_bigint(&f.price));
            words.push(word_from_bigint(&f.bid));
            words.push(word_from_bigint(&f.ask));
        }
        8 => {
            words.push(word_u64(f.last_update));
            words.push(word_from_bigint(&f.price));
            words.push(word_u64(f.status as u64));
        }
        11 => {
            words.push(word_from_bigint(&f.price));
            words.push(word_u64(f.last_update));
            words.push(word_from_bigint(&f.bid));
            words.push(word_from_bigint(&f.vols[0]));
            words.push(word_from_bigint(&f.ask));
            words.push(word_from_bigint(&f.vols[1]));
            words.push(word_from_bigint(&f.vols[2]));
            words.push(word_u64(f.status as u64));
        }
        2 | 7 => words.push(word_from_bigint(&f.price)),
        _ => {
            // unsupported versions: give them a plausible body of random length
            words.push(word_from_bigint(&f.price));
            words.push(word_from_bigint(&f.bid));
            words.push(word_from_bigint(&f.ask));
        }
    }
    words.concat()
}

/// Mutations of a report blob. Returns the origin label.
pub fn mutate_blob(rng: &mut Rng, blob: &mut Vec<u8>) -> &'static str {
    match rng.below(9) {
        0 | 1 | 2 => "built",
        3 => {
            // truncate: at a word boundary, one byte short, or anywhere
            let n = blob.len();
            let cut = match rng.below(4) {
                0 => (rng.below((n / W) as u64 + 1) as usize) * W,
                1 => n.saturating_sub(1),
                2 => n.saturating_sub(W),
                _ => rng.below(n as u64 + 1) as usize,
            };
            blob.truncate(cut);
            "mutated:truncated"
        }
        4 => {
            let extra = rng.range(1, 70) as usize;
            let e = rng.bytes(extra);
            blob.extend_from_slice(&e);
            "mutated:extended"
        }
        5 => {
            // garbage in the upper (type-irrelevant) bytes of a word
            let nw = blob.len() / W;
            if nw > 1 {
                let i = rng.range(1, nw as u64 - 1) as usize;
                let k = rng.range(1, 24) as usize;
                let g = rng.bytes(k);
                blob[i * W..i * W + k].copy_from_slice(&g);
            }
            "mutated:noncanonical_word"
        }
        6 => {
            let n = blob.len();
            for _ in 0..rng.range(1, 4) {
                let i = rng.below(n as u64) as usize;
                blob[i] ^= 1 << rng.below(8);
            }
            "mutated:bitflips"
        }
        7 => {
            // replace a whole word
            let nw = blob.len() / W;
            if nw > 1 {
                let i = rng.range(1, nw as u64 - 1) as usize;
                let word: [u8; 32] = match rng.below(4) {
                    0 => [0xFF; 32],
                    1 => [0; 32],
                    2 => {
                        let mut w = [0u8; 32];
                        w[8] = 0x80;
                        w
                    }
                    _ => {
                        let mut w = [0u8; 32];
                        rng.fill(&mut w);
                        w
                    }
                };
                blob[i * W..(i + 1) * W].copy_from_slice(&word);
            }
            "mutated:word_replaced"
        }
        _ => {
            // change the version bytes only
            let v = *rng.pick(&[2u16, 3, 7, 8, 11, 1, 4, 12]);
            blob[..2].copy_from_slice(&v.to_be_bytes());
            "mutated:version_swapped"
        }
    }
}

/// Build a full-report payload around `blob` (ABI: bytes32[3] ctx, bytes blob, bytes32[] rs,
/// bytes32[] ss, bytes32 rawVs) and apply offset/length mutations.
pub fn build_payload(rng: &mut Rng, blob: &[u8]) -> (Vec<u8>, &'static str) {
    let mut p: Vec<u8> = vec![];
    let ctx = rng.bytes(96);
    p.extend_from_slice(&ctx);
    // head: offset(blob), offset(rs), offset(ss), rawVs  -> 7 words = 0xe0; sometimes a minimal head
    let minimal = rng.chance(1, 6);
    let head_words = if minimal { 4 } else { 7 };
    let blob_off = head_words * W;
    let padded = blob.len().div_ceil(W) * W;
    let nsig = rng.range(0, 3) as usize;
    let rs_off = blob_off + W + padded;
    let ss_off = rs_off + W + nsig * W;
    p.extend_from_slice(&word_u64(blob_off as u64));
    if !minimal {
        p.extend_from_slice(&word_u64(rs_off as u64));
        p.extend_from_slice(&word_u64(ss_off as u64));
        let mut vs = [0u8; 32];
        vs[0] = 1;
        vs[1] = 1;
        p.extend_from_slice(&vs);
    }
    p.extend_from_slice(&word_u64(blob.len() as u64));
    p.extend_from_slice(blob);
    p.resize(blob_off + W + padded, 0);
    let tail_present = !minimal && rng.chance(5, 6);
    if tail_present {
        for _ in 0..2 {
            p.extend_from_slice(&word_u64(nsig as u64));
            let s = rng.bytes(nsig * W);
            p.extend_from_slice(&s);
        }
    }
    let plen = p.len() as u64;
    let set_word_low = |p: &mut Vec<u8>, at: usize, v: u64| {
        p[at + 24..at + 32].copy_from_slice(&v.to_be_bytes());
    };
    let origin = match rng.below(14) {
        0..=4 => "built",
        5 => {
            // offset classes
            let v = match rng.below(12) {
                0 => 0,
                1 => 127,
                2 => 128,
                3 => 96,
                4 => plen - 32,
                5 => plen - 31,
                6 => plen,
                7 => plen + 1,
                8 => u64::MAX,
                9 => u64::MAX - 31,
                10 => u64::MAX - 32,
                _ => rng.range(0, plen + 40),
            };
            set_word_low(&mut p, 96, v);
            "mutated:offset"
        }
        6 => {
            // length classes (relative to what remains after the length word)
            let remaining = plen - (blob_off as u64 + 32);
            let v = match rng.below(12) {
                0 => 0,
                1 => remaining,
                2 => remaining + 1,
                3 => remaining.saturating_sub(1),
                4 => u64::MAX,
                5 => u64::MAX - (blob_off as u64 + 32),
                6 => u64::MAX - (blob_off as u64 + 32) + 1,
                7 => 1 << 63,
                8 => plen,
                9 => (1u64 << 32) + blob.len() as u64,
                _ => rng.range(0, remaining + 40),
            };
            set_word_low(&mut p, blob_off, v);
            "mutated:length"
        }
        7 => {
            // upper 24 bytes of the offset word (a 256-bit ABI integer) non-zero
            let k = rng.range(0, 23) as usize;
            p[96 + k] = rng.range(1, 255) as u8;
            "mutated:offset_high_bytes"
        }
        8 => {
            let k = rng.range(0, 23) as usize;
            p[blob_off + k] = rng.range(1, 255) as u8;
            "mutated:length_high_bytes"
        }
        9 => {
            let cut = match rng.below(5) {
                0 => 127,
                1 => 128,
                2 => blob_off + 31,
                3 => blob_off + 32,
                _ => rng.below(plen + 1) as usize,
            };
            p.truncate(cut.min(plen as usize));
            "mutated:truncated"
        }
        10 => {
            // exact fit: payload ends right after the blob
            p.truncate(blob_off + W + blob.len());
            "mutated:exact_fit"
        }
        11 => {
            for _ in 0..rng.range(1, 4) {
                let i = rng.below(plen) as usize;
                p[i] ^= 1 << rng.below(8);
            }
            "mutated:bitflips"
        }
        12 => {
            // offset pointing at another in-range position (e.g. the rs array), blob becomes that data
            let v = rng.range(4, (plen / 32).max(5)) * 32;
            set_word_low(&mut p, 96, v);
            "mutated:offset_elsewhere"
        }
        _ => {
            // both words hostile
            set_word_low(&mut p, 96, rng.range(128, plen + 8));
            let at = rng.below(plen.saturating_sub(32).max(1)) as usize;
            set_word_low(&mut p, at, rng.next_u64() >> rng.range(0, 63));
            "mutated:offset_and_length"
        }
    };
    (p, origin)
}

fn snap_compress(data: &[u8]) -> Vec<u8> {
    snap::raw::Encoder::new().compress_vec(data).unwrap_or_default()
}

fn varint(mut v: u64) -> Vec<u8> {
    let mut out = vec![];
    loop {
        let b = (v & 0x7F) as u8;
        v >>= 7;
        if v == 0 {
            out.push(b);
            return out;
        }
        out.push(b | 0x80);
    }
}

fn header_len(c: &[u8]) -> usize {
    c.iter().position(|b| b & 0x80 == 0).map(|i| i + 1).unwrap_or(c.len())
}

pub fn mutate_compressed(rng: &mut Rng, c: &mut Vec<u8>, big_ok: bool) -> &'static str {
    match rng.below(9) {
        0..=2 => "built",
        3 => {
            let n = c.len();
            c.truncate(rng.below(n as u64 + 1) as usize);
            "mutated:truncated"
        }
        4 => {
            let n = c.len().max(1);
            for _ in 0..rng.range(1, 4) {
                let i = rng.below(n as u64) as usize;
                if i < c.len() {
                    c[i] ^= 1 << rng.below(8);
                }
            }
            "mutated:bitflips"
        }
        5 => {
            // rewrite the declared uncompressed length
            let h = header_len(c);
            let true_len = snap_declared_len(c).unwrap_or(0);
            let v = match rng.below(9) {
                0 => 0,
                1 => true_len + 1,
                2 => true_len.saturating_sub(1),
                3 => 127,
                4 => 128,
                5 if big_ok => u32::MAX as u64,
                6 if big_ok => 1 << 31,
                7 => (1u64 << 32) + rng.range(0, 3),
                _ => rng.range(0, 4096),
            };
            let mut out = varint(v);
            out.extend_from_slice(&c[h..]);
            *c = out;
            "mutated:declared_length"
        }
        6 => {
            let n = rng.range(1, 40) as usize;
            let e = rng.bytes(n);
            c.extend_from_slice(&e);
            "mutated:extended"
        }
        7 => {
            // splice random element bytes into the body
            let h = header_len(c);
            let at = h + rng.below((c.len() - h) as u64 + 1) as usize;
            let n = rng.range(1, 12) as usize;
            let e = rng.bytes(n);
            let tail = c.split_off(at.min(c.len()));
            c.extend_from_slice(&e);
            c.extend_from_slice(&tail);
            "mutated:spliced"
        }
        _ => {
            // over-long varint header
            let mut out = vec![0xFFu8; rng.range(1, 11) as usize];
            out.push(rng.range(0, 127) as u8);
            let h = header_len(c);
            out.extend_from_slice(&c[h..]);
            *c = out;
            "mutated:overlong_header"
        }
    }
}

/// One generated case family per call.
pub fn random_case(m: &mut Monitor, rng: &mut Rng, big_ok: bool) {
    match rng.below(20) {
        0 => {
            // pure random bytes into all three entry points
            let n = match rng.below(4) {
                0 => rng.range(0, 40),
                1 => rng.range(120, 136),
                _ => rng.range(0, 700),
            } as usize;
            let mut bytes = rng.bytes(n);
            if n >= 2 && rng.bool() {
                bytes[0] = 0;
                bytes[1] = *rng.pick(&[2u8, 3, 7, 8, 11]);
            }
            m.count("input_random_bytes");
            if let Some(r) = check_decode(m, &bytes, "random") {
                check_convert(m, &r, &bytes);
            }
            check_full(m, &bytes, "random");
            check_compressed(m, &bytes, "random", big_ok);
        }
        1..=8 => {
            // report blobs: decode + conversion
            let f = gen_fields(rng);
            let mut blob = encode_fields(&f);
            let origin = mutate_blob(rng, &mut blob);
            m.count(&format!("input_blob_{origin}"));
            if let Some(r) = check_decode(m, &blob, origin) {
                check_convert(m, &r, &blob);
            }
        }
        9..=14 => {
            // full-report payloads
            let f = gen_fields(rng);
            let mut blob = encode_fields(&f);
            if rng.chance(1, 5) {
                mutate_blob(rng, &mut blob);
            }
            if rng.chance(1, 12) {
                blob.truncate(rng.below(blob.len() as u64 + 1) as usize);
            }
            let (payload, origin) = build_payload(rng, &blob);
            m.count(&format!("input_payload_{origin}"));
            if let Some((s, e)) = check_full(m, &payload, origin) {
                if let Some(r) = check_decode(m, &payload[s..e], "from_full_report") {
                    check_convert(m, &r, &payload[s..e]);
                }
            }
        }
        _ => {
            // compressed full reports
            let f = gen_fields(rng);
            let mut blob = encode_fields(&f);
            if rng.chance(1, 6) {
                mutate_blob(rng, &mut blob);
            }
            let (payload, o1) = build_payload(rng, &blob);
            let mut c = snap_compress(&payload);
            let o2 = mutate_compressed(rng, &mut c, big_ok);
            let origin = if o2 == "built" && o1 == "built" { "built" } else if o2 == "built" { "built:payload_mutated" } else { o2 };
            m.count(&format!("input_compressed_{origin}"));
            check_compressed(m, &c, origin, big_ok);
        }
    }
}

/// The two real payload samples from the repository's tests (harness sanity + seeds for mutation).
pub const SAMPLE_V3: &[&str] = &[
    "0006f3dad14cf5df26779bd7b940cd6a9b50ee226256194abbb7643655035d6f",
    "0000000000000000000000000000000000000000000000000000000037a8ac19",
    "0000000000000000000000000000000000000000000000000000000000000000",
    "00000000000000000000000000000000000000000000000000000000000000e0",
    "0000000000000000000000000000000000000000000000000000000000000220",
    "0000000000000000000000000000000000000000000000000000000000000280",
    "0101000000000000000000000000000000000000000000000000000000000000",
    "0000000000000000000000000000000000000000000000000000000000000120",
    "000305a183fedd7f783d99ac138950cff229149703d2a256d61227ad1e5e66ea",
    "000000000000000000000000000000000000000000000000000000006726f480",
    "000000000000000000000000000000000000000000000000000000006726f480",
    "0000000000000000000000000000000000000000000000000000251afa5b7860",
    "000000000000000000000000000000000000000000000000002063f8083c6714",
    "0000000000000000000000000000000000000000000000000000000067284600",
    "000000000000000000000000000000000000000000000000140f9559e8f303f4",
    "000000000000000000000000000000000000000000000000140ede2b99374374",
    "0000000000000000000000000000000000000000000000001410c8d592a7f800",
    "0000000000000000000000000000000000000000000000000000000000000002",
    "abc5fcd50a149ad258673b44c2d1737d175c134a29ab0e1091e1f591af564132",
    "737fedd8929a5e6ee155532f116946351e79c1ea3efdb3c88792f48c7cbb02ca",
    "0000000000000000000000000000000000000000000000000000000000000002",
    "7a478e131ba1474e6b53f2c626ec349f27d64606b1e783d7cb637568ad3b0f7c",
    "3ed29f3fd7de70dc2b08e010ab93448e7dd423047e0f224d7145e0489faa9f23",
];

pub fn unhex(words: &[&str]) -> Vec<u8> {
    let s: String = words.concat();
    (0..s.len() / 2).map(|i| u8::from_str_radix(&s[2 * i..2 * i + 2], 16).unwrap()).collect()
}

/// Mutations seeded from the real sample: every single-word edit of the head and the length word.
pub fn sample_based(m: &mut Monitor, rng: &mut Rng) {
    let base = unhex(SAMPLE_V3);
    if let Some((s, e)) = check_full(m, &base, "built") {
        if let Some(r) = check_decode(m, &base[s..e], "built") {
            check_convert(m, &r, &base[s..e]);
            m.count("real_sample_decoded");
        }
    }
    let c = snap_compress(&base);
    check_compressed(m, &c, "built", false);
    for _ in 0..200 {
        let mut p = base.clone();
        let at = *rng.pick(&[96usize, 0xe0]);
        match rng.below(4) {
            0 => p[at + rng.range(0, 23) as usize] = rng.range(1, 255) as u8,
            1 => p[at + 24..at + 32].copy_from_slice(&rng.next_u64().to_be_bytes()),
            2 => p[at + 24..at + 32].copy_from_slice(&rng.range(0, 900).to_be_bytes()),
            _ => {
                let cut = rng.below(p.len() as u64) as usize;
                p.truncate(cut);
            }
        }
        check_full(m, &p, "mutated:real_sample");
        let mut c = snap_compress(&p);
        if rng.bool() {
            mutate_compressed(rng, &mut c, false);
        }
        check_compressed(m, &c, "mutated:real_sample", false);
    }
}

pub fn run(args: &Args) -> i32 {
    let mut mon = Monitor::new(
        args,
        "inputs: (a) uniformly random byte strings, (b) report blobs built by an independent ABI encoder for \
         schema versions 2/3/7/8/11 (and unsupported ones) with boundary field values (int192 limits, negative, \
         crossed bid/ask, scaling boundaries 2^128*10^i, timestamps around the 1 s / u32 limits) then truncated / \
         extended / bit-flipped / given non-canonical words / re-versioned, (c) full-report payloads built around \
         such blobs with hostile offset and length words (boundaries, overflow values, upper 24 bytes set, exact \
         fit, truncation), (d) snappy-compressed payloads with mutated streams and declared lengths, (e) mutations \
         of the real sample payload from the repository tests. non-trivial = a structure-aware input that was \
         either accepted and passed the independent ABI/field/scale comparison, or rejected at a bounds/validity \
         check; distinct = distinct input byte strings (per entry point)",
    );
    let n_shards = 64u64;
    let per_shard = args.scale(160_000, 4_000_000);
    vcommon::monitor::run_shards(&mut mon, args.threads, n_shards, |shard, m| {
        let mut rng = Rng::derive(args.seed, shard, 28);
        if shard < 8 {
            sample_based(m, &mut rng);
        }
        for i in 0..per_shard {
            // streams that declare > 4 MiB of output are exercised in 1/64 of the cases (they allocate that much)
            random_case(m, &mut rng, i % 64 == 0);
        }
    });
    for (k, n) in [
        ("real_sample_decoded", 1),
        ("full_ok", 1_000),
        ("full_err_out_of_range", 1_000),
        ("full_err_head_too_short", 100),
        ("full_ok_blob_ends_at_payload_end", 50),
        ("decode_ok", 1_000),
        ("decode_ok_v2", 50),
        ("decode_ok_v3", 50),
        ("decode_ok_v7", 50),
        ("decode_ok_v8", 50),
        ("decode_ok_v11", 50),
        ("decode_err_truncated", 100),
        ("decode_err_unsupported_version", 100),
        ("decode_err_bad_market_status", 50),
        ("compressed_ok", 500),
        ("compressed_err_snap", 500),
        ("convert_ok", 1_000),
        ("convert_ok_scaled_down", 50),
        ("convert_ok_distinct_bid_ask", 100),
        ("convert_rejected_negative", 100),
        ("convert_rejected_misordered", 100),
    ] {
        mon.require(k, n);
    }
    mon.assume("ABI reading: word 3 of the payload is the 256-bit offset of a `bytes` value (32-byte length word followed by the data); no padding/canonicity requirement beyond that");
    mon.assume("field comparison after `decode` only for words that are canonical for their Solidity type (others counted as noncanonical_words_skipped)");
    mon.assume("snappy streams declaring more than 4 MiB of output are only run in 1/64 of the cases and one at a time (the decoder allocates and zeroes the declared size up front); the others are counted as snap_declared_len_above_4MiB_not_run");
    crate::miri::attach(args, &mut mon);
    mon.finish()
}

#[cfg(test)]
mod tests {
    use super::*;

    /// Miri shard: snappy decompression + ABI slicing + decode + conversion on a small mixed workload.
    #[test]
    fn miri_c28_decode_paths() {
        let seed = crate::util::miri_seed();
        let mut m = crate::util::test_monitor("C28", seed);
        let mut rng = Rng::derive(seed, 0, 2800);
        let base = unhex(SAMPLE_V3);
        let c = snap_compress(&base);
        check_compressed(&mut m, &c, "built", false);
        for _ in 0..crate::util::miri_cases(60) {
            random_case(&mut m, &mut rng, false);
        }
        // known findings of the native monitor are not Miri findings: only UB matters here
        let _ = m.has_violations();
    }
}
