//! C27 — market openness follows the per-feed status policy and freshness.
//!
//! Code under test: `PriceFeedPrice::is_market_open`, `MarketStatus::openness`,
//! `PriceFeedPrice::last_update_diff_secs`.
//!
//! Oracle (exact, `i128`, in nanoseconds): open ⇔
//!   status not closed under the policy flags (Disabled ⇒ no opinion; Unknown/Pre/Post/Overnight/Closed
//!   open only with their `Allow*` bit; RegularHours open unless `HaltRegularHours`)
//!   ∧ price carries the `Open` flag
//!   ∧ (tracking disabled ∨ (now − ts ≤ timeout ∧ now·10⁹ − (ts·10⁹ − diff_ns) ≤ timeout·10⁹))
//! where `diff_ns` is `last_update_diff` (nanoseconds unit) or `last_update_diff·10⁹` (seconds unit).
//!
//! Stored prices are built from raw bytes (the type is `Pod`; layout asserted against the public
//! constructor/setters first), so that invalid status bytes and unknown flag bits are reachable too.
use gmsol_utils::price::{
    MarketOpenness, MarketStatus, MarketStatusFlagContainer, PriceFeedPrice, PriceFlag,
};
use vcommon::monitor::guard;
use vcommon::{json, Args, Monitor, Rng};

const NS: i128 = 1_000_000_000;

#[derive(Clone, Copy, Debug)]
pub struct Case {
    pub status: u8,
    pub policy: u8,
    pub pflags: u8,
    pub diff: u32,
    pub ts: i64,
    pub now: i64,
    pub timeout: u32,
}

impl Case {
    fn json(&self) -> vcommon::serde_json::Value {
        json!({"status_byte": self.status, "policy_flags": self.policy, "price_flags": self.pflags,
               "last_update_diff": self.diff, "ts": self.ts.to_string(), "current_timestamp": self.now.to_string(),
               "market_close_timeout": self.timeout})
    }
}

pub fn build(c: &Case) -> PriceFeedPrice {
    let mut bytes = [0u8; 64];
    bytes[0] = 18; // decimals
    bytes[1] = c.pflags;
    bytes[2] = c.status;
    bytes[4..8].copy_from_slice(&c.diff.to_le_bytes());
    bytes[8..16].copy_from_slice(&c.ts.to_le_bytes());
    bytes[16..32].copy_from_slice(&1u128.to_le_bytes());
    bytes[32..48].copy_from_slice(&1u128.to_le_bytes());
    bytes[48..64].copy_from_slice(&1u128.to_le_bytes());
    bytemuck::pod_read_unaligned(&bytes)
}

/// Layout self-check of the byte builder against the public constructor (harness assumption).
pub fn layout_ok() -> bool {
    if std::mem::size_of::<PriceFeedPrice>() != 64 {
        return false;
    }
    let statuses = [
        MarketStatus::Disabled,
        MarketStatus::Unknown,
        MarketStatus::PreMarket,
        MarketStatus::RegularHours,
        MarketStatus::PostMarket,
        MarketStatus::Overnight,
        MarketStatus::Closed,
    ];
    for (i, st) in statuses.iter().enumerate() {
        for pf in 0u8..8 {
            let mut p = PriceFeedPrice::new(18, -77 - i as i64, 1, 1, 1, 0xA1B2_C3D4);
            p.set_flag(PriceFlag::Open, pf & 1 != 0);
            p.set_flag(PriceFlag::LastUpdateDiffEnabled, pf & 2 != 0);
            p.set_flag(PriceFlag::LastUpdateDiffSecs, pf & 4 != 0);
            p.set_market_status(*st);
            let c = Case {
                status: i as u8,
                policy: 0,
                pflags: pf,
                diff: 0xA1B2_C3D4,
                ts: -77 - i as i64,
                now: 0,
                timeout: 0,
            };
            if bytemuck::bytes_of(&p) != bytemuck::bytes_of(&build(&c)) {
                return false;
            }
        }
    }
    true
}

/// `None` = no opinion (Disabled / invalid byte), `Some(open)`.
pub fn oracle_status(status: u8, policy: u8) -> Option<bool> {
    let bit = |i: u8| policy & (1 << i) != 0;
    match status {
        1 => Some(bit(0)),  // Unknown       : AllowUnknown
        2 => Some(bit(1)),  // PreMarket     : AllowPreMarket
        3 => Some(!bit(2)), // RegularHours  : !HaltRegularHours
        4 => Some(bit(3)),  // PostMarket    : AllowPostMarket
        5 => Some(bit(4)),  // Overnight     : AllowOvernight
        6 => Some(bit(5)),  // Closed        : AllowClosed
        _ => None,          // Disabled (0) and invalid stored bytes (documented to map to Disabled)
    }
}

pub fn oracle_open(c: &Case) -> (bool, &'static str) {
    if oracle_status(c.status, c.policy) == Some(false) {
        return (false, "status_closed");
    }
    if c.pflags & 1 == 0 {
        return (false, "not_open_flag");
    }
    if c.pflags & 2 == 0 {
        return (true, "untracked_open");
    }
    let diff_ns: i128 = if c.pflags & 4 != 0 {
        c.diff as i128 * NS
    } else {
        c.diff as i128
    };
    let report_age = c.now as i128 - c.ts as i128; // seconds
    if report_age > c.timeout as i128 {
        return (false, "report_stale");
    }
    // age of the underlying last update in ns: now*1e9 - (ts*1e9 - diff_ns)
    let update_age_ns = report_age * NS + diff_ns;
    if update_age_ns > c.timeout as i128 * NS {
        return (false, "last_update_stale");
    }
    (true, "fresh_open")
}

pub fn check(m: &mut Monitor, c: &Case) {
    m.eval();
    let p = build(c);
    let policy = MarketStatusFlagContainer::from_value(c.policy);
    let (exp, class) = oracle_open(c);
    match guard(|| p.is_market_open(c.now, c.timeout, policy)) {
        Err(msg) => {
            m.count("panics");
            let mut w = c.json();
            w["panic"] = json!(msg);
            m.violation("C27:is_market_open:panic", w);
        }
        Ok(got) => {
            if got != exp {
                let mut w = c.json();
                w["got"] = json!(got);
                w["expected"] = json!(exp);
                w["oracle_class"] = json!(class);
                m.violation(
                    if got { "C27:is_market_open:open_but_should_be_closed" } else { "C27:is_market_open:closed_but_should_be_open" },
                    w,
                );
                return;
            }
            m.count(&format!("class_{class}"));
            let tracked = c.pflags & 2 != 0;
            if tracked {
                m.count(if c.pflags & 4 != 0 { "unit_seconds" } else { "unit_nanoseconds" });
            }
            // saturation classes of the documented i64 arithmetic
            let d = c.now as i128 - c.ts as i128;
            if d > i64::MAX as i128 {
                m.count("limit_now_minus_ts_above_i64");
            } else if d < i64::MIN as i128 {
                m.count("limit_now_minus_ts_below_i64");
            }
            if c.status > 6 {
                m.count("invalid_status_byte");
            }
            if matches!(class, "report_stale" | "last_update_stale" | "fresh_open") {
                // freshness decided: the non-trivial class
                let mut sig = Vec::with_capacity(32);
                sig.extend_from_slice(&[c.status, c.policy, c.pflags]);
                sig.extend_from_slice(&c.diff.to_le_bytes());
                sig.extend_from_slice(&c.ts.to_le_bytes());
                sig.extend_from_slice(&c.now.to_le_bytes());
                sig.extend_from_slice(&c.timeout.to_le_bytes());
                crate::util::nontrivial_capped(m, &sig);
                // exactly-at-threshold classes
                let diff_ns: i128 = if c.pflags & 4 != 0 { c.diff as i128 * NS } else { c.diff as i128 };
                let margin = c.timeout as i128 * NS - (d * NS + diff_ns);
                if margin == 0 {
                    m.count("threshold_exact");
                } else if margin > 0 && margin <= NS {
                    m.count("threshold_within_1s_fresh");
                } else if margin < 0 && margin >= -NS {
                    m.count("threshold_within_1s_stale");
                }
                if m.wants_sample() && margin.abs() <= NS && m.counter("sampled_threshold_cases") < 4 {
                    m.count("sampled_threshold_cases");
                    let mut w = c.json();
                    w["open"] = json!(got);
                    w["class"] = json!(class);
                    m.sample(w);
                }
            }
        }
    }
}

/// `MarketStatus::openness` and the accessors against the table.
pub fn check_status_table(m: &mut Monitor) {
    let statuses = [
        MarketStatus::Disabled,
        MarketStatus::Unknown,
        MarketStatus::PreMarket,
        MarketStatus::RegularHours,
        MarketStatus::PostMarket,
        MarketStatus::Overnight,
        MarketStatus::Closed,
    ];
    for (i, st) in statuses.iter().enumerate() {
        for policy in 0u16..=255 {
            m.eval();
            let f = MarketStatusFlagContainer::from_value(policy as u8);
            let got = match guard(|| st.openness(f)) {
                Ok(o) => o,
                Err(msg) => {
                    m.violation("C27:openness:panic", json!({"status": i, "policy_flags": policy, "panic": msg}));
                    continue;
                }
            };
            let exp = match oracle_status(i as u8, policy as u8) {
                None => MarketOpenness::Skip,
                Some(true) => MarketOpenness::Open,
                Some(false) => MarketOpenness::Closed,
            };
            if got != exp {
                m.violation(
                    "C27:openness:wrong_resolution",
                    json!({"status": i, "policy_flags": policy, "got": format!("{got:?}"), "expected": format!("{exp:?}")}),
                );
            } else {
                m.count("status_table_cells");
            }
        }
    }
    // stored status byte read-back (invalid ⇒ Disabled)
    for sb in 0u16..=255 {
        let c = Case { status: sb as u8, policy: 0, pflags: 0, diff: 0, ts: 0, now: 0, timeout: 0 };
        let p = build(&c);
        let exp = if sb <= 6 { statuses[sb as usize] } else { MarketStatus::Disabled };
        m.eval();
        if p.market_status() != exp {
            m.violation("C27:market_status:wrong_readback", json!({"status_byte": sb}));
        }
    }
}

/// `last_update_diff_secs`: ceil of the nanosecond value / identity for seconds / None if untracked.
pub fn check_diff_secs(m: &mut Monitor, pflags: u8, diff: u32) {
    m.eval();
    let c = Case { status: 0, policy: 0, pflags, diff, ts: 0, now: 0, timeout: 0 };
    let p = build(&c);
    let exp = if pflags & 2 == 0 {
        None
    } else if pflags & 4 != 0 {
        Some(diff)
    } else {
        Some(((diff as i128 + NS - 1) / NS) as u32)
    };
    match guard(|| p.last_update_diff_secs()) {
        Err(msg) => m.violation("C27:last_update_diff_secs:panic", json!({"price_flags": pflags, "last_update_diff": diff, "panic": msg})),
        Ok(got) => {
            if got != exp {
                m.violation(
                    "C27:last_update_diff_secs:wrong_value",
                    json!({"price_flags": pflags, "last_update_diff": diff, "got": got, "expected": exp}),
                );
            }
        }
    }
}

// ---------------------------------------------------------------------------------------------

fn gen_i64(rng: &mut Rng) -> i64 {
    match rng.below(8) {
        0 => *rng.pick(&[i64::MIN, i64::MIN + 1, i64::MAX, i64::MAX - 1, 0, -1, 1]),
        1 => i64::MIN.wrapping_add(rng.log_u64(u64::MAX >> 1) as i64),
        2 => i64::MAX.wrapping_sub(rng.log_u64(u64::MAX >> 1) as i64),
        3 => rng.next_u64() as i64,
        4 => rng.range_i64(1_600_000_000, 1_900_000_000),
        5 => {
            let x = rng.log_u64(u32::MAX as u64 * 4) as i64;
            if rng.bool() { x } else { -x }
        }
        _ => rng.biased_i64(1_000_000_000),
    }
}

fn gen_u32(rng: &mut Rng) -> u32 {
    match rng.below(8) {
        0 => *rng.pick(&[0u32, 1, 2, u32::MAX, u32::MAX - 1, 999_999_999, 1_000_000_000, 1_000_000_001, 4_000_000_000, 4_294_967_295]),
        1 => {
            let k = rng.range(0, 4) as u32;
            (k * 1_000_000_000).wrapping_add(rng.range(0, 2) as u32).wrapping_sub(rng.range(0, 2) as u32)
        }
        2 => rng.next_u64() as u32,
        3 => rng.range(0, 100_000) as u32,
        _ => rng.biased_u64(u32::MAX as u64, 1_000_000_000) as u32,
    }
}

pub fn random_case(m: &mut Monitor, rng: &mut Rng) {
    let status = match rng.below(10) {
        0 => rng.range(7, 255) as u8,
        _ => rng.range(0, 6) as u8,
    };
    let policy = match rng.below(4) {
        0 => 0,
        1 => 1u8 << rng.range(0, 7),
        _ => rng.next_u64() as u8,
    };
    // bias towards Open + tracking enabled; unknown high bits sometimes set
    let mut pflags = match rng.below(10) {
        0 => rng.next_u64() as u8 & 7,
        1 => 1,
        2..=5 => 3,
        _ => 7,
    };
    if rng.chance(1, 8) {
        pflags |= (rng.next_u64() as u8) & 0xF8;
    }
    let diff = gen_u32(rng);
    let timeout = gen_u32(rng);
    let ts = gen_i64(rng);
    let now = match rng.below(10) {
        0..=5 => {
            // aimed at the freshness threshold: now = ts + timeout - diff_secs + {-2..2}
            let diff_s: i128 = if pflags & 4 != 0 { diff as i128 } else { (diff as i128 + NS - 1) / NS };
            let sub = if rng.chance(3, 4) { diff_s } else { 0 };
            let t = ts as i128 + timeout as i128 - sub + rng.range_i64(-2, 2) as i128;
            t.clamp(i64::MIN as i128, i64::MAX as i128) as i64
        }
        6 => (ts as i128 + rng.range_i64(-5, 5) as i128).clamp(i64::MIN as i128, i64::MAX as i128) as i64,
        _ => gen_i64(rng),
    };
    let c = Case { status, policy, pflags, diff, ts, now, timeout };
    check(m, &c);
    if rng.chance(1, 16) {
        check_diff_secs(m, pflags, diff);
    }
}

/// Deterministic product: statuses × all policy bytes × price flag sets × a grid of extreme times.
pub fn sweep(m: &mut Monitor, part: u64, parts: u64) {
    let times: [(i64, i64); 12] = [
        (0, 0),
        (i64::MAX, i64::MIN),
        (i64::MIN, i64::MAX),
        (i64::MAX, i64::MAX),
        (i64::MIN, i64::MIN),
        (i64::MAX, 0),
        (i64::MIN, 0),
        (0, i64::MAX),
        (0, i64::MIN),
        (-1, i64::MAX),
        (i64::MAX - 10, i64::MAX),
        (i64::MIN + 10, i64::MIN),
    ];
    let diffs = [0u32, 1, 999_999_999, 1_000_000_000, 1_000_000_001, u32::MAX];
    let timeouts = [0u32, 1, 4, 5, u32::MAX - 1, u32::MAX];
    let mut idx = 0u64;
    for status in 0u8..=7 {
        for policy in 0u16..=255 {
            idx += 1;
            if idx % parts != part {
                continue;
            }
            for pflags in 0u8..8 {
                for (now, ts) in times {
                    for diff in diffs {
                        for timeout in timeouts {
                            check(m, &Case { status, policy: policy as u8, pflags, diff, ts, now, timeout });
                        }
                    }
                }
            }
        }
    }
}

pub fn run(args: &Args) -> i32 {
    let mut mon = Monitor::new(
        args,
        "inputs: (status byte incl. invalid, policy flag byte 0..=255, price flag byte, last_update_diff u32, \
         ts i64, current i64, timeout u32): deterministic product of statuses x all policy bytes x flag sets x \
         extreme timestamp pairs (i64::MIN/MAX combinations) x boundary diffs/timeouts, plus seeded random cases \
         aimed at the freshness threshold (+-2 s / +-1 ns unit) and at the 64-bit limits, both diff units. \
         non-trivial = status not closed, Open flag set and tracking enabled, so that freshness decides; \
         distinct = distinct full input tuples",
    );
    if !layout_ok() {
        mon.inconclusive("byte layout of PriceFeedPrice differs from what the case builder assumes");
        return mon.finish();
    }
    let n_shards = 64u64;
    let per_shard = args.scale(3_000_000, 100_000_000);
    let sweep_parts = if args.is_thorough() { 64 } else { 64 * 8 };
    vcommon::monitor::run_shards(&mut mon, args.threads, n_shards, |shard, m| {
        if shard == 0 {
            check_status_table(m);
            for pf in 0u8..8 {
                for d in [0u32, 1, 999_999_999, 1_000_000_000, 1_000_000_001, 3_999_999_999, 4_000_000_000, 4_000_000_001, u32::MAX] {
                    check_diff_secs(m, pf, d);
                }
            }
        }
        // quick: an eighth of the product (rotating with the seed); thorough: all of it
        let part = if args.is_thorough() { shard } else { shard * 8 + (args.seed % 8) };
        sweep(m, part, sweep_parts);
        let mut rng = Rng::derive(args.seed, shard, 27);
        for _ in 0..per_shard {
            random_case(m, &mut rng);
        }
    });
    mon.require("status_table_cells", 7 * 256);
    for k in [
        "class_status_closed",
        "class_not_open_flag",
        "class_untracked_open",
        "class_report_stale",
        "class_last_update_stale",
        "class_fresh_open",
        "unit_seconds",
        "unit_nanoseconds",
        "limit_now_minus_ts_above_i64",
        "limit_now_minus_ts_below_i64",
        "threshold_exact",
        "threshold_within_1s_fresh",
        "threshold_within_1s_stale",
        "invalid_status_byte",
    ] {
        mon.require(k, 100);
    }
    mon.assume("an invalid stored status byte means 'no status' (documented: maps to Disabled); unknown flag bits carry no meaning");
    mon.assume("'no older than the close timeout' is evaluated in nanoseconds: now*1e9 - (ts*1e9 - diff_ns) <= timeout*1e9");
    crate::miri::attach(args, &mut mon);
    mon.finish()
}

#[cfg(test)]
mod tests {
    use super::*;

    #[test]
    fn miri_c27_openness() {
        assert!(layout_ok());
        let seed = crate::util::miri_seed();
        let mut m = crate::util::test_monitor("C27", seed);
        let mut rng = Rng::derive(seed, 0, 2700);
        for _ in 0..crate::util::miri_cases(300) {
            random_case(&mut m, &mut rng);
        }
        check(&mut m, &Case { status: 3, policy: 0, pflags: 7, diff: u32::MAX, ts: i64::MIN, now: i64::MAX, timeout: u32::MAX });
        check(&mut m, &Case { status: 3, policy: 0, pflags: 3, diff: u32::MAX, ts: i64::MAX, now: i64::MIN, timeout: 0 });
        assert!(!m.has_violations(), "{m:?}");
    }
}
