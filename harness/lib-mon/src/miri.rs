//! Miri shard integration.
//!
//! `--miri <summary.json>` (or env `LIBMON_MIRI=<summary.json>`): fold the result of
//! `/verif/harness/miri.sh <ID> <summary.json>` into the evidence of the property.
//! `--miri run` (or `LIBMON_MIRI=run`): start `miri.sh <ID> $VERIF_DIR/logs/miri-<ID>.json` at the
//! beginning of the run (in parallel with the native workload), wait for it at the end, then fold.
//!
//! * `ub_reports > 0`            ⇒ violation `<ID>:miri:ub` (witness = the summary incl. the log tail);
//! * shard could not build / timed out / tests failed without a UB report / summary unreadable
//!   ⇒ the *Miri part* is inconclusive: noted in the evidence (`miri.status`), the run itself is not
//!   failed and not made inconclusive;
//! * otherwise `miri.status = "clean"`.
use std::path::PathBuf;
use std::process::{Child, Command, Stdio};
use std::sync::Mutex;
use vcommon::serde_json::Value;
use vcommon::{json, Args, Monitor};

static JOB: Mutex<Option<(Child, PathBuf)>> = Mutex::new(None);

fn request(args: &Args) -> Option<String> {
    args.extra
        .get("miri")
        .cloned()
        .or_else(|| std::env::var("LIBMON_MIRI").ok())
        .filter(|s| !s.is_empty())
}

/// Called once before the native workload: starts the shard when asked to (`run`).
pub fn start(args: &Args) {
    if request(args).as_deref() != Some("run") {
        return;
    }
    if !matches!(args.id.as_str(), "C26" | "C27" | "C28" | "C34") {
        return;
    }
    let mut script = args.verif_dir.join("harness").join("miri.sh");
    if !script.exists() {
        script = PathBuf::from("/verif/harness/miri.sh");
    }
    let logs = args.verif_dir.join("logs");
    let _ = std::fs::create_dir_all(&logs);
    let out = logs.join(format!("miri-{}.json", args.id));
    let _ = std::fs::remove_file(&out);
    match Command::new(&script)
        .arg(&args.id)
        .arg(&out)
        .env("VERIF_SEED", args.seed.to_string())
        .stdin(Stdio::null())
        .stdout(Stdio::null())
        .stderr(Stdio::null())
        .spawn()
    {
        Ok(child) => *JOB.lock().unwrap() = Some((child, out)),
        Err(e) => eprintln!("[{}] cannot start {}: {e} (Miri part inconclusive)", args.id, script.display()),
    }
}

pub fn attach(args: &Args, mon: &mut Monitor) {
    let Some(req) = request(args) else {
        return;
    };
    let path: String = if req == "run" {
        match JOB.lock().unwrap().take() {
            Some((mut child, out)) => {
                let _ = child.wait();
                out.display().to_string()
            }
            None => {
                mon.set_extra("miri", json!({"status": "inconclusive", "reason": "Miri shard was not started (no shard for this property, or miri.sh missing)"}));
                return;
            }
        }
    } else {
        req
    };
    let text = match std::fs::read_to_string(&path) {
        Ok(t) => t,
        Err(e) => {
            mon.set_extra(
                "miri",
                json!({"status": "inconclusive", "reason": format!("cannot read {path}: {e}")}),
            );
            return;
        }
    };
    let mut v: Value = match vcommon::serde_json::from_str(&text) {
        Ok(v) => v,
        Err(e) => {
            mon.set_extra(
                "miri",
                json!({"status": "inconclusive", "reason": format!("cannot parse {path}: {e}")}),
            );
            return;
        }
    };
    let ran = v.get("ran").and_then(|x| x.as_bool()).unwrap_or(false);
    let ub = v.get("ub_reports").and_then(|x| x.as_u64()).unwrap_or(0);
    let tests = v.get("tests").and_then(|x| x.as_u64()).unwrap_or(0);
    let failed = v.get("failed").and_then(|x| x.as_u64()).unwrap_or(0);
    let timed_out = v.get("timed_out").and_then(|x| x.as_u64()).unwrap_or(0);
    let status = if ub > 0 {
        "undefined behaviour reported"
    } else if !ran || tests == 0 {
        "inconclusive"
    } else if failed > 0 || timed_out > 0 {
        "inconclusive (some shard processes failed or timed out without a UB report)"
    } else {
        "clean"
    };
    if let Some(o) = v.as_object_mut() {
        o.insert("status".into(), json!(status));
    }
    if ub > 0 {
        mon.violation(&format!("{}:miri:ub", args.id), v.clone());
    }
    mon.add("miri_tests", tests);
    mon.add("miri_ub_reports", ub);
    mon.set_extra("miri", v);
}
