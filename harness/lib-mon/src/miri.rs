//! `--miri <summary.json>`: fold the result of `/verif/harness/miri.sh <ID> <summary.json>` into the
//! evidence of the property.
//!
//! * `ub_reports > 0`            ⇒ violation `<ID>:miri:ub` (witness = the summary incl. the log tail);
//! * shard could not build / timed out / tests failed without a UB report / summary unreadable
//!   ⇒ the *Miri part* is inconclusive: noted in the evidence (`miri.status`), the run itself is not
//!   failed and not made inconclusive;
//! * otherwise `miri.status = "clean"`.
use vcommon::serde_json::Value;
use vcommon::{json, Args, Monitor};

pub fn attach(args: &Args, mon: &mut Monitor) {
    let Some(path) = args.extra.get("miri") else {
        return;
    };
    let text = match std::fs::read_to_string(path) {
        Ok(t) => t,
        Err(e) => {
            mon.set_extra(
                "miri",
                json!({"status": "inconclusive", "reason": format!("cannot read {path}: {e}")}),
            );
            return;
        }
    };
    let mut v: Value = match vcommon::serde_json::from_str(&text) {
        Ok(v) => v,
        Err(e) => {
            mon.set_extra(
                "miri",
                json!({"status": "inconclusive", "reason": format!("cannot parse {path}: {e}")}),
            );
            return;
        }
    };
    let ran = v.get("ran").and_then(|x| x.as_bool()).unwrap_or(false);
    let ub = v.get("ub_reports").and_then(|x| x.as_u64()).unwrap_or(0);
    let tests = v.get("tests").and_then(|x| x.as_u64()).unwrap_or(0);
    let failed = v.get("failed").and_then(|x| x.as_u64()).unwrap_or(0);
    let timed_out = v.get("timed_out").and_then(|x| x.as_u64()).unwrap_or(0);
    let status = if ub > 0 {
        "undefined behaviour reported"
    } else if !ran || tests == 0 {
        "inconclusive"
    } else if failed > 0 || timed_out > 0 {
        "inconclusive (some shard processes failed or timed out without a UB report)"
    } else {
        "clean"
    };
    if let Some(o) = v.as_object_mut() {
        o.insert("status".into(), json!(status));
    }
    if ub > 0 {
        mon.violation(&format!("{}:miri:ub", args.id), v.clone());
    }
    mon.add("miri_tests", tests);
    mon.add("miri_ub_reports", ub);
    mon.set_extra("miri", v);
}
