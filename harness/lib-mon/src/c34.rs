//! C34 — fixed-capacity maps behave like sorted maps until full.
//!
//! Code under test: the exported `gmsol_utils::fixed_map!` macro (instantiated *here*, so every method
//! executed is the repository's). One instantiation per capacity / key / value shape the programs use
//! (value structs re-declared with identical size and alignment, because the programs' own value
//! types are private to heavy program crates), plus the two shapes of the crate's own tests and tiny
//! capacities 1, 2, 3 that make "full" frequent.
//!
//! Oracle: `BTreeMap<key bytes, value>`; every operation's result, `len`, `is_empty`, sorted
//! `entries()`, `get_entry_by_index`; failing / read-only operations leave `bytemuck::bytes_of(map)`
//! unchanged; inserting a new key into a full map fails; any panic ⇒ violation.
#![allow(unexpected_cfgs)]
use anchor_lang::prelude::Pubkey;
use std::collections::BTreeMap;
use vcommon::monitor::guard;
use vcommon::{json, Args, Monitor, Rng};

use crate::util::hex;

// ---------------------------------------------------------------------------------------------
// value shapes (same size / alignment as the programs' value types)

/// like `SmallPrices` (store, PriceMap): 12 bytes, align 4
#[anchor_lang::zero_copy]
#[derive(PartialEq, Eq, Default, Debug)]
pub struct V12 {
    a: u8,
    b: u8,
    pad: [u8; 2],
    min: u32,
    max: u32,
}

/// like `GlvMarketConfig` (store, GlvMarkets): 48 bytes, align 16
#[anchor_lang::zero_copy]
#[derive(PartialEq, Eq, Default, Debug)]
pub struct V48 {
    max_amount: u64,
    flags: u8,
    pad0: [u8; 7],
    max_value: u128,
    balance: u64,
    pad1: [u8; 8],
}

/// like `RoleMetadata` (store, RoleMap): 34 bytes, align 1
#[anchor_lang::zero_copy]
#[derive(PartialEq, Eq, Default, Debug)]
pub struct V34 {
    name: [u8; 32],
    enabled: u8,
    index: u8,
}

/// like treasury `TokenConfig` (TokenMap): 65 bytes, align 1
#[anchor_lang::zero_copy]
#[derive(PartialEq, Eq, Debug)]
pub struct V65 {
    flags: u8,
    reserved: [u8; 64],
}
impl Default for V65 {
    fn default() -> Self {
        bytemuck::Zeroable::zeroed()
    }
}

/// like treasury `TokenBalance` (TokenBalances): 72 bytes, align 8
#[anchor_lang::zero_copy]
#[derive(PartialEq, Eq, Debug)]
pub struct V72 {
    amount: u64,
    out: u64,
    reserved: [u8; 56],
}
impl Default for V72 {
    fn default() -> Self {
        bytemuck::Zeroable::zeroed()
    }
}

pub trait GenVal: Copy + PartialEq + std::fmt::Debug + Default + bytemuck::Pod {
    fn gen(rng: &mut Rng) -> Self {
        // mostly random bytes, sometimes the default (all-zero) value: `remove` uses `mem::take`
        let mut v = Self::default();
        if !rng.chance(1, 10) {
            rng.fill(bytemuck::bytes_of_mut(&mut v));
        }
        v
    }
}
impl GenVal for u8 {}
impl GenVal for u32 {}
impl GenVal for u64 {}
impl GenVal for u128 {}
impl GenVal for V12 {}
impl GenVal for V34 {}
impl GenVal for V65 {}
impl GenVal for V72 {}
impl GenVal for V48 {}

// ---------------------------------------------------------------------------------------------
// key kinds

fn pk_to_bytes(k: &Pubkey) -> [u8; 32] {
    k.to_bytes()
}

type Pair = (u8, u8);
fn pair_to_key(k: &Pair) -> [u8; 2] {
    [k.0, k.1]
}

// ---------------------------------------------------------------------------------------------
// instantiations of the real macro

// shapes used by the programs
gmsol_utils::fixed_map!(TokensMap, Pubkey, pk_to_bytes, u8, 256, 0); // store: Tokens
gmsol_utils::fixed_map!(DisabledMap, 2, Pair, pair_to_key, u8, 64, 0); // store: DisabledMap
gmsol_utils::fixed_map!(PriceMap, Pubkey, pk_to_bytes, V12, 512, 0); // store: PriceMap
gmsol_utils::fixed_map!(GlvMarkets, Pubkey, pk_to_bytes, V48, 96, 12); // store: GlvMarkets
gmsol_utils::fixed_map!(RoleMap, V34, 32, 0); // store: RoleMap (str keys)
gmsol_utils::fixed_map!(Members, Pubkey, pk_to_bytes, u32, 64, 0); // store: Members
gmsol_utils::fixed_map!(TreasuryTokenMap, Pubkey, pk_to_bytes, V65, 16, 0); // treasury: TokenMap
gmsol_utils::fixed_map!(TokenBalances, Pubkey, pk_to_bytes, V72, 16, 4); // treasury: TokenBalances
// shapes of the crate's own tests
gmsol_utils::fixed_map!(FixedFactorMap, u128, 32, 12);
gmsol_utils::fixed_map!(RolesMapU64, Pubkey, pk_to_bytes, u64, 32, 4);
// tiny capacities
gmsol_utils::fixed_map!(Tiny1StrU128, u128, 1, 12);
gmsol_utils::fixed_map!(Tiny2PkU64, Pubkey, pk_to_bytes, u64, 2, 4);
gmsol_utils::fixed_map!(Tiny3PkV12, Pubkey, pk_to_bytes, V12, 3, 0);
gmsol_utils::fixed_map!(Tiny1PairU8, 2, Pair, pair_to_key, u8, 1, 1);
gmsol_utils::fixed_map!(Tiny2PairU8, 2, Pair, pair_to_key, u8, 2, 2);
gmsol_utils::fixed_map!(Tiny3PairU8, 2, Pair, pair_to_key, u8, 3, 3);
gmsol_utils::fixed_map!(Tiny2StrV34, V34, 2, 0);
gmsol_utils::fixed_map!(Tiny1PkU32, Pubkey, pk_to_bytes, u32, 1, 0);
gmsol_utils::fixed_map!(Tiny3PkV48, Pubkey, pk_to_bytes, V48, 3, 12);
gmsol_utils::fixed_map!(Tiny3PkU8, Pubkey, pk_to_bytes, u8, 3, 1);

// ---------------------------------------------------------------------------------------------
// uniform access to the generated inherent methods

#[derive(Debug, Clone, PartialEq, Eq)]
pub enum InsErr {
    AlreadyExist,
    ExceedMaxLengthLimit,
    Other(String),
}

fn ins_err(e: anchor_lang::error::Error) -> InsErr {
    match &e {
        anchor_lang::error::Error::AnchorError(a) => match a.error_name.as_str() {
            "AlreadyExist" => InsErr::AlreadyExist,
            "ExceedMaxLengthLimit" => InsErr::ExceedMaxLengthLimit,
            other => InsErr::Other(other.to_string()),
        },
        other => InsErr::Other(other.to_string()),
    }
}

pub trait Shape {
    type Map: bytemuck::Pod + Default;
    type Key: Clone + std::fmt::Debug;
    type Val: GenVal;
    const NAME: &'static str;
    const CAP: usize;
    /// i-th key of the universe
    fn key(i: usize) -> Self::Key;
    /// independent derivation of the stored key bytes
    fn key_bytes(k: &Self::Key) -> Vec<u8>;
    fn get(m: &Self::Map, k: &Self::Key) -> Option<Self::Val>;
    fn get_mut_set(m: &mut Self::Map, k: &Self::Key, v: Self::Val) -> Option<Self::Val>;
    fn insert(m: &mut Self::Map, k: &Self::Key, v: Self::Val) -> Option<Self::Val>;
    fn insert_opts(m: &mut Self::Map, k: &Self::Key, v: Self::Val, new: bool) -> Result<Option<Self::Val>, InsErr>;
    fn remove(m: &mut Self::Map, k: &Self::Key) -> Option<Self::Val>;
    fn len(m: &Self::Map) -> usize;
    fn is_empty(m: &Self::Map) -> bool;
    fn entries(m: &Self::Map) -> Vec<(Vec<u8>, Self::Val)>;
    fn entry_by_index(m: &Self::Map, i: usize) -> Option<(Vec<u8>, Self::Val)>;
    /// xor the first byte of every value through `entries_mut`, return the keys visited
    fn entries_mut_touch(m: &mut Self::Map) -> Vec<Vec<u8>>;
    fn clear(m: &mut Self::Map);
}

fn universe_pubkey(i: usize) -> Pubkey {
    match i {
        0 => Pubkey::new_from_array([0u8; 32]), // equals the key of an unused (zeroed) slot
        1 => Pubkey::new_from_array([0xFF; 32]),
        2 => {
            let mut b = [0u8; 32];
            b[31] = 1;
            Pubkey::new_from_array(b)
        }
        3 => {
            let mut b = [0xFFu8; 32];
            b[31] = 0xFE;
            Pubkey::new_from_array(b)
        }
        _ => {
            let mut r = Rng::derive(0x34_34, i as u64, 7);
            let mut b = [0u8; 32];
            r.fill(&mut b);
            if i % 5 == 0 {
                // neighbours differing only in the last byte
                b[..31].copy_from_slice(&[0x42; 31]);
            }
            Pubkey::new_from_array(b)
        }
    }
}

fn universe_str(i: usize) -> String {
    match i {
        0 => String::new(),
        1 => "k".repeat(200),
        2 => "\0".to_string(),
        _ => format!("key-{i}"),
    }
}

fn universe_pair(i: usize) -> Pair {
    // distinct for i < 1280
    ((i % 256) as u8, (i / 256) as u8)
}

macro_rules! shape {
    ($shape:ident, $map:ty, $cap:expr, $val:ty, $key:ty, $universe:path, $kb:expr, $borrow:expr) => {
        pub struct $shape;
        impl Shape for $shape {
            type Map = $map;
            type Key = $key;
            type Val = $val;
            const NAME: &'static str = stringify!($map);
            const CAP: usize = $cap;
            fn key(i: usize) -> Self::Key {
                $universe(i)
            }
            fn key_bytes(k: &Self::Key) -> Vec<u8> {
                ($kb)(k)
            }
            fn get(m: &Self::Map, k: &Self::Key) -> Option<Self::Val> {
                m.get(($borrow)(k)).copied()
            }
            fn get_mut_set(m: &mut Self::Map, k: &Self::Key, v: Self::Val) -> Option<Self::Val> {
                m.get_mut(($borrow)(k)).map(|slot| std::mem::replace(slot, v))
            }
            fn insert(m: &mut Self::Map, k: &Self::Key, v: Self::Val) -> Option<Self::Val> {
                m.insert(($borrow)(k), v)
            }
            fn insert_opts(m: &mut Self::Map, k: &Self::Key, v: Self::Val, new: bool) -> Result<Option<Self::Val>, InsErr> {
                m.insert_with_options(($borrow)(k), v, new).map_err(ins_err)
            }
            fn remove(m: &mut Self::Map, k: &Self::Key) -> Option<Self::Val> {
                m.remove(($borrow)(k))
            }
            fn len(m: &Self::Map) -> usize {
                m.len()
            }
            fn is_empty(m: &Self::Map) -> bool {
                m.is_empty()
            }
            fn entries(m: &Self::Map) -> Vec<(Vec<u8>, Self::Val)> {
                m.entries().map(|(k, v)| (k.to_vec(), *v)).collect()
            }
            fn entry_by_index(m: &Self::Map, i: usize) -> Option<(Vec<u8>, Self::Val)> {
                m.get_entry_by_index(i).map(|(k, v)| (k.to_vec(), *v))
            }
            fn entries_mut_touch(m: &mut Self::Map) -> Vec<Vec<u8>> {
                m.entries_mut()
                    .map(|(k, v)| {
                        bytemuck::bytes_of_mut(v)[0] ^= 0x5A;
                        k.to_vec()
                    })
                    .collect()
            }
            fn clear(m: &mut Self::Map) {
                m.clear()
            }
        }
    };
}

fn kb_pubkey(k: &Pubkey) -> Vec<u8> {
    k.to_bytes().to_vec()
}
fn kb_str(k: &String) -> Vec<u8> {
    // the str-keyed maps store sha256(key); computed here with solana-sdk's hasher
    solana_sdk::hash::hashv(&[k.as_bytes()]).to_bytes().to_vec()
}
fn kb_pair(k: &Pair) -> Vec<u8> {
    vec![k.0, k.1]
}
fn b_pubkey(k: &Pubkey) -> &Pubkey {
    k
}
fn b_str(k: &String) -> &str {
    k.as_str()
}
fn b_pair(k: &Pair) -> &Pair {
    k
}

shape!(STokens, TokensMap, 256, u8, Pubkey, universe_pubkey, kb_pubkey, b_pubkey);
shape!(SDisabled, DisabledMap, 64, u8, Pair, universe_pair, kb_pair, b_pair);
shape!(SPriceMap, PriceMap, 512, V12, Pubkey, universe_pubkey, kb_pubkey, b_pubkey);
shape!(SGlvMarkets, GlvMarkets, 96, V48, Pubkey, universe_pubkey, kb_pubkey, b_pubkey);
shape!(SRoleMap, RoleMap, 32, V34, String, universe_str, kb_str, b_str);
shape!(SMembers, Members, 64, u32, Pubkey, universe_pubkey, kb_pubkey, b_pubkey);
shape!(STreasuryTokenMap, TreasuryTokenMap, 16, V65, Pubkey, universe_pubkey, kb_pubkey, b_pubkey);
shape!(STokenBalances, TokenBalances, 16, V72, Pubkey, universe_pubkey, kb_pubkey, b_pubkey);
shape!(SFixedFactor, FixedFactorMap, 32, u128, String, universe_str, kb_str, b_str);
shape!(SRolesU64, RolesMapU64, 32, u64, Pubkey, universe_pubkey, kb_pubkey, b_pubkey);
shape!(ST1, Tiny1StrU128, 1, u128, String, universe_str, kb_str, b_str);
shape!(ST2, Tiny2PkU64, 2, u64, Pubkey, universe_pubkey, kb_pubkey, b_pubkey);
shape!(ST3, Tiny3PkV12, 3, V12, Pubkey, universe_pubkey, kb_pubkey, b_pubkey);
shape!(ST4, Tiny1PairU8, 1, u8, Pair, universe_pair, kb_pair, b_pair);
shape!(ST5, Tiny2PairU8, 2, u8, Pair, universe_pair, kb_pair, b_pair);
shape!(ST6, Tiny3PairU8, 3, u8, Pair, universe_pair, kb_pair, b_pair);
shape!(ST7, Tiny2StrV34, 2, V34, String, universe_str, kb_str, b_str);
shape!(ST8, Tiny1PkU32, 1, u32, Pubkey, universe_pubkey, kb_pubkey, b_pubkey);
shape!(ST9, Tiny3PkV48, 3, V48, Pubkey, universe_pubkey, kb_pubkey, b_pubkey);
shape!(ST10, Tiny3PkU8, 3, u8, Pubkey, universe_pubkey, kb_pubkey, b_pubkey);

pub const N_SHAPES: u64 = 20;

/// Run one history on shape number `idx`.
pub fn run_shape(idx: u64, m: &mut Monitor, rng: &mut Rng, ops: usize) {
    match idx % N_SHAPES {
        0 => history::<STokens>(m, rng, ops),
        1 => history::<SDisabled>(m, rng, ops),
        2 => history::<SPriceMap>(m, rng, ops),
        3 => history::<SGlvMarkets>(m, rng, ops),
        4 => history::<SRoleMap>(m, rng, ops),
        5 => history::<SMembers>(m, rng, ops),
        6 => history::<STreasuryTokenMap>(m, rng, ops),
        7 => history::<STokenBalances>(m, rng, ops),
        8 => history::<SFixedFactor>(m, rng, ops),
        9 => history::<SRolesU64>(m, rng, ops),
        10 => history::<ST1>(m, rng, ops),
        11 => history::<ST2>(m, rng, ops),
        12 => history::<ST3>(m, rng, ops),
        13 => history::<ST4>(m, rng, ops),
        14 => history::<ST5>(m, rng, ops),
        15 => history::<ST6>(m, rng, ops),
        16 => history::<ST7>(m, rng, ops),
        17 => history::<ST8>(m, rng, ops),
        18 => history::<ST9>(m, rng, ops),
        _ => history::<ST10>(m, rng, ops),
    }
}

pub fn shape_cap(idx: u64) -> usize {
    [256, 64, 512, 96, 32, 64, 16, 16, 32, 32, 1, 2, 3, 1, 2, 3, 2, 1, 3, 3][(idx % N_SHAPES) as usize]
}

// ---------------------------------------------------------------------------------------------
// the history driver

fn trace_push(trace: &mut Vec<String>, s: String) {
    if trace.len() >= 20 {
        trace.remove(0);
    }
    trace.push(s);
}

/// One random operation history against the reference map.
pub fn history<S: Shape>(m: &mut Monitor, rng: &mut Rng, ops: usize) {
    let mut map: S::Map = Default::default();
    let mut model: BTreeMap<Vec<u8>, S::Val> = BTreeMap::new();
    let factor = if rng.bool() { 2 } else { 3 };
    let universe = (S::CAP * factor).max(4);
    let keys: Vec<S::Key> = (0..universe).map(S::key).collect();
    let key_bytes: Vec<Vec<u8>> = keys.iter().map(S::key_bytes).collect();
    let mut trace: Vec<String> = vec![];
    let mut trace_hash: u64 = vcommon::rng::fnv(S::NAME.as_bytes());
    let mut grow = true;
    let mut was_full = false;
    let mut rejected_at_capacity = 0u64;
    let mut since_full_check = 0usize;
    let mut aborted = false;

    macro_rules! fail {
        ($sig:expr, $detail:expr) => {{
            m.violation(
                &format!("C34:{}", $sig),
                json!({"shape": S::NAME, "capacity": S::CAP, "detail": $detail, "last_ops": trace.clone(),
                       "len": model.len(), "map_bytes_hex_prefix": hex(&bytemuck::bytes_of(&map)[..bytemuck::bytes_of(&map).len().min(256)])}),
            );
            aborted = true;
        }};
    }

    for step in 0..ops {
        if aborted {
            break;
        }
        // phase switching keeps the map oscillating between empty-ish and full
        if model.len() >= S::CAP && rng.chance(1, (S::CAP as u64 / 2).max(3)) {
            grow = false;
        } else if model.len() <= S::CAP / 3 && rng.chance(1, 3) {
            grow = true;
        }
        let weights: [u32; 11] = if grow {
            [30, 14, 8, 6, 12, 6, 2, 3, 1, 0, 4]
        } else {
            [8, 5, 5, 30, 12, 6, 2, 3, 1, 1, 4]
        };
        let op = rng.weighted(&weights);
        // key choice: present / absent / any
        let ki = {
            let present: Option<usize> = if !model.is_empty() && rng.chance(1, 2) {
                let nth = rng.below(model.len() as u64) as usize;
                let kb = model.keys().nth(nth).unwrap();
                key_bytes.iter().position(|x| x == kb)
            } else {
                None
            };
            present.unwrap_or_else(|| rng.below(universe as u64) as usize)
        };
        let k = &keys[ki];
        let kb = &key_bytes[ki];
        let v = S::Val::gen(rng);
        let before: Vec<u8> = bytemuck::bytes_of(&map).to_vec();
        let full = model.len() >= S::CAP;
        let is_new = !model.contains_key(kb);
        trace_hash = trace_hash.wrapping_mul(0x100_0000_01B3) ^ ((op as u64) << 32 | ki as u64);
        m.eval();
        match op {
            0 => {
                // plain insert
                trace_push(&mut trace, format!("insert(k{ki},{v:?}) [len {} full {full} new {is_new}]", model.len()));
                let r = guard(|| S::insert(&mut map, k, v));
                match r {
                    Err(msg) => {
                        m.count("panics");
                        if full && is_new {
                            // `insert` = `insert_with_options(..).expect("must be success")`
                            m.count("insert_new_key_at_capacity_panicked");
                            let unchanged = bytemuck::bytes_of(&map) == &before[..];
                            m.violation(
                                "C34:insert:panics_on_new_key_at_capacity",
                                json!({"shape": S::NAME, "capacity": S::CAP, "panic": msg, "key": format!("{k:?}"),
                                       "map_unchanged_after_panic": unchanged, "last_ops": trace.clone()}),
                            );
                            if !unchanged {
                                m.violation(
                                    "C34:insert:changed_map_while_failing",
                                    json!({"shape": S::NAME, "capacity": S::CAP, "detail": "bytes differ after the panic", "last_ops": trace.clone()}),
                                );
                            }
                        } else {
                            m.violation(
                                "C34:insert:panic",
                                json!({"shape": S::NAME, "capacity": S::CAP, "detail": msg, "last_ops": trace.clone(), "len": model.len()}),
                            );
                        }
                        // restore the snapshot (aborted operation) and go on
                        map = bytemuck::pod_read_unaligned(&before);
                    }
                    Ok(got) => {
                        if full && is_new {
                            fail!("insert:accepted_new_key_at_capacity", format!("returned {got:?}"));
                        } else {
                            let exp = model.insert(kb.clone(), v);
                            if got != exp {
                                fail!("insert:wrong_result", format!("got {got:?} expected {exp:?}"));
                            }
                            m.count(if is_new { "insert_new_ok" } else { "insert_replace_ok" });
                        }
                    }
                }
            }
            1 | 2 => {
                // insert_with_options(new = true | false)
                let new = op == 1;
                trace_push(&mut trace, format!("insert_with_options(k{ki},{v:?},new={new}) [len {} full {full} new_key {is_new}]", model.len()));
                match guard(|| S::insert_opts(&mut map, k, v, new)) {
                    Err(msg) => {
                        m.count("panics");
                        fail!("insert_with_options:panic", msg);
                    }
                    Ok(got) => {
                        let exp: Result<Option<S::Val>, InsErr> = if !is_new {
                            if new {
                                Err(InsErr::AlreadyExist)
                            } else {
                                Ok(model.insert(kb.clone(), v))
                            }
                        } else if full {
                            Err(InsErr::ExceedMaxLengthLimit)
                        } else {
                            model.insert(kb.clone(), v);
                            Ok(None)
                        };
                        match (&got, &exp) {
                            (Ok(g), Ok(e)) if g == e => m.count(if is_new { "insert_opts_new_ok" } else { "insert_opts_replace_ok" }),
                            (Err(_), Err(e)) => {
                                if bytemuck::bytes_of(&map) != &before[..] {
                                    fail!("insert_with_options:changed_map_while_failing", format!("expected {e:?}"));
                                } else if *e == InsErr::ExceedMaxLengthLimit {
                                    rejected_at_capacity += 1;
                                    m.count("insert_new_key_at_capacity_rejected_unchanged");
                                } else {
                                    m.count("insert_new_existing_key_rejected_unchanged");
                                }
                                if got.as_ref().err() != Some(e) {
                                    m.count("insert_error_kind_differs");
                                }
                            }
                            (Ok(g), Err(e)) => {
                                if *e == InsErr::ExceedMaxLengthLimit {
                                    fail!("insert_with_options:accepted_new_key_at_capacity", format!("returned {g:?}"));
                                } else {
                                    fail!("insert_with_options:insert_new_replaced_existing_key", format!("returned {g:?}"));
                                }
                            }
                            (g, e) => fail!("insert_with_options:wrong_result", format!("got {g:?} expected {e:?}")),
                        }
                    }
                }
            }
            3 => {
                trace_push(&mut trace, format!("remove(k{ki}) [len {} full {full} present {}]", model.len(), !is_new));
                match guard(|| S::remove(&mut map, k)) {
                    Err(msg) => {
                        m.count("panics");
                        fail!("remove:panic", msg);
                    }
                    Ok(got) => {
                        let exp = model.remove(kb);
                        if got != exp {
                            fail!("remove:wrong_result", format!("got {got:?} expected {exp:?}"));
                        } else if exp.is_some() {
                            m.count(if full { "remove_at_full_capacity_ok" } else { "remove_ok" });
                        } else {
                            m.count("remove_absent");
                            if bytemuck::bytes_of(&map) != &before[..] {
                                fail!("remove:changed_map_for_absent_key", "");
                            }
                        }
                    }
                }
            }
            4 => {
                trace_push(&mut trace, format!("get(k{ki})"));
                match guard(|| S::get(&map, k)) {
                    Err(msg) => {
                        m.count("panics");
                        fail!("get:panic", msg);
                    }
                    Ok(got) => {
                        let exp = model.get(kb).copied();
                        if got != exp {
                            fail!("get:wrong_result", format!("got {got:?} expected {exp:?}"));
                        }
                        m.count(if exp.is_some() { "get_hit" } else { "get_miss" });
                    }
                }
            }
            5 => {
                trace_push(&mut trace, format!("get_mut(k{ki}) = {v:?}"));
                match guard(|| S::get_mut_set(&mut map, k, v)) {
                    Err(msg) => {
                        m.count("panics");
                        fail!("get_mut:panic", msg);
                    }
                    Ok(got) => {
                        let exp = model.get_mut(kb).map(|slot| std::mem::replace(slot, v));
                        if got != exp {
                            fail!("get_mut:wrong_result", format!("got {got:?} expected {exp:?}"));
                        }
                        m.count(if exp.is_some() { "get_mut_hit" } else { "get_mut_miss" });
                    }
                }
            }
            6 => {
                trace_push(&mut trace, "entries()".to_string());
                since_full_check = usize::MAX; // force the full comparison below
            }
            7 => {
                let i = match rng.below(4) {
                    0 => model.len(),
                    1 => model.len().saturating_sub(1),
                    2 => S::CAP,
                    _ => rng.below(S::CAP as u64 + 2) as usize,
                };
                trace_push(&mut trace, format!("get_entry_by_index({i})"));
                match guard(|| S::entry_by_index(&map, i)) {
                    Err(msg) => {
                        m.count("panics");
                        fail!("get_entry_by_index:panic", msg);
                    }
                    Ok(got) => {
                        let exp = model.iter().nth(i).map(|(k, v)| (k.clone(), *v));
                        if got != exp {
                            fail!("get_entry_by_index:wrong_result", format!("index {i}: got {got:?} expected {exp:?}"));
                        }
                        m.count("entry_by_index");
                    }
                }
            }
            8 => {
                trace_push(&mut trace, "entries_mut() ^= 0x5A".to_string());
                match guard(|| S::entries_mut_touch(&mut map)) {
                    Err(msg) => {
                        m.count("panics");
                        fail!("entries_mut:panic", msg);
                    }
                    Ok(visited) => {
                        let exp: Vec<Vec<u8>> = model.keys().cloned().collect();
                        if visited != exp {
                            fail!("entries_mut:wrong_keys", "");
                        }
                        for v in model.values_mut() {
                            bytemuck::bytes_of_mut(v)[0] ^= 0x5A;
                        }
                        m.count("entries_mut");
                    }
                }
            }
            9 => {
                trace_push(&mut trace, format!("clear() [len {}]", model.len()));
                match guard(|| S::clear(&mut map)) {
                    Err(msg) => {
                        m.count("panics");
                        fail!("clear:panic", msg);
                    }
                    Ok(()) => {
                        model.clear();
                        m.count("clear");
                    }
                }
            }
            _ => {
                trace_push(&mut trace, "len()/is_empty()".to_string());
            }
        }
        if aborted {
            break;
        }
        // always: len / is_empty
        match guard(|| (S::len(&map), S::is_empty(&map))) {
            Err(msg) => {
                m.count("panics");
                fail!("len:panic", msg);
            }
            Ok((l, e)) => {
                if l != model.len() || e != model.is_empty() {
                    fail!("len:wrong_result", format!("len {l} is_empty {e}, expected {}", model.len()));
                }
            }
        }
        // read-only operations must not change the bytes
        if matches!(op, 4 | 6 | 7 | 10) && bytemuck::bytes_of(&map) != &before[..] {
            fail!("read_only_operation_changed_map", format!("op {op}"));
        }
        if model.len() >= S::CAP {
            if !was_full {
                m.count("histories_reaching_capacity");
            }
            was_full = true;
            m.count("steps_at_capacity");
        }
        // full structural comparison (sorted entries): every step for small maps, periodically
        // for large ones, always right after reaching capacity and at the end
        since_full_check = since_full_check.saturating_add(1);
        let due = S::CAP <= 8 || since_full_check > 16 || step + 1 == ops || (model.len() >= S::CAP && since_full_check > 2);
        if due && !aborted {
            since_full_check = 0;
            match guard(|| S::entries(&map)) {
                Err(msg) => {
                    m.count("panics");
                    fail!("entries:panic", msg);
                }
                Ok(got) => {
                    let exp: Vec<(Vec<u8>, S::Val)> = model.iter().map(|(k, v)| (k.clone(), *v)).collect();
                    if got != exp {
                        let sorted = got.windows(2).all(|w| w[0].0 < w[1].0);
                        fail!(
                            if sorted { "entries:differ_from_reference_map" } else { "entries:not_sorted" },
                            format!("got {} entries, expected {}", got.len(), exp.len())
                        );
                    }
                    m.count("full_entries_comparisons");
                }
            }
        }
    }
    m.count("histories");
    m.count(&format!("histories_{}", S::NAME));
    if was_full && rejected_at_capacity > 0 && !aborted {
        m.nontrivial_hash(trace_hash);
        if m.wants_sample() && m.counter("sampled_histories") < 2 {
            m.count("sampled_histories");
            m.sample(json!({"shape": S::NAME, "capacity": S::CAP, "key_universe": universe, "ops": ops,
                            "rejected_inserts_at_capacity": rejected_at_capacity, "last_ops": trace}));
        }
    }
}

pub fn ops_for(cap: usize, rng: &mut Rng) -> usize {
    let base = cap * 5 + 60;
    base + rng.below(base as u64 / 2 + 1) as usize
}

pub fn run(args: &Args) -> i32 {
    let mut mon = Monitor::new(
        args,
        "histories: random sequences of insert / insert_with_options(new) / insert_with_options(replace) / remove / \
         get / get_mut / entries / get_entry_by_index / entries_mut / clear / len over a key universe 2-3x the \
         capacity (incl. the all-zero key, 0xFF.., neighbours differing in the last byte; str keys incl. empty), \
         with grow/shrink phases so that the map repeatedly becomes full, on 20 instantiations of the real \
         fixed_map! macro (8 program shapes, 2 test shapes, 10 tiny-capacity shapes) against BTreeMap. \
         non-trivial = a history that reached full capacity and had at least one new-key insert rejected there \
         without any disagreement; distinct = distinct (shape, operation, key) traces",
    );
    let n_shards = 160u64;
    let rounds = args.scale(250, 6_000);
    vcommon::monitor::run_shards(&mut mon, args.threads, n_shards, |shard, m| {
        let mut rng = Rng::derive(args.seed, shard, 34);
        for r in 0..rounds {
            let idx = shard + r; // every shard walks through the shapes
            let cap = shape_cap(idx);
            // tiny maps: many short histories; large maps: one long history
            let reps = if cap <= 3 { 40 } else if cap <= 32 { 6 } else { 1 };
            for _ in 0..reps {
                let ops = ops_for(cap, &mut rng);
                run_shape(idx, m, &mut rng, ops);
            }
        }
    });
    for k in [
        "insert_new_ok",
        "insert_replace_ok",
        "insert_opts_new_ok",
        "insert_opts_replace_ok",
        "insert_new_key_at_capacity_rejected_unchanged",
        "insert_new_existing_key_rejected_unchanged",
        "remove_ok",
        "remove_at_full_capacity_ok",
        "remove_absent",
        "get_hit",
        "get_miss",
        "get_mut_hit",
        "entry_by_index",
        "entries_mut",
        "clear",
        "full_entries_comparisons",
    ] {
        mon.require(k, 200);
    }
    for s in [
        "TokensMap", "DisabledMap", "PriceMap", "GlvMarkets", "RoleMap", "Members", "TreasuryTokenMap", "TokenBalances",
        "FixedFactorMap", "RolesMapU64", "Tiny1StrU128", "Tiny2PkU64", "Tiny3PkV12", "Tiny1PairU8", "Tiny2PairU8",
        "Tiny3PairU8", "Tiny2StrV34", "Tiny1PkU32", "Tiny3PkV48", "Tiny3PkU8",
    ] {
        mon.require(&format!("histories_{s}"), 4);
    }
    mon.require("histories_reaching_capacity", 100);
    mon.assume("value types are re-declared with the same size/alignment as the programs' (SmallPrices 12/4, GlvMarketConfig 48/16, RoleMetadata 34/1, treasury TokenConfig 65/1, TokenBalance 72/8); the map code is the repository's macro");
    mon.assume("str keys are stored as sha256(key) (fixed_map::to_key); the reference recomputes it with solana-sdk's hashv");
    crate::miri::attach(args, &mut mon);
    mon.finish()
}

#[cfg(test)]
mod tests {
    use super::*;

    fn small<S: Shape>(m: &mut Monitor, rng: &mut Rng, ops: usize) {
        history::<S>(m, rng, ops);
    }

    /// Miri shard: bytemuck casts, copy_within shifts and slot resets of the real macro code on small
    /// and alignment-sensitive shapes. Plain `insert` at capacity panics by construction (native
    /// finding); under Miri only UB counts, so violations are not asserted here.
    #[test]
    fn miri_c34_fixed_maps() {
        let seed = crate::util::miri_seed();
        let mut m = crate::util::test_monitor("C34", seed);
        let mut rng = Rng::derive(seed, 0, 3400);
        let n = crate::util::miri_cases(40) as usize;
        small::<ST1>(&mut m, &mut rng, n);
        small::<ST2>(&mut m, &mut rng, n);
        small::<ST3>(&mut m, &mut rng, n);
        small::<ST5>(&mut m, &mut rng, n);
        small::<ST7>(&mut m, &mut rng, n);
        small::<ST9>(&mut m, &mut rng, n);
        small::<STreasuryTokenMap>(&mut m, &mut rng, n * 3);
        small::<STokenBalances>(&mut m, &mut rng, n * 3);
    }
}
