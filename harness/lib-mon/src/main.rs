fn main() {
    let args = vcommon::Args::parse();
    eprintln!("no monitor for {}", args.id);
    std::process::exit(2);
}
