//! Engine E3 `lib-mon`: generated-input monitors over the utility crates
//! (`gmsol-utils`, `gmsol-chainlink-datastreams`, `gmsol-solana-utils`) with exact oracles.
//!
//! `lib-mon <ID> [--tier quick|thorough] [--replay file] [--miri <summary.json>|run]` (env `LIBMON_MIRI` alike)
//!
//! The same per-case check functions are used by the `#[test]` mini workloads at the bottom of
//! each module (`miri_c26_*`, `miri_c27_*`, `miri_c28_*`, `miri_c34_*`), which `miri.sh` runs under
//! `cargo +nightly miri test`.
mod c26;
mod c27;
mod c28;
mod c34;
mod c41;
pub mod miri;
pub mod util;

fn main() {
    let args = vcommon::Args::parse();
    miri::start(&args);
    let code = match args.id.as_str() {
        "C26" => Some(c26::run(&args)),
        "C27" => Some(c27::run(&args)),
        "C28" => Some(c28::run(&args)),
        "C34" => Some(c34::run(&args)),
        "C41" => Some(c41::run(&args)),
        _ => None,
    };
    match code {
        Some(c) => std::process::exit(c),
        None => {
            eprintln!("lib-mon: no monitor for {}", args.id);
            std::process::exit(2)
        }
    }
}
