//! C41 — transaction packing preserves instructions and respects size limits.
//!
//! Code under test: `TransactionGroup::{add, optimize, to_transactions}`, `ParallelGroup`/`AtomicGroup`
//! (merge, transaction_size, transaction_size_after_merge), `transaction_size`,
//! `transaction_size_with_luts` (gmsol-solana-utils).
//!
//! Oracle (independent): every generated instruction carries a unique serial number in its data.
//! After `add`* and `optimize`:
//! * the serials read back from `groups()` are exactly the accepted serials in the original order;
//! * no original atomic group is spread over two output groups; an output parallel group with more
//!   than one member only holds members of one input parallel group;
//! * an output group holding ≥ 2 original groups ⇒ all of them were mergeable (and, when they come from
//!   different parallel groups, those were mergeable too);
//! * an original group whose payer differs from its output group's payer ⇒ payer change was allowed;
//! * every transaction built by `to_transactions` (solana-sdk message compilation + bincode, i.e. the
//!   real wire format) has ≤ `max_instructions_per_tx` non-compute-budget instructions, is
//!   ≤ `max_transaction_size` bytes, carries the group's instructions in order, and the group's
//!   `transaction_size` estimate (same options) is ≥ its real size.
//! Additionally the two free estimators are compared with messages compiled directly by solana-sdk.
use gmsol_solana_utils::address_lookup_table::AddressLookupTables;
use gmsol_solana_utils::instruction_group::{
    AtomicGroupOptions, ComputeBudgetOptions, GetInstructionsOptions, ParallelGroupOptions,
};
use gmsol_solana_utils::signer::TransactionSigners;
use gmsol_solana_utils::transaction_group::TransactionGroupOptions;
use gmsol_solana_utils::utils::{transaction_size, transaction_size_with_luts};
use gmsol_solana_utils::{AtomicGroup, ParallelGroup, TransactionGroup};
use solana_sdk::address_lookup_table::AddressLookupTableAccount;
use solana_sdk::hash::Hash;
use solana_sdk::instruction::{AccountMeta, Instruction};
use solana_sdk::message::{v0, VersionedMessage};
use solana_sdk::packet::PACKET_DATA_SIZE;
use solana_sdk::pubkey::Pubkey;
use solana_sdk::signature::{Keypair, Signature};
use solana_sdk::signer::keypair::keypair_from_seed;
use solana_sdk::signer::Signer;
use solana_sdk::transaction::VersionedTransaction;
use std::collections::{BTreeMap, BTreeSet};
use std::sync::Arc;
use vcommon::monitor::guard;
use vcommon::{json, Args, Monitor, Rng};

#[derive(Clone, Debug)]
struct OrigAg {
    payer: Pubkey,
    mergeable: bool,
    pg: usize,
    pg_mergeable: bool,
    serials: Vec<u32>,
}

struct World {
    payers: Vec<Arc<Keypair>>,
    signers: Vec<Arc<Keypair>>,
    accounts: Vec<Pubkey>,
    programs: Vec<Pubkey>,
}

fn new_pubkey(rng: &mut Rng) -> Pubkey {
    let mut b = [0u8; 32];
    rng.fill(&mut b);
    Pubkey::new_from_array(b)
}

fn new_keypair(rng: &mut Rng) -> Arc<Keypair> {
    let mut b = [0u8; 32];
    rng.fill(&mut b);
    Arc::new(keypair_from_seed(&b).expect("seed"))
}

fn gen_world(rng: &mut Rng) -> World {
    World {
        payers: (0..rng.range(1, 3)).map(|_| new_keypair(rng)).collect(),
        signers: (0..rng.range(1, 3)).map(|_| new_keypair(rng)).collect(),
        accounts: (0..rng.range(4, 48)).map(|_| new_pubkey(rng)).collect(),
        programs: (0..rng.range(1, 4)).map(|_| new_pubkey(rng)).collect(),
    }
}

fn gen_luts(rng: &mut Rng, w: &World) -> AddressLookupTables {
    let n = match rng.below(5) {
        0 | 1 => 0,
        2 => 1,
        3 => 2,
        _ => 3,
    };
    let mut v: Vec<(Pubkey, Vec<Pubkey>)> = vec![];
    for _ in 0..n {
        let mut addrs = vec![];
        for _ in 0..rng.range(0, 40) {
            let a = match rng.below(12) {
                0 => new_pubkey(rng),
                1 => *rng.pick(&w.programs),           // a program id inside a table
                2 => rng.pick(&w.signers).pubkey(),    // a signer inside a table
                3 => rng.pick(&w.payers).pubkey(),
                _ => *rng.pick(&w.accounts),
            };
            addrs.push(a);
        }
        v.push((new_pubkey(rng), addrs));
    }
    v.into_iter().collect()
}

fn gen_instruction(rng: &mut Rng, w: &World, serial: u32, big: bool) -> Instruction {
    let program_id = *rng.pick(&w.programs);
    let n_acc = match rng.below(6) {
        0 => 0,
        1 => rng.range(10, 24),
        _ => rng.range(1, 8),
    };
    let mut accounts = vec![];
    for _ in 0..n_acc {
        let m = match rng.below(14) {
            0 => AccountMeta { pubkey: rng.pick(&w.signers).pubkey(), is_signer: true, is_writable: rng.bool() },
            1 => AccountMeta { pubkey: rng.pick(&w.payers).pubkey(), is_signer: rng.bool(), is_writable: true },
            2 => AccountMeta { pubkey: *rng.pick(&w.programs), is_signer: false, is_writable: false },
            _ => AccountMeta { pubkey: *rng.pick(&w.accounts), is_signer: false, is_writable: rng.bool() },
        };
        accounts.push(m);
    }
    let extra = if big {
        rng.range(100, 700)
    } else {
        match rng.below(8) {
            0 => 0,
            1 => rng.range(120, 135), // around the 1→2 byte compact-u16 boundary
            2 => rng.range(100, 400),
            _ => rng.range(0, 48),
        }
    } as usize;
    let mut data = serial.to_le_bytes().to_vec();
    data.extend_from_slice(&rng.bytes(extra));
    Instruction { program_id, accounts, data }
}

fn required_signers(ixs: &[Instruction]) -> BTreeSet<Pubkey> {
    ixs.iter().flat_map(|ix| ix.accounts.iter()).filter(|m| m.is_signer).map(|m| m.pubkey).collect()
}

fn serial_of(ix: &Instruction) -> Option<u32> {
    ix.data.get(..4).map(|b| u32::from_le_bytes(b.try_into().unwrap()))
}

fn describe(tg: &TransactionGroup) -> Vec<Vec<Vec<u32>>> {
    tg.groups()
        .iter()
        .map(|pg| pg.iter().map(|ag| ag.iter().filter_map(serial_of).collect()).collect())
        .collect()
}

fn instruction_options(o: &TransactionGroupOptions) -> GetInstructionsOptions {
    GetInstructionsOptions {
        compute_budget: ComputeBudgetOptions::default(),
        memo: o.memo.clone(),
        memo_signers: o.memo_signers.clone(),
        extra_compute_units: o.extra_compute_units.unwrap_or(if o.memo.is_some() { 50_000 } else { 0 }),
    }
}

fn real_size(tx: &VersionedTransaction) -> usize {
    bincode::serialize(tx).map(|b| b.len()).unwrap_or(usize::MAX)
}

/// One packing case.
pub fn packing_case(m: &mut Monitor, rng: &mut Rng) {
    m.eval();
    let w = gen_world(rng);
    let luts = gen_luts(rng, &w);
    let mut serial: u32 = 1;
    // input groups
    let n_pg = rng.range(1, 7) as usize;
    let heavy = rng.chance(1, 4); // cases with big instructions so that the size limit bites
    let mut input: Vec<(ParallelGroup, Vec<OrigAg>)> = vec![];
    for pg_idx in 0..n_pg {
        let n_ag = match rng.below(5) {
            0 | 1 | 2 => 1,
            3 => 2,
            _ => 3,
        };
        let pg_mergeable = !rng.chance(1, 7);
        let mut ags = vec![];
        let mut origs = vec![];
        for _ in 0..n_ag {
            let payer = rng.pick(&w.payers).pubkey();
            let n_ix = match rng.below(10) {
                0 => 0,
                1 => rng.range(4, 9),
                _ => rng.range(1, 3),
            } as usize;
            let mut ixs = vec![];
            let mut serials = vec![];
            for _ in 0..n_ix {
                let big = heavy && rng.chance(1, 3);
                ixs.push(gen_instruction(rng, &w, serial, big));
                serials.push(serial);
                serial += 1;
            }
            let mergeable = !rng.chance(1, 7);
            let mut ag = AtomicGroup::with_instructions_and_options(&payer, ixs.clone(), AtomicGroupOptions { is_mergeable: mergeable });
            if !rng.chance(1, 12) {
                for s in required_signers(&ixs) {
                    ag.add_signer(&s);
                }
            }
            if rng.chance(1, 6) {
                ag.compute_budget_mut().set_limit(rng.range(1, 1_400_000) as u32);
            }
            ags.push(ag);
            origs.push(OrigAg { payer, mergeable, pg: pg_idx, pg_mergeable, serials });
        }
        let pg = ParallelGroup::with_options(ags, ParallelGroupOptions { is_mergeable: pg_mergeable });
        input.push((pg, origs));
    }
    // options
    let memo = match rng.below(6) {
        0 | 1 | 2 => None,
        3 => Some("m".repeat(rng.range(0, 12) as usize)),
        4 => Some("memo-".repeat(rng.range(4, 30) as usize)),
        _ => Some("x".repeat(rng.range(100, 500) as usize)),
    };
    let memo_signers = if memo.is_some() {
        match rng.below(6) {
            0 => Some(vec![]),
            1 => Some(vec![rng.pick(&w.payers).pubkey()]),
            2 => Some(vec![rng.pick(&w.signers).pubkey(), rng.pick(&w.payers).pubkey()]),
            _ => None,
        }
    } else {
        None
    };
    let mut options = TransactionGroupOptions {
        max_transaction_size: match rng.below(6) {
            0 => rng.range(200, 1232) as usize,
            1 => rng.range(600, 1000) as usize,
            _ => PACKET_DATA_SIZE,
        },
        max_instructions_per_tx: match rng.below(5) {
            0 => rng.range(1, 6) as usize,
            1 => rng.range(2, 10) as usize,
            _ => 14,
        },
        memo,
        memo_signers,
        extra_compute_units: if rng.chance(1, 5) { Some(rng.next_u64() as u32) } else { None },
    };
    // Aim the size limit at one group's own (memo-less) estimate, so that the limit is tight exactly
    // where `add` validates.
    if rng.chance(1, 3) {
        let (pg, _) = rng.pick(&input);
        if let Some(ag) = pg.iter().next() {
            if let Ok(sz) = guard(|| ag.transaction_size(true, Some(&luts), Default::default())) {
                options.max_transaction_size = sz + rng.range(0, 40) as usize;
            }
        }
    }
    let allow_payer_change = rng.bool();
    let do_optimize = !rng.chance(1, 6);
    let case = |extra: vcommon::serde_json::Value| {
        json!({
            "options": {"max_transaction_size": options.max_transaction_size, "max_instructions_per_tx": options.max_instructions_per_tx,
                        "memo_len": options.memo.as_ref().map(|s| s.len()), "memo_signers": options.memo_signers.as_ref().map(|v| v.len())},
            "luts": luts.iter().map(|(_, v)| v.len()).collect::<Vec<_>>(),
            "allow_payer_change": allow_payer_change, "optimized": do_optimize,
            "input": input.iter().map(|(_, o)| o.iter().map(|a| json!({"payer": a.payer.to_string(), "mergeable": a.mergeable, "pg_mergeable": a.pg_mergeable, "serials": a.serials})).collect::<Vec<_>>()).collect::<Vec<_>>(),
            "detail": extra,
        })
    };

    let mut tg = TransactionGroup::with_options_and_luts(options.clone(), luts.clone());
    let mut accepted: Vec<OrigAg> = vec![];
    let mut accepted_shape: Vec<Vec<Vec<u32>>> = vec![];
    for (pg, origs) in input.iter() {
        match guard(|| tg.add(pg.clone()).map(|_| ())) {
            Err(msg) => {
                m.count("panics");
                m.count("add_panicked");
                if m.wants_sample() {
                    m.sample(case(json!({"add_panic": msg})));
                }
                return;
            }
            Ok(Ok(())) => {
                m.count("add_ok");
                accepted.extend(origs.iter().cloned());
                accepted_shape.push(origs.iter().map(|o| o.serials.clone()).collect());
            }
            Ok(Err(_)) => m.count("add_rejected"),
        }
    }
    if do_optimize {
        let twice = rng.chance(1, 5);
        if let Err(msg) = guard(|| {
            tg.optimize(allow_payer_change);
            if twice {
                tg.optimize(allow_payer_change);
            }
        }) {
            m.count("panics");
            m.count("optimize_panicked");
            if m.wants_sample() {
                m.sample(case(json!({"optimize_panic": msg})));
            }
            return;
        }
    }
    // ---- structure oracle
    let out = describe(&tg);
    let flat_out: Vec<u32> = out.iter().flatten().flatten().copied().collect();
    let flat_in: Vec<u32> = accepted.iter().flat_map(|a| a.serials.iter().copied()).collect();
    if flat_out != flat_in {
        let sig = if flat_out.len() < flat_in.len() {
            "C41:optimize:instruction_dropped"
        } else if flat_out.len() > flat_in.len() {
            "C41:optimize:instruction_duplicated"
        } else {
            "C41:optimize:instructions_reordered"
        };
        m.violation(sig, case(json!({"output": out})));
        return;
    }
    if !do_optimize && out != accepted_shape {
        m.violation("C41:add:regrouped_without_optimize", case(json!({"output": out})));
        return;
    }
    let mut owner: BTreeMap<u32, usize> = BTreeMap::new();
    for (i, a) in accepted.iter().enumerate() {
        for s in &a.serials {
            owner.insert(*s, i);
        }
    }
    let mut merges = 0u64;
    let mut payer_changes = 0u64;
    let mut seen_orig: BTreeSet<usize> = BTreeSet::new();
    for (pi, pg) in tg.groups().iter().enumerate() {
        let mut pgs_in_this: BTreeSet<usize> = BTreeSet::new();
        for (ai, ag) in pg.iter().enumerate() {
            let ids: Vec<usize> = {
                let mut v: Vec<usize> = out[pi][ai].iter().map(|s| owner[s]).collect();
                v.dedup();
                v
            };
            for id in &ids {
                if !seen_orig.insert(*id) {
                    m.violation("C41:optimize:atomic_group_split", case(json!({"output": out, "original_group": id})));
                    return;
                }
                pgs_in_this.insert(accepted[*id].pg);
            }
            if ids.len() >= 2 {
                merges += 1;
                let cross = ids.iter().map(|i| accepted[*i].pg).collect::<BTreeSet<_>>().len() > 1;
                for id in &ids {
                    let o = &accepted[*id];
                    if !o.mergeable || (cross && !o.pg_mergeable) {
                        m.violation("C41:optimize:merged_a_non_mergeable_group", case(json!({"output": out, "original_group": id})));
                        return;
                    }
                }
            }
            for id in &ids {
                if accepted[*id].payer != *ag.payer() {
                    payer_changes += 1;
                    if !allow_payer_change || !do_optimize {
                        m.violation("C41:optimize:payer_changed_without_permission", case(json!({"output": out, "original_group": id, "new_payer": ag.payer().to_string()})));
                        return;
                    }
                }
            }
        }
        if pg.len() >= 2 && pgs_in_this.len() > 1 {
            m.violation("C41:optimize:sequential_groups_made_parallel", case(json!({"output": out})));
            return;
        }
    }
    if merges > 0 {
        m.count("cases_with_merges");
        m.add("merged_output_groups", merges);
    }
    if payer_changes > 0 {
        m.count("cases_with_allowed_payer_change");
    }
    if do_optimize && merges == 0 && accepted.len() >= 2 {
        m.count("cases_optimize_merged_nothing");
    }

    // ---- build phase: limits and the estimate against the real wire size
    let all_signers: Vec<Arc<Keypair>> = w.payers.iter().chain(w.signers.iter()).cloned().collect();
    let tsigners: TransactionSigners<Arc<Keypair>> = if rng.chance(1, 4) {
        all_signers.iter().skip(1).cloned().collect()
    } else {
        all_signers.iter().cloned().collect()
    };
    let iopts = instruction_options(&options);
    let compute_budget_id = solana_sdk::compute_budget::id();
    let memo_id = spl_memo::id();
    let built = guard(|| tg.to_transactions(&tsigners, Hash::default(), true).collect::<Vec<_>>());
    let built = match built {
        Ok(b) => b,
        Err(msg) => {
            m.count("panics");
            m.count("build_panicked");
            if m.wants_sample() {
                m.sample(case(json!({"build_panic": msg})));
            }
            return;
        }
    };
    let mut all_ok = !built.is_empty();
    for (pi, res) in built.iter().enumerate() {
        let pg = &tg.groups()[pi];
        let txs = match res {
            Ok(t) => t,
            Err(e) => {
                all_ok = false;
                let s = e.to_string();
                if s.contains("too many signers") || s.contains("TooManySigners") {
                    m.count(if payer_changes > 0 { "build_err_too_many_signers_after_payer_change" } else { "build_err_too_many_signers" });
                } else if s.contains("not enough signers") || s.contains("NotEnoughSigners") {
                    m.count("build_err_not_enough_signers");
                } else {
                    m.count("build_err_other");
                    if m.wants_sample() && m.counter("build_err_other") <= 2 {
                        m.sample(json!({"kind": "build error (other)", "error": s}));
                    }
                }
                continue;
            }
        };
        for (ai, tx) in txs.iter().enumerate() {
            m.count("transactions_built");
            let ag = &pg[ai];
            let real = real_size(tx);
            let est = match guard(|| ag.transaction_size(true, Some(tg.luts()), iopts.clone())) {
                Ok(e) => e,
                Err(_) => {
                    m.count("panics");
                    continue;
                }
            };
            let detail = |what: &str| {
                case(json!({"what": what, "output": out, "group": [pi, ai], "real_serialized_size": real, "estimate_with_build_options": est,
                            "estimate_with_default_options": ag.transaction_size(true, Some(tg.luts()), Default::default()),
                            "group_len": ag.len(),
                            "transaction_base64_prefix": hex_prefix(tx)}))
            };
            if est < real {
                m.violation("C41:transaction_size:estimate_below_real_size", detail("estimate < bincode size of the built transaction"));
                return;
            }
            m.count(if est == real { "estimate_exact" } else { "estimate_above_real" });
            m.max("max_estimate_minus_real", (est - real) as u64);
            // instructions of the built transaction
            let VersionedMessage::V0(msg) = &tx.message else {
                m.inconclusive("unexpected legacy message");
                return;
            };
            let keys = &msg.account_keys;
            let mut body: Vec<&solana_sdk::instruction::CompiledInstruction> = vec![];
            let mut non_budget = 0usize;
            let mut memos = 0usize;
            for ci in &msg.instructions {
                let pid = keys.get(ci.program_id_index as usize).copied().unwrap_or_default();
                if pid == compute_budget_id {
                    continue;
                }
                non_budget += 1;
                if pid == memo_id && memos == 0 && options.memo.is_some() && body.is_empty() {
                    memos += 1;
                    continue;
                }
                body.push(ci);
            }
            let same = body.len() == ag.len()
                && body.iter().zip(ag.iter()).all(|(ci, ix)| {
                    keys.get(ci.program_id_index as usize) == Some(&ix.program_id) && ci.data == ix.data && ci.accounts.len() == ix.accounts.len()
                });
            if !same {
                m.violation("C41:build:transaction_instructions_differ_from_group", detail("program/data/account-count sequence differs"));
                return;
            }
            if non_budget > options.max_instructions_per_tx {
                let sig = if ag.len() <= options.max_instructions_per_tx && memos > 0 {
                    "C41:build:memo_not_counted_in_instruction_limit"
                } else {
                    "C41:build:instruction_limit_exceeded"
                };
                m.violation(sig, detail("non-compute-budget instructions in the built transaction > max_instructions_per_tx"));
            }
            if real > options.max_transaction_size {
                // Which check let it through? A group that was never merged went only through
                // `validate_one`, which sizes it with default options (no memo).
                let est_default = ag.transaction_size(true, Some(tg.luts()), Default::default());
                let sig = if options.memo.is_some() && est_default <= options.max_transaction_size {
                    "C41:validate_one:memo_ignored"
                } else {
                    "C41:build:size_limit_exceeded"
                };
                m.violation(sig, detail("bincode size of the built transaction > max_transaction_size"));
            } else if real + 40 >= options.max_transaction_size {
                m.count("transactions_within_40_bytes_of_limit");
            }
            if options.memo.is_some() {
                m.count("transactions_with_memo");
            }
            if !msg.address_table_lookups.is_empty() {
                m.count("transactions_using_lookup_tables");
            }
        }
    }
    if all_ok {
        m.count("cases_fully_built");
        let mut sig: Vec<u8> = vec![];
        for pg in &out {
            sig.push(0xFE);
            for ag in pg {
                sig.push(0xFD);
                for s in ag {
                    sig.extend_from_slice(&s.to_le_bytes());
                }
            }
        }
        sig.extend_from_slice(&(options.max_transaction_size as u32).to_le_bytes());
        sig.extend_from_slice(&rng.next_u64().to_le_bytes()); // content differs per case (keys, data)
        if merges > 0 || accepted.len() >= 2 {
            crate::util::nontrivial_capped(m, &sig);
        }
        if m.wants_sample() && merges > 0 && m.counter("sampled_merge_cases") < 3 {
            m.count("sampled_merge_cases");
            m.sample(case(json!({"output": out})));
        }
    }
}

fn hex_prefix(tx: &VersionedTransaction) -> String {
    let b = bincode::serialize(tx).unwrap_or_default();
    crate::util::hex(&b[..b.len().min(96)])
}

/// The two free estimators against messages compiled directly by solana-sdk.
pub fn estimator_case(m: &mut Monitor, rng: &mut Rng) {
    m.eval();
    let w = gen_world(rng);
    let luts = gen_luts(rng, &w);
    let payer = rng.pick(&w.payers).pubkey();
    let n = rng.range(0, 8) as u32;
    let ixs: Vec<Instruction> = (0..n)
        .map(|i| {
            let big = rng.chance(1, 10);
            gen_instruction(rng, &w, i, big)
        })
        .collect();
    let wit = |what: String| {
        json!({"payer": payer.to_string(), "detail": what,
               "instructions": ixs.iter().map(|ix| json!({"program": ix.program_id.to_string(), "data_len": ix.data.len(),
                    "accounts": ix.accounts.iter().map(|a| format!("{}{}{}", a.pubkey, if a.is_signer {":s"} else {""}, if a.is_writable {":w"} else {""})).collect::<Vec<_>>()})).collect::<Vec<_>>(),
               "luts": luts.iter().map(|(k, v)| json!({"key": k.to_string(), "addresses": v.iter().map(|a| a.to_string()).collect::<Vec<_>>()})).collect::<Vec<_>>()})
    };
    // versioned with lookup tables
    let lut_accounts: Vec<AddressLookupTableAccount> = luts.accounts().collect();
    if let Ok(msg) = v0::Message::try_compile(&payer, &ixs, &lut_accounts, Hash::default()) {
        let used = msg.address_table_lookups.len();
        let tx = VersionedTransaction {
            signatures: vec![Signature::default(); msg.header.num_required_signatures as usize],
            message: VersionedMessage::V0(msg),
        };
        let real = real_size(&tx);
        match guard(|| transaction_size_with_luts(payer, &ixs, true, Some(&luts))) {
            Ok(est) => {
                if est < real {
                    m.violation("C41:transaction_size_with_luts:estimate_below_real_size", wit(format!("estimate {est} < real {real} (v0, {used} tables used)")));
                } else {
                    m.count(if est == real { "estimator_luts_exact" } else { "estimator_luts_above" });
                }
            }
            Err(_) => m.count("panics"),
        }
        let addrs = luts.addresses();
        match guard(|| transaction_size(payer, &ixs, true, Some(&addrs), used)) {
            Ok(est) => {
                if est < real {
                    m.violation("C41:transaction_size:estimate_below_real_size_v0", wit(format!("estimate {est} < real {real} (v0, {used} tables used)")));
                } else {
                    m.count(if est == real { "estimator_set_exact" } else { "estimator_set_above" });
                }
            }
            Err(_) => m.count("panics"),
        }
        if used > 0 {
            m.count("estimator_cases_using_tables");
            let mut sig = bincode::serialize(&tx).unwrap_or_default();
            sig.truncate(256);
            crate::util::nontrivial_capped(m, &sig);
        }
    } else {
        m.count("estimator_compile_failed");
    }
    // versioned without tables and legacy
    if let Ok(msg) = v0::Message::try_compile(&payer, &ixs, &[], Hash::default()) {
        let tx = VersionedTransaction {
            signatures: vec![Signature::default(); msg.header.num_required_signatures as usize],
            message: VersionedMessage::V0(msg),
        };
        let real = real_size(&tx);
        if let Ok(est) = guard(|| transaction_size_with_luts(payer, &ixs, true, None)) {
            if est < real {
                m.violation("C41:transaction_size_with_luts:estimate_below_real_size", wit(format!("estimate {est} < real {real} (v0, no tables)")));
            } else {
                m.count(if est == real { "estimator_v0_plain_exact" } else { "estimator_v0_plain_above" });
            }
        }
    }
    let legacy = solana_sdk::message::Message::new(&ixs, Some(&payer));
    let tx = solana_sdk::transaction::Transaction::new_unsigned(legacy);
    let real = bincode::serialize(&tx).map(|b| b.len()).unwrap_or(usize::MAX);
    for (name, est) in [
        ("transaction_size_with_luts", guard(|| transaction_size_with_luts(payer, &ixs, false, None))),
        ("transaction_size", guard(|| transaction_size(payer, &ixs, false, None, 0))),
    ] {
        if let Ok(est) = est {
            if est < real {
                m.violation(&format!("C41:{name}:estimate_below_real_size_legacy"), wit(format!("estimate {est} < real {real} (legacy)")));
            } else {
                m.count(if est == real { "estimator_legacy_exact" } else { "estimator_legacy_above" });
            }
        }
    }
}

/// Deterministic confirmation of the DESIGN §6 suspicion: a single atomic group that fits
/// `max_transaction_size` without the memo is accepted by `add` (which sizes it with default
/// options) although the transaction built with the group's memo option is larger than the limit.
pub fn memo_witness(m: &mut Monitor) {
    m.eval();
    let mut rng = Rng::new(0xC41);
    let payer = new_keypair(&mut rng);
    let program = new_pubkey(&mut rng);
    let ix = Instruction {
        program_id: program,
        accounts: vec![AccountMeta::new(new_pubkey(&mut rng), false)],
        data: vec![7u8; 600],
    };
    let ag = AtomicGroup::with_instructions(&payer.pubkey(), [ix]);
    let plain = ag.transaction_size(true, None, Default::default());
    let memo = "M".repeat(300);
    let options = TransactionGroupOptions { max_transaction_size: plain + 10, memo: Some(memo.clone()), ..Default::default() };
    let with_memo = ag.transaction_size(true, None, instruction_options(&options));
    let mut tg = TransactionGroup::with_options_and_luts(options.clone(), Default::default());
    let added = tg.add(ag).is_ok();
    let signers: TransactionSigners<Arc<Keypair>> = [payer.clone()].into_iter().collect();
    let sizes: Vec<usize> = tg
        .to_transactions(&signers, Hash::default(), false)
        .flat_map(|r| r.unwrap_or_default())
        .map(|tx| real_size(&tx))
        .collect();
    let w = json!({"payer": payer.pubkey().to_string(), "program": program.to_string(), "instruction_data_len": 600, "memo_len": 300,
                   "max_transaction_size": plain + 10, "estimate_default_options": plain, "estimate_with_memo": with_memo,
                   "add_accepted": added, "real_serialized_sizes": sizes,
                   "recipe": "AtomicGroup::with_instructions(payer,[ix(1 writable account, 600 data bytes)]); TransactionGroupOptions{max_transaction_size: estimate_default_options+10, memo: Some(300 x 'M'), ..Default}; add(); to_transactions()"});
    if added && sizes.iter().any(|s| *s > plain + 10) {
        m.count("memo_witness_reproduced");
        m.violation("C41:validate_one:memo_ignored", w);
    } else {
        m.count("memo_witness_not_reproduced");
        m.set_extra("memo_witness", w);
    }
}

pub fn run(args: &Args) -> i32 {
    let mut mon = Monitor::new(
        args,
        "cases: 1-7 parallel groups of 1-3 atomic groups (0-9 instructions each, unique serial in the data, \
         0-24 account metas incl. signers / payers / program ids, data 4-700 bytes around the compact-u16 \
         boundaries), random mergeable flags on both levels, 1-3 payers, 0-3 lookup tables (incl. tables holding \
         program ids / signers / unrelated keys), limits (size 200..1232 or aimed at a group's own estimate, \
         instruction count 1..14), memo none/short/long with optional memo signers, allow_payer_change, optimize \
         zero/one/two times; then built with solana-sdk and bincode. Plus direct estimator cases (v0 with tables, \
         v0 plain, legacy). non-trivial = a case with >= 2 accepted atomic groups (or a merge) whose transactions \
         were all built and compared; distinct = distinct output partitions x limits x case content",
    );
    let n_shards = 64u64;
    let per_shard = args.scale(10_000, 150_000);
    vcommon::monitor::run_shards(&mut mon, args.threads, n_shards, |shard, m| {
        if shard == 0 {
            memo_witness(m);
        }
        let mut rng = Rng::derive(args.seed, shard, 41);
        for i in 0..per_shard {
            if i % 4 == 3 {
                estimator_case(m, &mut rng);
            } else {
                packing_case(m, &mut rng);
            }
        }
    });
    for (k, n) in [
        ("add_ok", 1_000),
        ("add_rejected", 100),
        ("cases_with_merges", 500),
        ("cases_with_allowed_payer_change", 50),
        ("transactions_built", 2_000),
        ("transactions_with_memo", 300),
        ("transactions_using_lookup_tables", 200),
        ("transactions_within_40_bytes_of_limit", 20),
        ("estimator_cases_using_tables", 200),
        ("cases_fully_built", 500),
    ] {
        mon.require(k, n);
    }
    mon.assume("the real serialized size is bincode(VersionedTransaction) as produced by solana-sdk's v0 message compiler (the wire format)");
    mon.assume("max_instructions_per_tx ignores compute-budget instructions only (its doc comment); a memo instruction counts");
    mon.assume("panics of the packing code (none expected) are counted and abort the case; the property does not say 'never panics'");
    crate::miri::attach(args, &mut mon);
    mon.finish()
}
