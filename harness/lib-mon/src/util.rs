//! Small shared helpers (no code under test in here).
use vcommon::num_bigint::{BigInt, BigUint};
use vcommon::{Args, Monitor};

/// A monitor that is not tied to the command line (used by the Miri `#[test]` shards).
pub fn test_monitor(id: &str, seed: u64) -> Monitor {
    let args = Args {
        id: id.to_string(),
        tier: vcommon::monitor::Tier::Quick,
        seed,
        replay: None,
        verif_dir: std::env::temp_dir(),
        threads: 1,
        extra: Default::default(),
    };
    Monitor::new(&args, "miri shard")
}

/// Seed for the Miri shards: `LIBMON_MIRI_SEED` (needs `-Zmiri-disable-isolation`), default 1.
pub fn miri_seed() -> u64 {
    std::env::var("LIBMON_MIRI_SEED")
        .ok()
        .and_then(|s| s.trim().parse::<u64>().ok())
        .unwrap_or(1)
}

/// Number of cases for the Miri shards: `LIBMON_MIRI_CASES`, default `dflt`.
pub fn miri_cases(dflt: u64) -> u64 {
    std::env::var("LIBMON_MIRI_CASES")
        .ok()
        .and_then(|s| s.trim().parse::<u64>().ok())
        .unwrap_or(dflt)
}

pub fn hex(b: &[u8]) -> String {
    let mut s = String::with_capacity(b.len() * 2);
    for x in b {
        s.push_str(&format!("{x:02x}"));
    }
    s
}

pub fn big_u(x: u128) -> BigInt {
    BigInt::from(x)
}

/// 192-bit unsigned (three little-endian u64 limbs) to BigUint.
pub fn limbs_to_biguint(limbs: &[u64]) -> BigUint {
    let mut v = BigUint::from(0u8);
    for l in limbs.iter().rev() {
        v = (v << 64usize) + BigUint::from(*l);
    }
    v
}

/// BigUint (< 2^192) to three little-endian u64 limbs.
pub fn biguint_to_limbs3(x: &BigUint) -> [u64; 3] {
    let d = x.to_u64_digits();
    let mut out = [0u64; 3];
    for (i, l) in d.iter().take(3).enumerate() {
        out[i] = *l;
    }
    out
}

/// Record a non-trivial case for distinct counting, but at most `PER_SHARD_DISTINCT_CAP` per shard
/// monitor (memory bound; the evidence number is therefore a conservative lower bound, the
/// unrecorded remainder is visible as `nontrivial_beyond_per_shard_cap`).
pub const PER_SHARD_DISTINCT_CAP: u64 = 40_000;
pub fn nontrivial_capped(m: &mut Monitor, sig: &[u8]) {
    if m.counter("nontrivial_recorded") < PER_SHARD_DISTINCT_CAP {
        m.nontrivial(sig);
        m.count("nontrivial_recorded");
    } else {
        m.count("nontrivial_beyond_per_shard_cap");
    }
}
