//! C26 — price decimal conversion never rounds up and never silently truncates.
//!
//! Code under test (real, from /repo): `Decimal::try_from_price / to_unit_price / with_unit_price`,
//! `find_divisor_decimals / convert_to_u128_storage`, `pyth_price_value_to_decimal`,
//! `PriceFeedPrice::try_to_price / try_to_ref_price`.
//!
//! Meaning of the quantities (worked out from decimal.rs): a provider price `p` with `d` decimals is
//! `p / 10^d` USD per *whole* token; the unit price (USD per smallest token unit, 20 decimals) is
//! exactly `E = p * 10^(20 - d - td)`. A `Decimal` stores `value: u32` and a multiplier
//! `10^(20 - td - prec)`; that multiplier is one *precision step* of the unit price. Hence the
//! conversion must return `floor(E / step) * step`, i.e. `value = floor(p * 10^prec / 10^d)`, and
//! must fail when that value does not fit `u32` or when `d`, `td`, `prec` or `td + prec` exceed 20.
use gmsol_utils::oracle::pyth_price_value_to_decimal;
use gmsol_utils::price::{
    convert_to_u128_storage, find_divisor_decimals, Decimal, PriceFeedPrice, U192,
};
use gmsol_utils::token_config::TokenConfig;
use vcommon::big::{b, div_ceil, div_floor, pow10};
use vcommon::monitor::guard;
use vcommon::num_bigint::BigInt;
use vcommon::num_traits::{ToPrimitive, Zero};
use vcommon::{json, Args, Monitor, Rng};

use crate::util::{biguint_to_limbs3, limbs_to_biguint};

const MAXD: u32 = 20;

#[derive(Debug, Clone, PartialEq, Eq)]
pub enum Expect {
    /// Decimal settings beyond the supported maximum.
    ErrDecimals,
    /// The truncated value does not fit the 32-bit storage.
    ErrUnrepresentable,
    Ok { value: u32 },
}

/// Independent oracle for `try_from_price`.
pub fn expect_try_from_price(p: u128, d: u8, td: u8, prec: u8) -> Expect {
    let (d, td, prec) = (d as u32, td as u32, prec as u32);
    if d > MAXD || td > MAXD || prec > MAXD || td + prec > MAXD {
        return Expect::ErrDecimals;
    }
    let v = div_floor(&(b(p) * pow10(prec)), &pow10(d));
    match v.to_u32() {
        Some(value) => Expect::Ok { value },
        None => Expect::ErrUnrepresentable,
    }
}

fn witness(p: u128, d: u8, td: u8, prec: u8, got: &str) -> vcommon::serde_json::Value {
    json!({"price": p.to_string(), "decimals": d, "token_decimals": td, "precision": prec, "got": got,
           "expected": format!("{:?}", expect_try_from_price(p, d, td, prec))})
}

/// One oracle-checked `try_from_price` case.
pub fn check_try_from_price(m: &mut Monitor, p: u128, d: u8, td: u8, prec: u8) {
    m.eval();
    let exp = expect_try_from_price(p, d, td, prec);
    let r = guard(|| Decimal::try_from_price(p, d, td, prec));
    match d.cmp(&td) {
        std::cmp::Ordering::Less => m.count("class_price_decimals_lt_token_decimals"),
        std::cmp::Ordering::Equal => m.count("class_price_decimals_eq_token_decimals"),
        std::cmp::Ordering::Greater => m.count("class_price_decimals_gt_token_decimals"),
    }
    match (&exp, r) {
        (Expect::ErrDecimals, Ok(Err(_))) => m.count("err_unsupported_decimals"),
        (Expect::ErrUnrepresentable, Ok(Err(_))) => {
            m.count("err_unrepresentable");
            // boundary class: the first unrepresentable value
            if d as u32 <= MAXD {
                let v = div_floor(&(b(p) * pow10(prec as u32)), &pow10(d as u32));
                if v == b(u32::MAX) + 1 {
                    m.count("boundary_value_u32max_plus_1_rejected");
                }
            }
        }
        (Expect::ErrDecimals, Ok(Ok(dec))) => m.violation(
            "C26:try_from_price:accepts_unsupported_decimals",
            witness(p, d, td, prec, &format!("{dec:?}")),
        ),
        (Expect::ErrUnrepresentable, Ok(Ok(dec))) => m.violation(
            "C26:try_from_price:accepts_unrepresentable_price",
            witness(p, d, td, prec, &format!("{dec:?}")),
        ),
        (Expect::ErrDecimals | Expect::ErrUnrepresentable, Err(msg)) => {
            // The property asks for an error, a panic is an aborted transaction: counted.
            m.count("panics");
            m.count("panic_where_error_expected");
            if m.wants_sample() {
                m.sample(json!({"panic": msg, "case": witness(p, d, td, prec, "panic")}));
            }
        }
        (Expect::Ok { .. }, Ok(Err(e))) => m.violation(
            "C26:try_from_price:rejects_representable_price",
            witness(p, d, td, prec, &format!("Err({e})")),
        ),
        (Expect::Ok { .. }, Err(msg)) => {
            m.count("panics");
            m.violation(
                "C26:try_from_price:rejects_representable_price",
                witness(p, d, td, prec, &format!("panic: {msg}")),
            )
        }
        (Expect::Ok { value }, Ok(Ok(dec))) => {
            m.count("ok");
            // Semantic check in terms of the unit price, scaled by 10^(d+td) so that it is integral:
            //   exact   = p * 10^20
            //   result  = unit * 10^(d+td)
            //   step    = 10^(20-td-prec) * 10^(d+td)
            let unit = match guard(|| dec.to_unit_price()) {
                Ok(u) => u,
                Err(msg) => {
                    m.violation(
                        "C26:to_unit_price:panic",
                        witness(p, d, td, prec, &format!("{dec:?} panic: {msg}")),
                    );
                    return;
                }
            };
            let sh = pow10(d as u32 + td as u32);
            let exact = b(p) * pow10(MAXD);
            let res = b(unit) * &sh;
            let step_unit = pow10(MAXD - td as u32 - prec as u32);
            let step = &step_unit * &sh;
            if res > exact {
                m.violation(
                    "C26:try_from_price:rounds_up",
                    witness(p, d, td, prec, &format!("{dec:?} unit={unit}")),
                );
                return;
            }
            if &exact - &res >= step {
                m.violation(
                    "C26:try_from_price:error_not_below_one_step",
                    witness(p, d, td, prec, &format!("{dec:?} unit={unit}")),
                );
                return;
            }
            if !(b(unit) % &step_unit).is_zero() {
                m.violation(
                    "C26:try_from_price:not_truncated_to_configured_precision",
                    witness(p, d, td, prec, &format!("{dec:?} unit={unit}")),
                );
                return;
            }
            // Cross-check of the oracle's own closed form (harness self-check).
            if b(unit) != b(*value) * &step_unit {
                m.inconclusive("C26 oracle self-check failed: closed form differs from semantic bound");
            }
            if dec.decimal_multiplier as u32 != MAXD - td as u32 - prec as u32 {
                m.count("stored_multiplier_differs_from_configured_precision");
            }
            let truncated = res != exact;
            if truncated {
                m.count("ok_truncated");
            } else {
                m.count("ok_exact");
            }
            if *value == u32::MAX {
                m.count("boundary_value_u32max_accepted");
            }
            if *value == 0 {
                m.count("ok_value_zero");
                if p > 0 {
                    m.count("ok_nonzero_price_truncated_to_zero");
                }
            } else {
                let mut sig = Vec::with_capacity(20);
                sig.extend_from_slice(&p.to_le_bytes());
                sig.extend_from_slice(&[d, td, prec]);
                crate::util::nontrivial_capped(m, &sig);
                if m.wants_sample() && truncated && m.counter("sampled_conversions") < 3 {
                    m.count("sampled_conversions");
                    m.sample(json!({"price": p.to_string(), "decimals": d, "token_decimals": td,
                        "precision": prec, "value": dec.value, "multiplier": dec.decimal_multiplier,
                        "unit_price": unit.to_string()}));
                }
            }
        }
    }
}

/// `with_unit_price`: floor (or, when asked, ceil) to the multiplier; `None` iff it does not fit.
pub fn check_with_unit_price(m: &mut Monitor, value: u32, dm: u8, price: u128, round_up: bool) {
    m.eval();
    let base = Decimal {
        value,
        decimal_multiplier: dm,
    };
    let step = pow10(dm as u32);
    let q = if round_up {
        div_ceil(&b(price), &step)
    } else {
        div_floor(&b(price), &step)
    };
    let w = |got: String| json!({"base_value": value, "decimal_multiplier": dm, "price": price.to_string(), "round_up": round_up, "got": got});
    match guard(|| base.with_unit_price(price, round_up)) {
        Err(msg) => {
            m.count("panics");
            if q.to_u32().is_some() {
                m.violation("C26:with_unit_price:rejects_representable_price", w(format!("panic: {msg}")));
            }
        }
        Ok(None) => {
            if q.to_u32().is_some() {
                m.violation("C26:with_unit_price:rejects_representable_price", w("None".into()));
            } else {
                m.count("with_unit_price_none");
            }
        }
        Ok(Some(dec)) => {
            if q.to_u32().is_none() {
                m.violation("C26:with_unit_price:accepts_unrepresentable_price", w(format!("{dec:?}")));
                return;
            }
            let unit = b(dec.to_unit_price());
            let bad = if round_up {
                unit < b(price) || &unit - b(price) >= step
            } else {
                unit > b(price) || b(price) - &unit >= step
            };
            if bad || dec.decimal_multiplier != dm {
                m.violation(
                    if round_up { "C26:with_unit_price:wrong_rounding_up" } else { "C26:with_unit_price:wrong_truncation" },
                    w(format!("{dec:?}")),
                );
            } else {
                m.count(if round_up { "with_unit_price_ceil_ok" } else { "with_unit_price_floor_ok" });
            }
        }
    }
}

/// `convert_to_u128_storage`: divide by `10^k` (flooring) and reduce the decimals by `k`, where `k` is
/// the smallest exponent with `num <= u128::MAX * 10^k` (the semantics of the documented bound table,
/// pinned by the crate's own tests); `None` iff `k > decimals`. Note that this `k` is one larger than
/// strictly necessary in the narrow band `u128::MAX*10^j < num < 2^128*10^j` (counted as
/// `convert_storage_divisor_one_above_minimum`): one digit of precision is dropped there, the value
/// is still a floor (never above the exact number).
pub fn check_convert_storage(m: &mut Monitor, limbs: [u64; 3], decimals: u8) {
    m.eval();
    let n = BigInt::from(limbs_to_biguint(&limbs));
    let max = b(u128::MAX);
    let mut k = 0u32;
    while n > &max * pow10(k) {
        k += 1;
    }
    let mut k_min = 0u32;
    while div_floor(&n, &pow10(k_min)) > max {
        k_min += 1;
    }
    if k != k_min {
        m.count("convert_storage_divisor_one_above_minimum");
    }
    let num = U192::from_limbs(limbs);
    let w = |got: String| json!({"limbs_le": limbs.iter().map(|l| l.to_string()).collect::<Vec<_>>(), "decimals": decimals, "min_divisor_decimals": k, "got": got});
    match guard(|| (find_divisor_decimals(&num), convert_to_u128_storage(num, decimals))) {
        Err(msg) => {
            m.count("panics");
            m.violation("C26:convert_to_u128_storage:panic", w(msg));
        }
        Ok((fdd, got)) => {
            if fdd as u32 != k {
                m.violation("C26:find_divisor_decimals:differs_from_bound_table_semantics", w(format!("find_divisor_decimals={fdd}")));
                return;
            }
            let exp = if k > decimals as u32 {
                None
            } else {
                Some((div_floor(&n, &pow10(k)).to_u128().unwrap(), decimals - k as u8))
            };
            if got != exp {
                m.violation("C26:convert_to_u128_storage:mismatch", w(format!("{got:?} expected {exp:?}")));
            } else if got.is_some() {
                m.count(if k > 0 { "convert_storage_scaled_down" } else { "convert_storage_unscaled" });
            } else {
                m.count("convert_storage_none");
            }
        }
    }
}

/// Pyth adapter: exact price is `value * 10^exponent`.
pub fn check_pyth(m: &mut Monitor, value: u64, exponent: i32, td: u8, prec: u8) {
    m.eval();
    let mut cfg: TokenConfig = bytemuck::Zeroable::zeroed();
    cfg.token_decimals = td;
    cfg.precision = prec;
    let exp: Expect = if td as u32 > MAXD || prec as u32 > MAXD || td as u32 + prec as u32 > MAXD {
        Expect::ErrDecimals
    } else if exponent <= 0 {
        let dd = -(exponent as i64);
        if dd > MAXD as i64 {
            Expect::ErrDecimals
        } else {
            match div_floor(&(b(value) * pow10(prec as u32)), &pow10(dd as u32)).to_u32() {
                Some(value) => Expect::Ok { value },
                None => Expect::ErrUnrepresentable,
            }
        }
    } else if value == 0 {
        Expect::Ok { value: 0 }
    } else if exponent > 12 {
        Expect::ErrUnrepresentable
    } else {
        match (b(value) * pow10(exponent as u32 + prec as u32)).to_u32() {
            Some(value) => Expect::Ok { value },
            None => Expect::ErrUnrepresentable,
        }
    };
    let w = |got: String| json!({"value": value, "exponent": exponent, "token_decimals": td, "precision": prec, "expected": format!("{exp:?}"), "got": got});
    match (&exp, guard(|| pyth_price_value_to_decimal(value, exponent, &cfg))) {
        (_, Err(msg)) => {
            m.count("panics");
            m.count("pyth_panics");
            if matches!(exp, Expect::Ok { .. }) {
                m.violation("C26:pyth_price_value_to_decimal:rejects_representable_price", w(format!("panic: {msg}")));
            } else if m.wants_sample() && m.counter("sampled_pyth_panics") < 1 {
                m.count("sampled_pyth_panics");
                m.sample(w(format!("panic: {msg}")));
            }
        }
        (Expect::Ok { value: v }, Ok(Ok(dec))) => {
            if dec.value != *v || dec.decimal_multiplier as u32 != MAXD - td as u32 - prec as u32 {
                m.violation("C26:pyth_price_value_to_decimal:wrong_value", w(format!("{dec:?}")));
            } else {
                m.count("pyth_ok");
            }
        }
        (Expect::Ok { .. }, Ok(Err(e))) => {
            if value == 0 && exponent > 0 {
                // A zero price with a huge positive exponent is refused ("exponent too big"); zero is
                // representable, but refusing it is an error, not a wrong price: counted, not flagged.
                m.count("pyth_zero_value_positive_exponent_refused");
            } else {
                m.violation("C26:pyth_price_value_to_decimal:rejects_representable_price", w(format!("Err({e})")));
            }
        }
        (_, Ok(Err(_))) => m.count("pyth_err"),
        (_, Ok(Ok(dec))) => m.violation("C26:pyth_price_value_to_decimal:accepts_unsupported", w(format!("{dec:?}"))),
    }
}

/// The two thin wrappers on a stored feed price.
pub fn check_feed_wrappers(m: &mut Monitor, d: u8, td: u8, prec: u8, price: u128, min: u128, max: u128) {
    m.eval();
    let mut cfg: TokenConfig = bytemuck::Zeroable::zeroed();
    cfg.token_decimals = td;
    cfg.precision = prec;
    let fp = PriceFeedPrice::new(d, 0, price, min, max, 0);
    let e_min = expect_try_from_price(min, d, td, prec);
    let e_max = expect_try_from_price(max, d, td, prec);
    let e_ref = expect_try_from_price(price, d, td, prec);
    let w = |got: String| json!({"decimals": d, "token_decimals": td, "precision": prec, "price": price.to_string(), "min": min.to_string(), "max": max.to_string(), "got": got});
    let val = |e: &Expect| match e {
        Expect::Ok { value } => Some(*value),
        _ => None,
    };
    match guard(|| fp.try_to_price(&cfg)) {
        Err(msg) => {
            m.count("panics");
            if val(&e_min).is_some() && val(&e_max).is_some() {
                m.violation("C26:try_to_price:rejects_representable_price", w(format!("panic: {msg}")));
            }
        }
        Ok(Ok(p)) => {
            if Some(p.min.value) != val(&e_min) || Some(p.max.value) != val(&e_max) {
                m.violation("C26:try_to_price:wrong_value", w(format!("{p:?} expected {e_min:?} {e_max:?}")));
            } else {
                m.count("try_to_price_ok");
            }
        }
        Ok(Err(e)) => {
            if val(&e_min).is_some() && val(&e_max).is_some() {
                m.violation("C26:try_to_price:rejects_representable_price", w(format!("Err({e})")));
            } else {
                m.count("try_to_price_err");
            }
        }
    }
    match guard(|| fp.try_to_ref_price(&cfg)) {
        Err(msg) => {
            m.count("panics");
            if val(&e_ref).is_some() {
                m.violation("C26:try_to_ref_price:rejects_representable_price", w(format!("panic: {msg}")));
            }
        }
        Ok(Ok(p)) => {
            if Some(p.value) != val(&e_ref) {
                m.violation("C26:try_to_ref_price:wrong_value", w(format!("{p:?} expected {e_ref:?}")));
            }
        }
        Ok(Err(e)) => {
            if val(&e_ref).is_some() {
                m.violation("C26:try_to_ref_price:rejects_representable_price", w(format!("Err({e})")));
            }
        }
    }
}

// ---------------------------------------------------------------------------------------------
// generators

pub fn gen_decimals(rng: &mut Rng) -> u8 {
    match rng.below(12) {
        0..=6 => rng.range(0, 20) as u8,
        7 => rng.range(0, 23) as u8,
        8 => *rng.pick(&[0u8, 1, 2, 18, 19, 20, 21, 22, 30, 38, 39, 100, 127, 128, 200, 235, 236, 245, 255]),
        9 => rng.range(0, 255) as u8,
        _ => rng.range(14, 22) as u8,
    }
}

pub fn gen_triple(rng: &mut Rng) -> (u8, u8, u8) {
    if rng.chance(3, 5) {
        // supported by construction (mostly): td + prec <= 20 (+1 sometimes)
        let td = rng.range(0, 20) as u8;
        let mut prec = rng.range(0, 20 - td as u64) as u8;
        if rng.chance(1, 12) {
            prec = prec.saturating_add(1);
        }
        (rng.range(0, 20) as u8, td, prec)
    } else {
        (gen_decimals(rng), gen_decimals(rng), gen_decimals(rng))
    }
}

fn pow10_u128(e: u32) -> Option<u128> {
    10u128.checked_pow(e)
}

pub fn gen_price(rng: &mut Rng, d: u8, prec: u8) -> u128 {
    match rng.below(10) {
        0..=3 => {
            // aimed at a chosen stored value V (in particular the u32 boundary)
            let v: u128 = match rng.below(8) {
                0 => u32::MAX as u128,
                1 => u32::MAX as u128 + 1,
                2 => u32::MAX as u128 - 1,
                3 => 1,
                4 => 10u128.pow(rng.range(0, 9) as u32),
                5 => rng.range(0, 10) as u128,
                _ => rng.next_u64() as u32 as u128,
            };
            if d >= prec {
                match pow10_u128((d - prec) as u32) {
                    Some(scale) => {
                        let r = match rng.below(5) {
                            0 => 0,
                            1 => scale - 1,
                            2 => 1.min(scale - 1),
                            3 => scale / 2,
                            _ => rng.below_u128(scale),
                        };
                        v.checked_mul(scale).and_then(|x| x.checked_add(r)).unwrap_or(u128::MAX)
                    }
                    None => rng.next_u128(),
                }
            } else {
                match pow10_u128((prec - d) as u32) {
                    Some(scale) => {
                        let base = v.div_ceil(scale);
                        match rng.below(3) {
                            0 => base,
                            1 => base.saturating_sub(1),
                            _ => base + 1,
                        }
                    }
                    None => rng.below(3) as u128,
                }
            }
        }
        4 => rng.biased_u128(u128::MAX, pow10_u128((d as u32).min(38)).unwrap_or(1)),
        5 => *rng.pick(&[
            0u128,
            1,
            9,
            10,
            u32::MAX as u128,
            u32::MAX as u128 + 1,
            u64::MAX as u128,
            u64::MAX as u128 + 1,
            u128::MAX,
            u128::MAX - 1,
            u128::MAX / 10,
            u128::MAX / 10 + 1,
            10u128.pow(38),
            10u128.pow(38) - 1,
            3 * 10u128.pow(38),
        ]),
        6 => rng.next_u128(),
        _ => rng.log_u128(u128::MAX),
    }
}

fn gen_u192(rng: &mut Rng) -> [u64; 3] {
    use vcommon::num_bigint::BigUint;
    match rng.below(5) {
        0 => {
            // around (2^128) * 10^i - 1, the documented bounds
            let i = rng.range(0, 20) as u32;
            let base = (BigUint::from(1u8) << 128usize) * BigUint::from(10u8).pow(i);
            let delta = BigUint::from(rng.range(0, 3));
            let x = if rng.bool() { base + delta } else { base - delta };
            let lim = (BigUint::from(1u8) << 192usize) - BigUint::from(1u8);
            biguint_to_limbs3(&x.min(lim))
        }
        1 => [rng.next_u64(), rng.next_u64(), rng.next_u64()],
        2 => [u64::MAX, u64::MAX, if rng.bool() { u64::MAX } else { 0 }],
        3 => [rng.next_u64(), rng.next_u64(), rng.log_u64(u64::MAX)],
        _ => [rng.next_u64(), rng.log_u64(u64::MAX), 0],
    }
}

pub fn random_case(m: &mut Monitor, rng: &mut Rng) {
    match rng.below(20) {
        0..=13 => {
            let (d, td, prec) = gen_triple(rng);
            let p = gen_price(rng, d, prec);
            check_try_from_price(m, p, d, td, prec);
        }
        14 | 15 => {
            let dm = rng.range(0, 20) as u8;
            let step = 10u128.pow(dm as u32);
            let price = match rng.below(4) {
                0 => {
                    let v = *rng.pick(&[0u128, 1, u32::MAX as u128 - 1, u32::MAX as u128, u32::MAX as u128 + 1]);
                    let r = *rng.pick(&[0u128, 1, step - 1, step / 2]);
                    (v * step).saturating_add(r.min(step - 1))
                }
                1 => rng.next_u128(),
                _ => rng.biased_u128(u128::MAX, step),
            };
            check_with_unit_price(m, rng.next_u64() as u32, dm, price, rng.bool());
        }
        16 => {
            let l = gen_u192(rng);
            check_convert_storage(m, l, rng.range(0, 30) as u8);
        }
        17 | 18 => {
            let exponent = match rng.below(8) {
                0 => *rng.pick(&[i32::MIN, i32::MIN + 1, i32::MAX, -256, -255, -21, -20, 0, 1, 9, 10, 19, 20, 38, 39]),
                1 => rng.range_i64(i32::MIN as i64, i32::MAX as i64) as i32,
                2 => rng.range_i64(0, 22) as i32,
                _ => rng.range_i64(-22, 2) as i32,
            };
            let (_, td, prec) = gen_triple(rng);
            let d = if exponent <= 0 && exponent >= -38 { (-exponent) as u8 } else { 0 };
            let value = gen_price(rng, d, prec).min(u64::MAX as u128) as u64;
            let value = if rng.chance(1, 10) { rng.biased_u64(u64::MAX, 1_000_000) } else { value };
            check_pyth(m, value, exponent, td, prec);
        }
        _ => {
            let (d, td, prec) = gen_triple(rng);
            let p = gen_price(rng, d, prec);
            let lo = gen_price(rng, d, prec);
            let hi = gen_price(rng, d, prec);
            check_feed_wrappers(m, d, td, prec, p, lo, hi);
        }
    }
}

/// Deterministic sweep: every (d, td, prec) in 0..=23 for one `d`, with boundary prices.
pub fn sweep(m: &mut Monitor, d: u8) {
    for td in 0u8..=23 {
        for prec in 0u8..=23 {
            let mut prices: Vec<u128> = vec![0, 1, 9, 10, 11, u32::MAX as u128, u32::MAX as u128 + 1, u64::MAX as u128, u128::MAX, u128::MAX - 1, u128::MAX / 10];
            for v in [1u128, u32::MAX as u128 - 1, u32::MAX as u128, u32::MAX as u128 + 1] {
                if d >= prec {
                    if let Some(scale) = pow10_u128((d - prec) as u32) {
                        if let Some(x) = v.checked_mul(scale) {
                            prices.push(x);
                            prices.push(x.saturating_add(scale - 1));
                            prices.push(x.saturating_sub(1));
                        }
                    }
                } else if let Some(scale) = pow10_u128((prec - d) as u32) {
                    let base = v.div_ceil(scale);
                    prices.push(base);
                    prices.push(base.saturating_sub(1));
                    prices.push(base + 1);
                }
            }
            for p in prices {
                check_try_from_price(m, p, d, td, prec);
            }
        }
    }
}

pub fn run(args: &Args) -> i32 {
    let mut mon = Monitor::new(
        args,
        "inputs: (price u128, price decimals, token decimals, precision) from a deterministic sweep of all \
         decimals 0..=23 with boundary prices plus seeded boundary-biased random cases (prices aimed at chosen \
         stored values incl. u32::MAX and u32::MAX+1, powers of ten, type limits; decimals incl. > 20 and u8 \
         extremes); also with_unit_price, convert_to_u128_storage (U192), the Pyth adapter and the feed-price \
         wrappers. non-trivial = try_from_price succeeded with a non-zero stored value (exact BigInt oracle \
         compared); distinct = distinct (price, decimals, token decimals, precision) tuples",
    );
    let n_shards = 64u64;
    let per_shard = args.scale(2_000_000, 24_000_000);
    vcommon::monitor::run_shards(&mut mon, args.threads, n_shards, |shard, m| {
        if shard < 24 {
            sweep(m, shard as u8);
        }
        let mut rng = Rng::derive(args.seed, shard, 26);
        for _ in 0..per_shard {
            random_case(m, &mut rng);
        }
    });
    mon.require("ok", 10_000);
    mon.require("ok_truncated", 1_000);
    mon.require("err_unsupported_decimals", 1_000);
    mon.require("err_unrepresentable", 1_000);
    mon.require("boundary_value_u32max_accepted", 50);
    mon.require("boundary_value_u32max_plus_1_rejected", 50);
    mon.require("with_unit_price_floor_ok", 100);
    mon.require("convert_storage_scaled_down", 100);
    mon.require("pyth_ok", 100);
    mon.assume("exact unit price of a provider price p with d decimals for a token with td decimals is p*10^(20-d-td); one precision step is 10^(20-td-prec)");
    mon.assume("a panic where the property asks for an error (e.g. pyth exponent i32::MIN) is counted, not flagged: the property does not say 'never panics'");
    crate::miri::attach(args, &mut mon);
    mon.finish()
}

#[cfg(test)]
mod tests {
    use super::*;

    /// Miri shard: a few hundred conversions through the real code (ruint division, u128 paths).
    #[test]
    fn miri_c26_conversions() {
        let seed = crate::util::miri_seed();
        let mut m = crate::util::test_monitor("C26", seed);
        let mut rng = Rng::derive(seed, 0, 2600);
        for _ in 0..crate::util::miri_cases(200) {
            random_case(&mut m, &mut rng);
        }
        for td in [0u8, 8, 20, 21] {
            for prec in [0u8, 4, 12, 20] {
                check_try_from_price(&mut m, u32::MAX as u128, 0, td, prec);
            }
        }
        assert!(!m.has_violations(), "{m:?}");
    }
}
