#!/usr/bin/env bash
# /verif/harness/miri.sh <ID> <out.json>
#
# Runs the Miri shard of property <ID> (C26, C27, C28, C34): the `#[test]` mini workloads named
# `miri_<id>_*` inside the lib-mon crate (same check functions as the native monitors, a few hundred
# operations each) under `cargo +nightly miri test`, as several processes in parallel with different
# workload seeds (LIBMON_MIRI_SEED) and Miri seeds. Writes a JSON summary:
#   {ran, tests, ub_reports, failed, timed_out, procs, seeds, build_s, run_s, reason, log_tail}
# `lib-mon <ID> --miri <out.json>` folds it into the evidence (ub_reports > 0 ⇒ violation
# `<ID>:miri:ub`; could not build / timed out ⇒ Miri part inconclusive, the run is not failed).
#
# Bounds: build phase ≤ MIRI_BUILD_TIMEOUT s (default 1500; a no-op when the Miri artefacts exist),
# run phase ≤ MIRI_RUN_TIMEOUT s per process (default 230), MIRI_PROCS processes (default 6).
# Environment: CARGO_TARGET_DIR (default /verif/harness/target), VERIF_SEED (base of the seeds),
# LIBMON_MIRI_CASES (cases per test, default chosen per test).
# Exit code: always 0 once the summary is written (2 on usage error).
set -u
ID="${1:-}"
OUT="${2:-}"
if [ -z "$ID" ] || [ -z "$OUT" ]; then
  echo "usage: $0 <ID> <out.json>" >&2
  exit 2
fi
HERE="$(cd "$(dirname "${BASH_SOURCE[0]}")" && pwd)"
export CARGO_TARGET_DIR="${CARGO_TARGET_DIR:-$HERE/target}"
export CARGO_NET_OFFLINE=true
BUILD_TIMEOUT="${MIRI_BUILD_TIMEOUT:-1500}"
RUN_TIMEOUT="${MIRI_RUN_TIMEOUT:-230}"
PROCS="${MIRI_PROCS:-6}"
BASE_SEED="${VERIF_SEED:-1}"
FILTER="miri_$(echo "$ID" | tr 'A-Z' 'a-z')_"
WORK="$(mktemp -d "${TMPDIR:-/tmp}/libmon-miri-$ID-XXXXXX")"
trap 'rm -rf "$WORK"' EXIT

summary() { # ran tests ub failed timed_out reason build_s run_s
  python3 - "$OUT" "$WORK" "$@" <<'PY'
import json, sys, glob, os
out, work, ran, tests, ub, failed, timed_out, reason, build_s, run_s, procs, seeds = sys.argv[1:13]
tail = []
for f in sorted(glob.glob(os.path.join(work, "*.log"))):
    try:
        lines = open(f, errors="replace").read().splitlines()
    except Exception:
        continue
    interesting = [l for l in lines if "Undefined Behavior" in l or l.startswith("error") or "test result" in l or "panicked" in l]
    tail.append("== " + os.path.basename(f))
    tail.extend(interesting[-12:] if interesting else lines[-6:])
json.dump({
    "ran": ran == "true", "tests": int(tests), "ub_reports": int(ub), "failed": int(failed),
    "timed_out": int(timed_out), "procs": int(procs), "seeds": seeds, "reason": reason,
    "build_s": float(build_s), "run_s": float(run_s), "filter": os.environ.get("MIRI_FILTER", ""),
    "log_tail": "\n".join(tail)[-6000:],
}, open(out, "w"), indent=1)
PY
}
export MIRI_FILTER="$FILTER"

case "$ID" in
  C26|C27|C28|C34) ;;
  *)
    summary false 0 0 0 0 "no Miri shard for $ID" 0 0 0 ""
    exit 0 ;;
esac

cd "$HERE" || exit 2
t0=$(date +%s)
# ---- build phase (shared by all processes)
MIRIFLAGS="-Zmiri-disable-isolation" timeout "$BUILD_TIMEOUT" \
  cargo +nightly miri test -p lib-mon --no-run >"$WORK/build.log" 2>&1
rc=$?
t1=$(date +%s)
if [ $rc -ne 0 ]; then
  reason="miri build failed (rc=$rc)"
  [ $rc -eq 124 ] && reason="miri build timed out after ${BUILD_TIMEOUT}s"
  summary false 0 0 0 0 "$reason" $((t1 - t0)) 0 0 ""
  exit 0
fi

# ---- run phase
pids=()
seeds=()
for i in $(seq 1 "$PROCS"); do
  s=$((BASE_SEED * 100 + i))
  seeds+=("$s")
  (
    LIBMON_MIRI_SEED="$s" MIRIFLAGS="-Zmiri-disable-isolation -Zmiri-seed=$s" \
      timeout "$RUN_TIMEOUT" cargo +nightly miri test -p lib-mon -- "$FILTER" >"$WORK/run-$s.log" 2>&1
    echo $? >"$WORK/run-$s.rc"
  ) &
  pids+=($!)
done
for p in "${pids[@]}"; do wait "$p"; done
t2=$(date +%s)

tests=0; ub=0; failed=0; timed_out=0
for s in "${seeds[@]}"; do
  rc=$(cat "$WORK/run-$s.rc" 2>/dev/null || echo 1)
  n=$(grep -E "^test result:" "$WORK/run-$s.log" | sed -E 's/.* ([0-9]+) passed; ([0-9]+) failed.*/\1 \2/' | awk '{a+=$1+$2} END {print a+0}')
  u=$(grep -c "Undefined Behavior" "$WORK/run-$s.log" || true)
  tests=$((tests + n))
  ub=$((ub + u))
  if [ "$rc" = "124" ]; then
    timed_out=$((timed_out + 1))
  elif [ "$rc" != "0" ] && [ "$u" = "0" ]; then
    failed=$((failed + 1))
  fi
done
ran=true
reason=""
if [ "$tests" -eq 0 ] && [ "$ub" -eq 0 ]; then
  ran=false
  reason="no Miri test completed (failed=$failed timed_out=$timed_out)"
fi
summary "$ran" "$tests" "$ub" "$failed" "$timed_out" "$reason" $((t1 - t0)) $((t2 - t1)) "$PROCS" "$(IFS=,; echo "${seeds[*]}")"
exit 0
