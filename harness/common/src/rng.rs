//! Deterministic PRNG (xoshiro256**, seeded through SplitMix64) and boundary-biased generators.

#[derive(Clone, Debug)]
pub struct Rng {
    s: [u64; 4],
}

fn splitmix(x: &mut u64) -> u64 {
    *x = x.wrapping_add(0x9E37_79B9_7F4A_7C15);
    let mut z = *x;
    z = (z ^ (z >> 30)).wrapping_mul(0xBF58_476D_1CE4_E5B9);
    z = (z ^ (z >> 27)).wrapping_mul(0x94D0_49BB_1331_11EB);
    z ^ (z >> 31)
}

impl Rng {
    pub fn new(seed: u64) -> Self {
        let mut x = seed;
        let s = [
            splitmix(&mut x),
            splitmix(&mut x),
            splitmix(&mut x),
            splitmix(&mut x),
        ];
        Self { s }
    }

    /// Derive an independent stream (for shard / case indices).
    pub fn derive(seed: u64, a: u64, b: u64) -> Self {
        let mut x = seed ^ a.wrapping_mul(0xA24B_AED4_963E_E407) ^ b.wrapping_mul(0x9FB2_1C65_1E98_DF25);
        let _ = splitmix(&mut x);
        Self::new(splitmix(&mut x) ^ a.rotate_left(17) ^ b.rotate_left(41))
    }

    pub fn next_u64(&mut self) -> u64 {
        let r = self.s[1].wrapping_mul(5).rotate_left(7).wrapping_mul(9);
        let t = self.s[1] << 17;
        self.s[2] ^= self.s[0];
        self.s[3] ^= self.s[1];
        self.s[1] ^= self.s[2];
        self.s[0] ^= self.s[3];
        self.s[2] ^= t;
        self.s[3] = self.s[3].rotate_left(45);
        r
    }

    pub fn next_u128(&mut self) -> u128 {
        ((self.next_u64() as u128) << 64) | self.next_u64() as u128
    }

    /// Uniform in `0..n` (n > 0).
    pub fn below(&mut self, n: u64) -> u64 {
        debug_assert!(n > 0);
        // Multiply-shift; bias is irrelevant for workloads.
        ((self.next_u64() as u128 * n as u128) >> 64) as u64
    }

    pub fn below_u128(&mut self, n: u128) -> u128 {
        if n == 0 {
            return 0;
        }
        self.next_u128() % n
    }

    /// Uniform in `lo..=hi`.
    pub fn range(&mut self, lo: u64, hi: u64) -> u64 {
        if hi <= lo {
            return lo;
        }
        let span = hi - lo;
        if span == u64::MAX {
            return self.next_u64();
        }
        lo + self.below(span + 1)
    }

    pub fn range_u128(&mut self, lo: u128, hi: u128) -> u128 {
        if hi <= lo {
            return lo;
        }
        let span = hi - lo;
        if span == u128::MAX {
            return self.next_u128();
        }
        lo + self.below_u128(span + 1)
    }

    pub fn range_i64(&mut self, lo: i64, hi: i64) -> i64 {
        if hi <= lo {
            return lo;
        }
        let span = (hi as i128 - lo as i128) as u128;
        (lo as i128 + self.below_u128(span + 1) as i128) as i64
    }

    pub fn bool(&mut self) -> bool {
        self.next_u64() & 1 == 1
    }

    /// True with probability `num/den`.
    pub fn chance(&mut self, num: u64, den: u64) -> bool {
        self.below(den) < num
    }

    pub fn pick<'a, T>(&mut self, xs: &'a [T]) -> &'a T {
        &xs[self.below(xs.len() as u64) as usize]
    }

    /// Weighted choice: returns the index.
    pub fn weighted(&mut self, weights: &[u32]) -> usize {
        let total: u64 = weights.iter().map(|w| *w as u64).sum();
        let mut x = self.below(total.max(1));
        for (i, w) in weights.iter().enumerate() {
            if x < *w as u64 {
                return i;
            }
            x -= *w as u64;
        }
        weights.len() - 1
    }

    pub fn bytes(&mut self, n: usize) -> Vec<u8> {
        let mut v = Vec::with_capacity(n);
        while v.len() < n {
            let x = self.next_u64().to_le_bytes();
            let k = (n - v.len()).min(8);
            v.extend_from_slice(&x[..k]);
        }
        v
    }

    pub fn fill(&mut self, buf: &mut [u8]) {
        let v = self.bytes(buf.len());
        buf.copy_from_slice(&v);
    }

    /// Log-uniform magnitude in `0..=max` (every bit length equally likely).
    pub fn log_u128(&mut self, max: u128) -> u128 {
        if max == 0 {
            return 0;
        }
        let bits = 128 - max.leading_zeros() as u64;
        let b = self.range(0, bits);
        if b == 0 {
            return 0;
        }
        let hi = if b == 128 { u128::MAX } else { (1u128 << b) - 1 };
        let lo = 1u128 << (b - 1);
        self.range_u128(lo, hi).min(max)
    }

    pub fn log_u64(&mut self, max: u64) -> u64 {
        self.log_u128(max as u128) as u64
    }

    /// Boundary-biased u128 in `0..=max`: mixes uniform, log-uniform, the type boundaries and
    /// values near `unit` multiples.
    pub fn biased_u128(&mut self, max: u128, unit: u128) -> u128 {
        let v = match self.below(10) {
            0 => {
                let b = [
                    0u128,
                    1,
                    2,
                    unit.wrapping_sub(1),
                    unit,
                    unit.wrapping_add(1),
                    max / 2,
                    max / 2 + 1,
                    max.wrapping_sub(1),
                    max,
                ];
                *self.pick(&b)
            }
            1 => self.range_u128(0, max),
            2 => {
                // near a multiple of the unit
                if unit == 0 {
                    self.log_u128(max)
                } else {
                    let k = self.log_u128((max / unit).max(1));
                    let base = k.saturating_mul(unit);
                    let d = self.range_u128(0, 2);
                    if self.bool() {
                        base.saturating_add(d)
                    } else {
                        base.saturating_sub(d)
                    }
                }
            }
            3 => {
                // near a power of two
                let b = self.range(0, 127) as u32;
                let base = 1u128 << b;
                let d = self.range_u128(0, 2);
                if self.bool() {
                    base.saturating_add(d)
                } else {
                    base.saturating_sub(d)
                }
            }
            4 => {
                // near a power of ten
                let e = self.range(0, 38) as u32;
                let base = 10u128.pow(e);
                let d = self.range_u128(0, 2);
                if self.bool() {
                    base.saturating_add(d)
                } else {
                    base.saturating_sub(d)
                }
            }
            _ => self.log_u128(max),
        };
        v.min(max)
    }

    pub fn biased_u64(&mut self, max: u64, unit: u64) -> u64 {
        self.biased_u128(max as u128, unit as u128) as u64
    }

    pub fn biased_i128(&mut self, unit: u128) -> i128 {
        let m = self.biased_u128(i128::MAX as u128 + 1, unit);
        if self.bool() {
            if m > i128::MAX as u128 {
                i128::MIN
            } else {
                -(m as i128)
            }
        } else {
            m.min(i128::MAX as u128) as i128
        }
    }

    pub fn biased_i64(&mut self, unit: u64) -> i64 {
        let m = self.biased_u128(i64::MAX as u128 + 1, unit as u128);
        if self.bool() {
            if m > i64::MAX as u128 {
                i64::MIN
            } else {
                -(m as i64)
            }
        } else {
            m.min(i64::MAX as u128) as i64
        }
    }

    pub fn shuffle<T>(&mut self, xs: &mut [T]) {
        for i in (1..xs.len()).rev() {
            let j = self.below(i as u64 + 1) as usize;
            xs.swap(i, j);
        }
    }
}

/// FNV-1a, for cheap deterministic signatures (never `std::collections::hash_map::RandomState`).
pub fn fnv(bytes: &[u8]) -> u64 {
    let mut h: u64 = 0xcbf2_9ce4_8422_2325;
    for b in bytes {
        h ^= *b as u64;
        h = h.wrapping_mul(0x0000_0100_0000_01B3);
    }
    h
}
