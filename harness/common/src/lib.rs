//! Shared plumbing for the runtime monitors: deterministic PRNG, biased integer generators,
//! BigInt helpers, the three-valued verdict / evidence writer and the known-findings filter.
//!
//! Nothing in here looks at the code under test.

pub mod big;
pub mod monitor;
pub mod rng;

pub use monitor::{Args, Monitor, Verdict};
pub use rng::Rng;

pub use num_bigint;
pub use num_integer;
pub use num_traits;
pub use serde_json;
pub use serde_json::json;
