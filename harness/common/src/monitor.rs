//! Verdict bookkeeping: what the monitors observed, evidence file, replay files, known findings.
//!
//! Verdicts are three-valued: `violated` (an oracle disagreed; witness written to a replay file),
//! `held` (all observed cases agreed and the minimum observation thresholds were met) and
//! `inconclusive` (harness error, watchdog, too few non-trivial observations). Inconclusive never
//! prints `VIOLATION` and exits 0.

use crate::rng::fnv;
use serde_json::{json, Map, Value};
use std::{
    cell::Cell,
    collections::{BTreeMap, BTreeSet},
    panic::{catch_unwind, AssertUnwindSafe},
    path::PathBuf,
    sync::Once,
    time::Instant,
};

#[derive(Clone, Copy, Debug, PartialEq, Eq)]
pub enum Tier {
    Quick,
    Thorough,
}

impl Tier {
    pub fn as_str(&self) -> &'static str {
        match self {
            Tier::Quick => "quick",
            Tier::Thorough => "thorough",
        }
    }
}

#[derive(Clone, Debug, PartialEq, Eq)]
pub enum Verdict {
    Held,
    Violated,
    Inconclusive,
}

#[derive(Clone, Debug)]
pub struct Args {
    pub id: String,
    pub tier: Tier,
    pub seed: u64,
    pub replay: Option<PathBuf>,
    pub verif_dir: PathBuf,
    pub threads: usize,
    /// Extra `--key value` options.
    pub extra: BTreeMap<String, String>,
}

impl Args {
    /// `<bin> <ID> [--tier quick|thorough] [--replay file] [--threads n] [--key value ...]`
    /// Environment: `VERIF_SEED`, `VERIF_TIER`, `VERIF_DIR`, `VERIF_THREADS`.
    pub fn parse() -> Args {
        let mut it = std::env::args().skip(1);
        let id = it.next().unwrap_or_else(|| {
            eprintln!("usage: <bin> <ID> [--tier quick|thorough] [--replay file]");
            std::process::exit(2)
        });
        let mut tier = match std::env::var("VERIF_TIER").ok().as_deref() {
            Some("thorough") => Tier::Thorough,
            _ => Tier::Quick,
        };
        let mut seed: u64 = std::env::var("VERIF_SEED")
            .ok()
            .and_then(|s| s.trim().parse::<i128>().ok())
            .map(|v| v as u64)
            .unwrap_or(1);
        let mut replay = None;
        let mut threads: usize = std::env::var("VERIF_THREADS")
            .ok()
            .and_then(|s| s.parse().ok())
            .unwrap_or_else(|| {
                std::thread::available_parallelism()
                    .map(|n| n.get())
                    .unwrap_or(4)
            });
        let mut extra = BTreeMap::new();
        while let Some(a) = it.next() {
            match a.as_str() {
                "--tier" => {
                    tier = match it.next().as_deref() {
                        Some("thorough") => Tier::Thorough,
                        _ => Tier::Quick,
                    }
                }
                "--replay" => replay = it.next().map(PathBuf::from),
                "--seed" => {
                    if let Some(s) = it.next().and_then(|s| s.parse::<i128>().ok()) {
                        seed = s as u64
                    }
                }
                "--threads" => {
                    if let Some(n) = it.next().and_then(|s| s.parse().ok()) {
                        threads = n
                    }
                }
                k if k.starts_with("--") => {
                    let v = it.next().unwrap_or_default();
                    extra.insert(k[2..].to_string(), v);
                }
                _ => {}
            }
        }
        let verif_dir = std::env::var("VERIF_DIR")
            .map(PathBuf::from)
            .unwrap_or_else(|_| PathBuf::from("/verif"));
        let mut args = Args {
            id,
            tier,
            seed,
            replay,
            verif_dir,
            threads: threads.max(1),
            extra,
        };
        // A replay file pins seed and tier.
        if let Some(p) = args.replay.clone() {
            if let Ok(s) = std::fs::read_to_string(&p) {
                if let Ok(v) = serde_json::from_str::<Value>(&s) {
                    if let Some(x) = v.get("seed").and_then(|x| x.as_u64()) {
                        args.seed = x;
                    }
                    if let Some(t) = v.get("tier").and_then(|x| x.as_str()) {
                        args.tier = if t == "thorough" {
                            Tier::Thorough
                        } else {
                            Tier::Quick
                        };
                    }
                }
            }
        }
        args
    }

    /// Pick a workload size by tier.
    pub fn scale(&self, quick: u64, thorough: u64) -> u64 {
        match self.tier {
            Tier::Quick => quick,
            Tier::Thorough => thorough,
        }
    }

    pub fn is_thorough(&self) -> bool {
        self.tier == Tier::Thorough
    }
}

const MAX_SAMPLES: usize = 8;
const MAX_WITNESSES: usize = 64;
const MAX_DISTINCT: usize = 2_000_000;

#[derive(Debug)]
pub struct Monitor {
    pub id: String,
    pub tier: Tier,
    pub seed: u64,
    pub verif_dir: PathBuf,
    pub rule: String,
    pub assumptions: Vec<String>,
    pub evaluations: u64,
    distinct: BTreeSet<u64>,
    distinct_overflow: u64,
    counters: BTreeMap<String, u64>,
    samples: Vec<Value>,
    /// signature -> (hits, first witness)
    violations: BTreeMap<String, (u64, Value)>,
    inconclusive: Vec<String>,
    requirements: Vec<(String, u64)>,
    extra: Map<String, Value>,
    start: Instant,
}

impl Monitor {
    pub fn new(args: &Args, rule: &str) -> Self {
        Self {
            id: args.id.clone(),
            tier: args.tier,
            seed: args.seed,
            verif_dir: args.verif_dir.clone(),
            rule: rule.to_string(),
            assumptions: vec![],
            evaluations: 0,
            distinct: BTreeSet::new(),
            distinct_overflow: 0,
            counters: BTreeMap::new(),
            samples: vec![],
            violations: BTreeMap::new(),
            inconclusive: vec![],
            requirements: vec![],
            extra: Map::new(),
            start: Instant::now(),
        }
    }

    /// A fresh monitor for a shard (same identity, empty observations).
    pub fn child(&self) -> Self {
        Self {
            id: self.id.clone(),
            tier: self.tier,
            seed: self.seed,
            verif_dir: self.verif_dir.clone(),
            rule: self.rule.clone(),
            assumptions: vec![],
            evaluations: 0,
            distinct: BTreeSet::new(),
            distinct_overflow: 0,
            counters: BTreeMap::new(),
            samples: vec![],
            violations: BTreeMap::new(),
            inconclusive: vec![],
            requirements: vec![],
            extra: Map::new(),
            start: Instant::now(),
        }
    }

    pub fn assume(&mut self, s: &str) {
        if !self.assumptions.iter().any(|a| a == s) {
            self.assumptions.push(s.to_string());
        }
    }

    /// One oracle-checked case was evaluated.
    pub fn eval(&mut self) {
        self.evaluations += 1;
    }

    pub fn evals(&mut self, n: u64) {
        self.evaluations += n;
    }

    /// The case just evaluated was non-trivial by the stated rule; `sig` identifies its class /
    /// content for distinct counting.
    pub fn nontrivial(&mut self, sig: &[u8]) {
        self.nontrivial_hash(fnv(sig));
    }

    pub fn nontrivial_hash(&mut self, h: u64) {
        if self.distinct.len() < MAX_DISTINCT {
            self.distinct.insert(h);
        } else if !self.distinct.contains(&h) {
            // Saturated: do not keep counting (conservative).
            self.distinct_overflow += 1;
        }
    }

    pub fn count(&mut self, key: &str) {
        self.add(key, 1);
    }

    pub fn add(&mut self, key: &str, n: u64) {
        if let Some(c) = self.counters.get_mut(key) {
            *c += n;
        } else {
            self.counters.insert(key.to_string(), n);
        }
    }

    pub fn counter(&self, key: &str) -> u64 {
        self.counters.get(key).copied().unwrap_or(0)
    }

    pub fn max(&mut self, key: &str, v: u64) {
        let c = self.counters.entry(key.to_string()).or_insert(0);
        if v > *c {
            *c = v;
        }
    }

    /// Keep an actual case for the evidence file (first few only).
    pub fn sample(&mut self, v: Value) {
        if self.samples.len() < MAX_SAMPLES {
            self.samples.push(v);
        }
    }

    pub fn wants_sample(&self) -> bool {
        self.samples.len() < MAX_SAMPLES
    }

    /// Record an oracle disagreement. `signature` names the *class* (call site + input class);
    /// known findings are matched on it exactly.
    pub fn violation(&mut self, signature: &str, witness: Value) {
        if let Some(e) = self.violations.get_mut(signature) {
            e.0 += 1;
        } else if self.violations.len() < MAX_WITNESSES {
            self.violations.insert(signature.to_string(), (1, witness));
        } else {
            self.add("violations_beyond_witness_cap", 1);
        }
    }

    pub fn has_violations(&self) -> bool {
        !self.violations.is_empty()
    }

    pub fn inconclusive(&mut self, reason: &str) {
        if self.inconclusive.len() < 32 {
            self.inconclusive.push(reason.to_string());
        }
    }

    /// At finish: if counter `key` < `min` the verdict can be at best inconclusive.
    pub fn require(&mut self, key: &str, min: u64) {
        self.requirements.push((key.to_string(), min));
    }

    pub fn set_extra(&mut self, key: &str, v: Value) {
        self.extra.insert(key.to_string(), v);
    }

    pub fn elapsed(&self) -> f64 {
        self.start.elapsed().as_secs_f64()
    }

    pub fn merge(&mut self, o: Monitor) {
        self.evaluations += o.evaluations;
        for h in o.distinct {
            self.nontrivial_hash(h);
        }
        self.distinct_overflow += o.distinct_overflow;
        for (k, v) in o.counters {
            if k.starts_with("max_") {
                self.max(&k, v);
            } else {
                self.add(&k, v);
            }
        }
        for s in o.samples {
            self.sample(s);
        }
        for (sig, (n, w)) in o.violations {
            if let Some(e) = self.violations.get_mut(&sig) {
                e.0 += n;
            } else if self.violations.len() < MAX_WITNESSES {
                self.violations.insert(sig, (n, w));
            }
        }
        for r in o.inconclusive {
            self.inconclusive(&r);
        }
        for a in o.assumptions {
            self.assume(&a);
        }
        for (k, v) in o.extra {
            self.extra.entry(k).or_insert(v);
        }
        for r in o.requirements {
            if !self.requirements.contains(&r) {
                self.requirements.push(r);
            }
        }
    }

    /// Write evidence + replay files, print verdict lines, return the process exit code.
    pub fn finish(mut self) -> i32 {
        let reqs = self.requirements.clone();
        for (k, min) in reqs {
            let have = self.counter(&k);
            if have < min {
                self.inconclusive(&format!(
                    "too few observations: {k} = {have} < required {min}"
                ));
            }
        }
        let known = load_known(&self.verif_dir, &self.id);
        let mut unlisted = 0u64;
        let mut known_hits = vec![];
        let mut lines = vec![];
        let replay_dir = self.verif_dir.join("replays");
        let _ = std::fs::create_dir_all(&replay_dir);
        for (sig, (hits, witness)) in &self.violations {
            if let Some(what) = known.get(sig) {
                known_hits.push(json!({"signature": sig, "hits": hits, "what": what}));
                lines.push(format!(
                    "KNOWN-FINDING: property={} {} — {} (observed {} times)",
                    self.id, sig, what, hits
                ));
            } else {
                unlisted += *hits;
                let h = fnv(sig.as_bytes());
                let path = replay_dir.join(format!("{}-{:016x}.json", self.id, h));
                let body = json!({
                    "property": self.id,
                    "seed": self.seed,
                    "tier": self.tier.as_str(),
                    "signature": sig,
                    "hits": hits,
                    "witness": witness,
                });
                let _ = std::fs::write(&path, serde_json::to_string_pretty(&body).unwrap());
                lines.push(format!(
                    "VIOLATION property={} replay={}",
                    self.id,
                    path.display()
                ));
                eprintln!("[{}] violation {}: {}", self.id, sig, witness);
            }
        }
        let verdict = if unlisted > 0 {
            Verdict::Violated
        } else if !self.inconclusive.is_empty() {
            Verdict::Inconclusive
        } else {
            Verdict::Held
        };
        let wall = self.start.elapsed().as_secs_f64();
        let mut coverage = Map::new();
        coverage.insert("evaluations".into(), json!(self.evaluations));
        coverage.insert("distinct_nontrivial".into(), json!(self.distinct.len()));
        coverage.insert("rule".into(), json!(self.rule));
        coverage.insert("samples".into(), Value::Array(self.samples.clone()));
        coverage.insert("counters".into(), json!(self.counters));
        coverage.insert(
            "verdict".into(),
            json!(match verdict {
                Verdict::Held => "held on what was observed",
                Verdict::Violated => "violated",
                Verdict::Inconclusive => "inconclusive",
            }),
        );
        if !self.inconclusive.is_empty() {
            coverage.insert("inconclusive_reasons".into(), json!(self.inconclusive));
        }
        if !known_hits.is_empty() {
            coverage.insert("known_findings_observed".into(), json!(known_hits));
        }
        if self.distinct_overflow > 0 {
            coverage.insert(
                "distinct_counting_saturated_after".into(),
                json!(MAX_DISTINCT),
            );
        }
        for (k, v) in self.extra.iter() {
            coverage.insert(k.clone(), v.clone());
        }
        let ev = json!({
            "property_id": self.id,
            "tier": self.tier.as_str(),
            "seed": self.seed as i64,
            "level": "exploration",
            "coverage": Value::Object(coverage),
            "assumptions": self.assumptions,
            "wall_s": (wall * 1000.0).round() / 1000.0,
            "violations": unlisted,
        });
        let evdir = self.verif_dir.join("evidence");
        let _ = std::fs::create_dir_all(&evdir);
        // A property served by two engines writes `<ID>.<part>.json`; `/verif/check` merges the parts.
        let evpath = match std::env::var("VERIF_PART") {
            Ok(part) if !part.is_empty() => evdir.join(format!("{}.{}.json", self.id, part)),
            _ => evdir.join(format!("{}.json", self.id)),
        };
        if let Err(e) = std::fs::write(&evpath, serde_json::to_string_pretty(&ev).unwrap()) {
            eprintln!("cannot write evidence {}: {e}", evpath.display());
        }
        for l in &lines {
            println!("{l}");
        }
        println!(
            "[{}] verdict={:?} tier={} seed={} evaluations={} distinct_nontrivial={} wall={:.1}s",
            self.id,
            verdict,
            self.tier.as_str(),
            self.seed,
            self.evaluations,
            self.distinct.len(),
            wall
        );
        if verdict == Verdict::Inconclusive {
            for r in &self.inconclusive {
                println!("[{}] inconclusive: {}", self.id, r);
            }
        }
        if unlisted > 0 {
            1
        } else {
            0
        }
    }
}

/// `known_findings.json`: {"findings":[{"property":"C43","signature":"...","what":"..."}], "fixed":[...]}
fn load_known(dir: &std::path::Path, id: &str) -> BTreeMap<String, String> {
    let mut out = BTreeMap::new();
    let p = dir.join("known_findings.json");
    if let Ok(s) = std::fs::read_to_string(&p) {
        if let Ok(v) = serde_json::from_str::<Value>(&s) {
            if let Some(arr) = v.get("findings").and_then(|x| x.as_array()) {
                for f in arr {
                    if f.get("property").and_then(|x| x.as_str()) == Some(id) {
                        if let Some(sig) = f.get("signature").and_then(|x| x.as_str()) {
                            out.insert(
                                sig.to_string(),
                                f.get("what")
                                    .and_then(|x| x.as_str())
                                    .unwrap_or("")
                                    .to_string(),
                            );
                        }
                    }
                }
            }
        }
    }
    out
}

thread_local! {
    static QUIET: Cell<u32> = const { Cell::new(0) };
}
static HOOK: Once = Once::new();

fn install_hook() {
    HOOK.call_once(|| {
        let prev = std::panic::take_hook();
        std::panic::set_hook(Box::new(move |info| {
            if QUIET.with(|q| q.get()) == 0 {
                prev(info);
            }
        }));
    });
}

/// Run code under test; a panic becomes `Err(message)` and prints nothing.
pub fn guard<T>(f: impl FnOnce() -> T) -> Result<T, String> {
    install_hook();
    QUIET.with(|q| q.set(q.get() + 1));
    let r = catch_unwind(AssertUnwindSafe(f));
    QUIET.with(|q| q.set(q.get() - 1));
    r.map_err(|e| {
        if let Some(s) = e.downcast_ref::<&str>() {
            s.to_string()
        } else if let Some(s) = e.downcast_ref::<String>() {
            s.clone()
        } else {
            "panic".to_string()
        }
    })
}

/// Run `n_shards` shards over up to `threads` OS threads and merge their monitors into `root`.
/// A shard that panics (harness bug or uncaught panic of the code under test) makes the verdict
/// inconclusive; it is never turned into a violation.
pub fn run_shards<F>(root: &mut Monitor, threads: usize, n_shards: u64, f: F)
where
    F: Fn(u64, &mut Monitor) + Sync,
{
    install_hook();
    let next = std::sync::atomic::AtomicU64::new(0);
    let results = std::sync::Mutex::new(Vec::<(u64, Monitor)>::new());
    let failures = std::sync::Mutex::new(Vec::<String>::new());
    let template = root.child();
    std::thread::scope(|s| {
        for _ in 0..threads.min(n_shards as usize).max(1) {
            s.spawn(|| loop {
                let i = next.fetch_add(1, std::sync::atomic::Ordering::SeqCst);
                if i >= n_shards {
                    break;
                }
                let mut m = template.child();
                let r = catch_unwind(AssertUnwindSafe(|| f(i, &mut m)));
                if let Err(e) = r {
                    let msg = if let Some(s) = e.downcast_ref::<&str>() {
                        s.to_string()
                    } else if let Some(s) = e.downcast_ref::<String>() {
                        s.clone()
                    } else {
                        "panic".into()
                    };
                    failures
                        .lock()
                        .unwrap()
                        .push(format!("shard {i} aborted by panic: {msg}"));
                }
                results.lock().unwrap().push((i, m));
            });
        }
    });
    let mut rs = results.into_inner().unwrap();
    rs.sort_by_key(|(i, _)| *i);
    for (_, m) in rs {
        root.merge(m);
    }
    for f in failures.into_inner().unwrap() {
        root.inconclusive(&f);
    }
}
