//! Exact-arithmetic helpers on `BigInt` used by oracles.

use num_bigint::{BigInt, Sign};
use num_integer::Integer;
use num_traits::{One, Signed, ToPrimitive, Zero};

pub fn b<T: Into<BigInt>>(x: T) -> BigInt {
    x.into()
}

/// Floor division (towards −∞). Panics on zero divisor (oracle bug, not a verdict).
pub fn div_floor(a: &BigInt, d: &BigInt) -> BigInt {
    a.div_floor(d)
}

/// Ceiling division (towards +∞).
pub fn div_ceil(a: &BigInt, d: &BigInt) -> BigInt {
    let (q, r) = a.div_mod_floor(d);
    if r.is_zero() {
        q
    } else {
        q + 1
    }
}

/// Division truncated towards zero.
pub fn div_trunc(a: &BigInt, d: &BigInt) -> BigInt {
    a / d
}

/// Division rounding the magnitude up (away from zero).
pub fn div_away(a: &BigInt, d: &BigInt) -> BigInt {
    let neg = (a.sign() == Sign::Minus) != (d.sign() == Sign::Minus);
    let q = div_ceil(&a.abs(), &d.abs());
    if neg {
        -q
    } else {
        q
    }
}

pub fn pow10(e: u32) -> BigInt {
    num_traits::pow(BigInt::from(10u8), e as usize)
}

pub fn to_u128(x: &BigInt) -> Option<u128> {
    x.to_u128()
}

pub fn to_u64(x: &BigInt) -> Option<u64> {
    x.to_u64()
}

pub fn to_i128(x: &BigInt) -> Option<i128> {
    x.to_i128()
}

pub fn to_i64(x: &BigInt) -> Option<i64> {
    x.to_i64()
}

pub fn one() -> BigInt {
    BigInt::one()
}

pub fn zero() -> BigInt {
    BigInt::zero()
}

pub fn min(a: BigInt, c: BigInt) -> BigInt {
    if a <= c {
        a
    } else {
        c
    }
}

pub fn max(a: BigInt, c: BigInt) -> BigInt {
    if a >= c {
        a
    } else {
        c
    }
}
