//! C43 — SDK amount / Decimal conversions round-trip (`/repo/crates/sdk/src/utils/fixed.rs`).
//!
//! Real code: `gmsol_sdk::utils::{unsigned,signed}_{fixed,amount,value}_to_decimal`,
//! `decimal_to_{amount,value,signed_value}`. Oracle: exact BigInt rationals `m / 10^s`.

use gmsol_sdk::utils as sdk;
use rust_decimal::Decimal;
use vcommon::big::{b, pow10};
use vcommon::monitor::guard;
use vcommon::num_bigint::BigInt;
use vcommon::num_traits::{Signed, Zero};
use vcommon::{json, Args, Monitor, Rng};

const MAX_REPR: u128 = (1u128 << 96) - 1;

fn dec_json(d: &Decimal) -> vcommon::serde_json::Value {
    json!({"mantissa": d.mantissa().to_string(), "scale": d.scale()})
}

/// `v == x / 10^d` exactly?
fn dec_equals(v: &Decimal, x: &BigInt, d: u32) -> bool {
    b(v.mantissa()) * pow10(d) == x * pow10(v.scale())
}

fn ilog10(x: u128) -> u32 {
    // independent of the code's `ilog10` use: count digits by string length
    (x.to_string().len() - 1) as u32
}

/// Is `|x| / 10^d` exactly representable as a Decimal (96-bit mantissa, scale 0..=28)?
fn representable(xabs: u128, d: u32) -> bool {
    if xabs == 0 {
        return true;
    }
    let mut x = xabs;
    let mut s = d;
    // strip shared factors of ten
    while s > 0 && x % 10 == 0 {
        x /= 10;
        s -= 1;
    }
    x <= MAX_REPR && s <= 28
}

#[derive(Clone, Copy, PartialEq, Eq)]
enum Fwd {
    UFixed,
    SFixed,
    UValue,
    SValue,
    UAmount,
    SAmount,
}

impl Fwd {
    fn name(self) -> &'static str {
        match self {
            Fwd::UFixed => "unsigned_fixed_to_decimal",
            Fwd::SFixed => "signed_fixed_to_decimal",
            Fwd::UValue => "unsigned_value_to_decimal",
            Fwd::SValue => "signed_value_to_decimal",
            Fwd::UAmount => "unsigned_amount_to_decimal",
            Fwd::SAmount => "signed_amount_to_decimal",
        }
    }
    fn id(self) -> u8 {
        self as u8
    }
}

/// Call the real forward conversion. `Ok(Some(v))` value, `Ok(None)` refused, `Err` panic message.
fn call_fwd(f: Fwd, x: &BigInt, d: u8) -> Result<Option<Decimal>, String> {
    use vcommon::num_traits::ToPrimitive;
    match f {
        Fwd::UFixed => {
            let n = x.to_u128().unwrap();
            guard(|| sdk::unsigned_fixed_to_decimal(n, d))
        }
        Fwd::SFixed => {
            let n = x.to_i128().unwrap();
            guard(|| sdk::signed_fixed_to_decimal(n, d))
        }
        Fwd::UValue => {
            let n = x.to_u128().unwrap();
            guard(|| Some(sdk::unsigned_value_to_decimal(n)))
        }
        Fwd::SValue => {
            let n = x.to_i128().unwrap();
            guard(|| Some(sdk::signed_value_to_decimal(n)))
        }
        Fwd::UAmount => {
            let n = x.to_u64().unwrap();
            guard(|| Some(sdk::unsigned_amount_to_decimal(n, d)))
        }
        Fwd::SAmount => {
            let n = x.to_i64().unwrap();
            guard(|| Some(sdk::signed_amount_to_decimal(n, d)))
        }
    }
}

fn check_forward(m: &mut Monitor, f: Fwd, x: &BigInt, d: u8) {
    m.eval();
    let dd = d as u32;
    let xabs: u128 = {
        use vcommon::num_traits::ToPrimitive;
        x.abs().to_u128().unwrap()
    };
    let neg = x.is_negative();
    let name = f.name();
    let wit = |extra: vcommon::serde_json::Value| json!({"function": name, "num": x.to_string(), "decimals": d, "observed": extra});
    let r = call_fwd(f, x, d);
    let is_amount = matches!(f, Fwd::UAmount | Fwd::SAmount);
    let above = xabs > MAX_REPR;
    let r = match r {
        Err(p) => {
            m.count("panics");
            // class: truncated mantissa with a scale that still exceeds 28
            let sig = if above && dd > 28 + (ilog10(xabs) - 27) {
                format!("C43:{name}:panic_above_2^96_scale_gt_28")
            } else {
                format!("C43:{name}:panic")
            };
            m.violation(&sig, wit(json!({"panic": p})));
            return;
        }
        Ok(r) => r,
    };
    match r {
        None => {
            m.count(&format!("{name}:none"));
            if !above && dd <= 28 {
                m.violation(
                    &format!("C43:{name}:none_in_supported_domain"),
                    wit(json!("None")),
                );
            } else if representable(xabs, dd) {
                // refused although a Decimal with this exact value exists (not required by the property)
                m.count("refused_although_representable_after_normalisation");
            } else {
                m.count("refused_unrepresentable");
            }
        }
        Some(v) => {
            if dec_equals(&v, x, dd) {
                m.count(&format!("{name}:exact"));
                if v.scale() > 28 {
                    m.violation(&format!("C43:{name}:scale_gt_28"), wit(dec_json(&v)));
                }
                if !x.is_zero() {
                    m.nontrivial(&[f.id(), d, (128 - xabs.leading_zeros()) as u8, 0]);
                }
                if m.wants_sample() && above {
                    m.sample(json!({"function": name, "num": x.to_string(), "decimals": d, "result": dec_json(&v), "class": "exact"}));
                }
                check_roundtrip(m, f, x, d, &v);
            } else if above && !is_amount {
                // Known class: value above 2^96-1 is cut to its 28 leading digits.
                // Tightest bound that remains true: exactly the low `sd` digits are dropped
                // (floor towards zero) and the scale is reduced by `sd`.
                let sd = ilog10(xabs) - 27;
                let expect_m = xabs / 10u128.pow(sd);
                let ok = dd >= sd
                    && v.scale() == dd - sd
                    && v.mantissa().unsigned_abs() == expect_m
                    && (v.mantissa() == 0 || v.is_sign_negative() == neg);
                if ok {
                    m.count(&format!("{name}:lossy_above_2^96"));
                    m.max("max_dropped_low_digits", sd as u64);
                    m.nontrivial(&[f.id(), d, (128 - xabs.leading_zeros()) as u8, 1]);
                    m.violation(
                        &format!("C43:{name}:lossy_above_2^96"),
                        wit(json!({"result": dec_json(&v), "dropped_low_digits": sd, "lost": (xabs % 10u128.pow(sd)).to_string()})),
                    );
                } else {
                    m.violation(&format!("C43:{name}:wrong_value"), wit(dec_json(&v)));
                }
            } else if is_amount && dd > 28 {
                // Known class: amounts with more than 28 decimals are cut to 28 decimals.
                let k = dd - 28;
                let expect_m: u128 = if k >= 39 { 0 } else { xabs / 10u128.pow(k) };
                let ok = v.mantissa().unsigned_abs() == expect_m
                    && (expect_m == 0 || (v.scale() == 28 && v.is_sign_negative() == neg));
                if ok {
                    m.count(&format!("{name}:lossy_decimals_above_28"));
                    m.nontrivial(&[f.id(), d, (128 - xabs.leading_zeros()) as u8, 2]);
                    m.violation(
                        &format!("C43:{name}:lossy_decimals_above_28"),
                        wit(json!({"result": dec_json(&v), "dropped_low_digits": k})),
                    );
                } else {
                    m.violation(&format!("C43:{name}:wrong_value"), wit(dec_json(&v)));
                }
            } else {
                m.violation(&format!("C43:{name}:wrong_value"), wit(dec_json(&v)));
            }
        }
    }
}

/// Forward was exact: converting back with the same decimals must give the original integer.
fn check_roundtrip(m: &mut Monitor, f: Fwd, x: &BigInt, d: u8, v: &Decimal) {
    use vcommon::num_traits::ToPrimitive;
    let name = f.name();
    let v = *v;
    let (back_name, back): (&str, Result<Result<BigInt, String>, String>) = match f {
        Fwd::UFixed | Fwd::UValue => (
            "decimal_to_value",
            guard(|| sdk::decimal_to_value(v, d).map(b).map_err(|e| e.to_string())),
        ),
        Fwd::SFixed | Fwd::SValue | Fwd::SAmount => (
            "decimal_to_signed_value",
            guard(|| sdk::decimal_to_signed_value(v, d).map(b).map_err(|e| e.to_string())),
        ),
        Fwd::UAmount => (
            "decimal_to_amount",
            guard(|| sdk::decimal_to_amount(v, d).map(b).map_err(|e| e.to_string())),
        ),
    };
    let wit = |o: vcommon::serde_json::Value| json!({"forward": name, "back": back_name, "num": x.to_string(), "decimals": d, "decimal": dec_json(&v), "observed": o});
    match back {
        Err(p) => {
            m.count("panics");
            m.violation(&format!("C43:{back_name}:panic"), wit(json!({"panic": p})));
        }
        Ok(Ok(y)) => {
            if &y == x {
                m.count("roundtrip_ok");
            } else {
                m.violation(
                    &format!("C43:roundtrip:{name}:mismatch"),
                    wit(json!(y.to_string())),
                );
            }
        }
        Ok(Err(e)) => {
            m.count("roundtrip_back_err");
            if d <= 28 {
                // decimals supported, forward exact, yet no way back
                if back_name == "decimal_to_value" && x.to_i128().is_none() {
                    m.count("decimal_to_value:err_above_i128_max");
                    m.violation(
                        "C43:decimal_to_value:roundtrip_err_above_i128_max",
                        wit(json!({"err": e})),
                    );
                } else {
                    m.violation(
                        &format!("C43:roundtrip:{name}:err_in_supported_domain"),
                        wit(json!({"err": e})),
                    );
                }
            }
        }
    }
}

#[derive(Clone, Copy)]
enum Back {
    Amount,
    Value,
    Signed,
}

impl Back {
    fn name(self) -> &'static str {
        match self {
            Back::Amount => "decimal_to_amount",
            Back::Value => "decimal_to_value",
            Back::Signed => "decimal_to_signed_value",
        }
    }
    fn range(self) -> (BigInt, BigInt) {
        match self {
            Back::Amount => (b(0), b(u64::MAX)),
            Back::Value => (b(0), b(u128::MAX)),
            Back::Signed => (b(i128::MIN), b(i128::MAX)),
        }
    }
}

/// Arbitrary Decimal -> integer: exact target `t = m * 10^(d - s)`.
fn check_back(m: &mut Monitor, f: Back, v: Decimal, d: u8) {
    m.eval();
    let name = f.name();
    let r: Result<Result<BigInt, String>, String> = match f {
        Back::Amount => guard(|| sdk::decimal_to_amount(v, d).map(b).map_err(|e| e.to_string())),
        Back::Value => guard(|| sdk::decimal_to_value(v, d).map(b).map_err(|e| e.to_string())),
        Back::Signed => guard(|| sdk::decimal_to_signed_value(v, d).map(b).map_err(|e| e.to_string())),
    };
    let wit = |o: vcommon::serde_json::Value| json!({"function": name, "decimal": dec_json(&v), "decimals": d, "observed": o});
    let mant = b(v.mantissa());
    let s = v.scale();
    let dd = d as u32;
    // exact target as rational num/den
    let (num, den) = if dd >= s {
        (mant * pow10(dd - s), b(1))
    } else {
        (mant, pow10(s - dd))
    };
    let is_int = (&num % &den).is_zero();
    let t = &num / &den; // truncated
    let (lo, hi) = f.range();
    match r {
        Err(p) => {
            m.count("panics");
            m.violation(&format!("C43:{name}:panic"), wit(json!({"panic": p})));
        }
        Ok(Ok(y)) => {
            if is_int && y == t {
                m.count(&format!("{name}:exact"));
                if !y.is_zero() {
                    m.nontrivial(&[10 + f as u8, d, s as u8, y.bits() as u8]);
                }
                if y < lo || y > hi {
                    m.violation(&format!("C43:{name}:wrong_value"), wit(json!(y.to_string())));
                }
            } else if !is_int {
                // silently rounded: tight bound = round half away from zero of the exact quotient
                let twice_rem = (&num - &t * &den).abs() * 2;
                let away = if twice_rem >= den { if num.is_negative() { -1 } else { 1 } } else { 0 };
                let expect = &t + away;
                if y == expect {
                    m.count(&format!("{name}:rounds_excess_fraction"));
                    m.nontrivial(&[20 + f as u8, d, s as u8, 0]);
                    m.violation(
                        &format!("C43:{name}:rounds_excess_fraction"),
                        wit(json!({"result": y.to_string(), "exact_truncated": t.to_string()})),
                    );
                } else {
                    m.violation(&format!("C43:{name}:wrong_value"), wit(json!(y.to_string())));
                }
            } else {
                m.violation(&format!("C43:{name}:wrong_value"), wit(json!(y.to_string())));
            }
        }
        Ok(Err(_e)) => {
            m.count(&format!("{name}:err"));
            if is_int && t >= lo && t <= hi {
                // refused although representable (not required by the property; counted)
                if dd <= 28 {
                    m.count("back_err_on_representable_decimals_le_28");
                } else {
                    m.count("back_err_on_representable_decimals_gt_28");
                }
            } else {
                m.count("back_err_unrepresentable");
            }
        }
    }
}

fn boundary_u128() -> Vec<u128> {
    let mut v = vec![0u128, 1, 2, 5, 9];
    for k in 0..=38u32 {
        let p = 10u128.pow(k);
        v.extend([p.saturating_sub(1), p, p + 1, p.saturating_mul(5), p.saturating_mul(15) / 10]);
    }
    for k in 0..128u32 {
        let p = 1u128 << k;
        v.extend([p - 1, p, p + 1]);
    }
    v.extend([MAX_REPR - 1, MAX_REPR, MAX_REPR + 1, MAX_REPR + 2, u128::MAX - 1, u128::MAX, i128::MAX as u128, i128::MAX as u128 + 1, u64::MAX as u128, i64::MAX as u128]);
    v.sort();
    v.dedup();
    v
}

fn decimals_grid() -> Vec<u8> {
    let mut v: Vec<u8> = (0..=48).collect();
    v.extend([56, 57, 58, 66, 67, 68, 100, 128, 200, 254, 255]);
    v
}

fn rand_decimals(rng: &mut Rng) -> u8 {
    match rng.below(10) {
        0 => *rng.pick(&[56u8, 57, 66, 67, 100, 200, 255]),
        1 => rng.range(41, 48) as u8,
        _ => rng.range(0, 40) as u8,
    }
}

fn all_fwd(m: &mut Monitor, x: u128, d: u8) {
    check_forward(m, Fwd::UFixed, &b(x), d);
    if x <= i128::MAX as u128 {
        check_forward(m, Fwd::SFixed, &b(x), d);
        check_forward(m, Fwd::SFixed, &(-b(x)), d);
    } else if x == i128::MAX as u128 + 1 {
        check_forward(m, Fwd::SFixed, &b(i128::MIN), d);
    }
    if x <= u64::MAX as u128 {
        check_forward(m, Fwd::UAmount, &b(x), d);
    }
    if x <= i64::MAX as u128 {
        check_forward(m, Fwd::SAmount, &b(x), d);
        check_forward(m, Fwd::SAmount, &(-b(x)), d);
    } else if x == i64::MAX as u128 + 1 {
        check_forward(m, Fwd::SAmount, &b(i64::MIN), d);
    }
}

fn value_fwd(m: &mut Monitor, x: u128) {
    check_forward(m, Fwd::UValue, &b(x), 20);
    if x <= i128::MAX as u128 {
        check_forward(m, Fwd::SValue, &b(x), 20);
        check_forward(m, Fwd::SValue, &(-b(x)), 20);
    } else if x == i128::MAX as u128 + 1 {
        check_forward(m, Fwd::SValue, &b(i128::MIN), 20);
    }
}

fn rand_decimal(rng: &mut Rng) -> Decimal {
    let mant: u128 = match rng.below(4) {
        0 => {
            let unit = 10u128.pow(rng.range(0, 28) as u32);
            rng.biased_u128(MAX_REPR, unit)
        }
        1 => rng.log_u128(MAX_REPR),
        2 => rng.biased_u128(u64::MAX as u128, 1_000_000),
        _ => rng.range_u128(0, MAX_REPR),
    };
    let scale = rng.range(0, 28) as u32;
    let neg = rng.chance(1, 3);
    Decimal::from_parts(mant as u32, (mant >> 32) as u32, (mant >> 64) as u32, neg, scale)
}

/// `--probe 1`: print a handful of concrete calls (used to document findings); no evidence is written.
fn probe() -> i32 {
    use rust_decimal::Decimal as D;
    let two96: u128 = 1u128 << 96;
    println!("unsigned_fixed_to_decimal(2^96, 1)  = {:?}", guard(|| sdk::unsigned_fixed_to_decimal(two96, 1)));
    println!("unsigned_fixed_to_decimal(2^96-1, 1) = {:?}", guard(|| sdk::unsigned_fixed_to_decimal(two96 - 1, 1)));
    println!("unsigned_value_to_decimal(2^96)     = {:?}", guard(|| sdk::unsigned_value_to_decimal(two96)));
    println!("signed_value_to_decimal(-(2^96))    = {:?}", guard(|| sdk::signed_value_to_decimal(-(two96 as i128))));
    println!("unsigned_fixed_to_decimal(2^96, 29) = {:?}", guard(|| sdk::unsigned_fixed_to_decimal(two96, 29)));
    println!("unsigned_fixed_to_decimal(2^96, 30) = {:?}", guard(|| sdk::unsigned_fixed_to_decimal(two96, 30)));
    println!("signed_fixed_to_decimal(-(2^96), 30) = {:?}", guard(|| sdk::signed_fixed_to_decimal(-(two96 as i128), 30)));
    println!("unsigned_amount_to_decimal(19, 29)  = {:?}", guard(|| sdk::unsigned_amount_to_decimal(19, 29)));
    println!("signed_amount_to_decimal(-19, 29)   = {:?}", guard(|| sdk::signed_amount_to_decimal(-19, 29)));
    println!("decimal_to_amount(1.5, 0)           = {:?}", guard(|| sdk::decimal_to_amount(D::new(15, 1), 0).map_err(|e| e.to_string())));
    println!("decimal_to_amount(1.2345678, 6)     = {:?}", guard(|| sdk::decimal_to_amount(D::new(12345678, 7), 6).map_err(|e| e.to_string())));
    println!("decimal_to_signed_value(-0.5, 0)    = {:?}", guard(|| sdk::decimal_to_signed_value(D::new(-5, 1), 0).map_err(|e| e.to_string())));
    for d in [29u8, 30, 34, 38, 39, 40, 45, 50, 56, 57, 60, 66] {
        println!("decimal_to_signed_value(0.1, {d})     = {:?}", guard(|| sdk::decimal_to_signed_value(D::new(1, 1), d).map_err(|e| e.to_string())).map(|r| r.map(|x| x.to_string())));
    }
    println!("decimal_to_signed_value(0.000001, 66) = {:?}", guard(|| sdk::decimal_to_signed_value(D::new(1, 6), 66).map_err(|e| e.to_string())));
    let big: u128 = 280397654871070051581400674000000000000;
    let f = guard(|| sdk::unsigned_fixed_to_decimal(big, 11));
    println!("unsigned_fixed_to_decimal({big}, 11) = {f:?}");
    if let Ok(Some(v)) = f {
        println!("decimal_to_value(that, 11) = {:?}", guard(|| sdk::decimal_to_value(v, 11).map_err(|e| e.to_string())));
    }
    0
}

pub fn run(args: &Args) -> i32 {
    if args.extra.contains_key("probe") {
        return probe();
    }
    let mut mon = Monitor::new(
        args,
        "cases = (function, integer, decimals): shard 0 enumerates boundary integers (0, 10^k±1, 2^k±1, 2^96-1±1, type limits) x decimals {0..=48,56..,255}; other shards draw boundary-biased / log-uniform / uniform integers and decimals (0..=40 mostly, up to 255) plus random Decimals (96-bit mantissa, scale 0..=28) for the back conversions. Non-trivial = conversion returned a non-zero value (exact, or one of the pinned lossy classes); distinct = hash(function, decimals, bit length or scale, outcome class).",
    );
    let per_shard = crate::util::scaled(args, 750_000, 11_000_000);
    let shards = 64u64;
    vcommon::monitor::run_shards(&mut mon, args.threads, shards, |shard, m| {
        if shard == 0 {
            let bs = boundary_u128();
            let ds = decimals_grid();
            for &x in &bs {
                for &d in &ds {
                    all_fwd(m, x, d);
                }
                value_fwd(m, x);
            }
            // back conversions on boundary decimals
            for &x in &bs {
                if x > MAX_REPR {
                    continue;
                }
                for s in [0u32, 1, 6, 9, 19, 20, 27, 28] {
                    for neg in [false, true] {
                        let v = Decimal::from_parts(x as u32, (x >> 32) as u32, (x >> 64) as u32, neg, s);
                        for d in [0u8, 1, 6, 9, 18, 20, 28, 29, 38, 40, 66, 67, 255] {
                            check_back(m, Back::Amount, v, d);
                            check_back(m, Back::Value, v, d);
                            check_back(m, Back::Signed, v, d);
                        }
                    }
                }
            }
            return;
        }
        let mut rng = Rng::derive(args.seed, shard, 43);
        for _ in 0..per_shard {
            match rng.below(4) {
                0 => {
                    let x = match rng.below(3) {
                        0 => {
                            let unit = 10u128.pow(rng.range(0, 38) as u32);
                            rng.biased_u128(u128::MAX, unit)
                        }
                        1 => rng.log_u128(u128::MAX),
                        _ => rng.next_u128(),
                    };
                    let d = rand_decimals(&mut rng);
                    all_fwd(m, x, d);
                }
                1 => {
                    let x = match rng.below(3) {
                        0 => rng.range_u128(MAX_REPR - 1000, MAX_REPR + 1000),
                        1 => rng.log_u128(u128::MAX),
                        _ => rng.biased_u128(u128::MAX, 10u128.pow(20)),
                    };
                    value_fwd(m, x);
                }
                2 => {
                    // multiples of powers of ten above 2^96 (exactly representable after normalisation)
                    let k = rng.range(1, 20) as u32;
                    let base = rng.log_u128(u128::MAX / 10u128.pow(k));
                    let x = base * 10u128.pow(k);
                    let d = rand_decimals(&mut rng);
                    all_fwd(m, x, d);
                }
                _ => {
                    let v = rand_decimal(&mut rng);
                    let d = rand_decimals(&mut rng);
                    check_back(m, Back::Amount, v, d);
                    check_back(m, Back::Value, v, d);
                    check_back(m, Back::Signed, v, d);
                }
            }
        }
    });
    crate::util::req(args, &mut mon, "roundtrip_ok", 10_000);
    crate::util::req(args, &mut mon, "unsigned_fixed_to_decimal:exact", 1_000);
    crate::util::req(args, &mut mon, "signed_fixed_to_decimal:exact", 1_000);
    crate::util::req(args, &mut mon, "unsigned_amount_to_decimal:exact", 1_000);
    crate::util::req(args, &mut mon, "signed_amount_to_decimal:exact", 1_000);
    crate::util::req(args, &mut mon, "decimal_to_amount:exact", 1_000);
    crate::util::req(args, &mut mon, "decimal_to_value:exact", 1_000);
    crate::util::req(args, &mut mon, "decimal_to_signed_value:exact", 1_000);
    crate::util::req(args, &mut mon, "refused_unrepresentable", 100);
    mon.assume("'decimals supported' is read as decimals <= 28 (rust_decimal's maximum scale); a None/Err outside that domain, or for a mantissa above 2^96-1, is 'reports failure'");
    mon.assume("a value is 'representable' iff some (96-bit mantissa, scale<=28) pair equals it exactly; returning a different value instead of an error is the violation (classes lossy_above_2^96, lossy_decimals_above_28, rounds_excess_fraction keep their exact residual bound)");
    mon.finish()
}
