//! C40 — the SDK market model agrees with the on-chain program.
//!
//! (a) layouts (`layout.rs`), flag bit orders, and every model-trait accessor plus a set of derived
//!     computations on identical `Market` bytes: program `gmsol_store::states::Market` vs SDK `MarketModel`.
//! (b) the same action (fee-state update, swap, deposit, withdrawal, position increase / decrease) executed
//!     on the program's `RevertibleMarket` / `RevertibleLiquidityMarket` / `RevertiblePosition` (hook H1,
//!     hand-built `AccountInfo`s, stubbed syscalls) and on the SDK's `MarketModel` / `PositionModel`
//!     with the SDK clock pinned (hook H3): reports, resulting pools / clocks / balances / position equal.

use std::sync::Arc;

use anchor_lang::prelude::{Account, AccountLoader, Pubkey};
use anchor_lang::{AccountDeserialize, AnchorSerialize, Discriminator};
use anchor_spl::token::{spl_token, Mint};
use spl_token::solana_program::program_pack::Pack;
use gmsol_model::{
    action::decrease_position::DecreasePositionFlags,
    price::{Price, Prices},
    Balance, BaseMarketExt, BorrowingFeeMarketExt, ClockKind, LiquidityMarket, LiquidityMarketExt,
    LiquidityMarketMutExt, MarketAction, PerpMarket, PerpMarketExt, PerpMarketMutExt, PnlFactorKind, PoolKind,
    Position as _, PositionExt, PositionImpactMarketExt, PositionImpactMarketMutExt, PositionMutExt,
    SwapMarketMutExt,
};
use gmsol_programs::gmsol_store::accounts::{Market as SdkMarket, Position as SdkPosition};
use gmsol_programs::gmsol_store::types::Pools as SdkPools;
use gmsol_programs::model::{MarketModel, PositionModel};
use gmsol_store::states::market::revertible::{
    Revertible, RevertibleLiquidityMarket, RevertibleMarket, RevertiblePosition,
};
use gmsol_store::states::{Market, Position, Store};
use gmsol_utils::market::{MarketConfigFlag, MarketConfigKey, MarketFlag};
use strum::IntoEnumIterator;
use vcommon::monitor::guard;
use vcommon::{json, Args, Monitor, Rng};

use crate::util::{self, Aligned, StaticAcct};

const UNIT: u128 = 100_000_000_000_000_000_000;

fn sdk_market(bytes: &[u8]) -> Result<SdkMarket, String> {
    gmsol_sdk::utils::zero_copy::try_deserialize_zero_copy_with_options::<SdkMarket>(bytes, true)
        .map(|z| z.0)
        .map_err(|e| e.to_string())
}

fn sdk_position(bytes: &[u8]) -> Result<SdkPosition, String> {
    gmsol_sdk::utils::zero_copy::try_deserialize_zero_copy_with_options::<SdkPosition>(bytes, true)
        .map(|z| z.0)
        .map_err(|e| e.to_string())
}

fn make_mint(supply: u64) -> Mint {
    let raw = spl_token::state::Mint {
        mint_authority: spl_token::solana_program::program_option::COption::None,
        supply,
        decimals: 9,
        is_initialized: true,
        freeze_authority: spl_token::solana_program::program_option::COption::None,
    };
    let mut buf = vec![0u8; spl_token::state::Mint::LEN];
    raw.pack_into_slice(&mut buf);
    Mint::try_deserialize(&mut &buf[..]).expect("mint")
}

fn mint_bytes(supply: u64) -> Vec<u8> {
    let raw = spl_token::state::Mint {
        mint_authority: spl_token::solana_program::program_option::COption::None,
        supply,
        decimals: 9,
        is_initialized: true,
        freeze_authority: spl_token::solana_program::program_option::COption::None,
    };
    let mut buf = vec![0u8; spl_token::state::Mint::LEN];
    raw.pack_into_slice(&mut buf);
    buf
}

/// SDK pool of a kind — hand-written mapping over the declared `Pools` fields.
fn sdk_pool(p: &SdkPools, kind: PoolKind) -> Option<(u128, u128, u8)> {
    let s = match kind {
        PoolKind::Primary => &p.primary,
        PoolKind::SwapImpact => &p.swap_impact,
        PoolKind::ClaimableFee => &p.claimable_fee,
        PoolKind::OpenInterestForLong => &p.open_interest_for_long,
        PoolKind::OpenInterestForShort => &p.open_interest_for_short,
        PoolKind::OpenInterestInTokensForLong => &p.open_interest_in_tokens_for_long,
        PoolKind::OpenInterestInTokensForShort => &p.open_interest_in_tokens_for_short,
        PoolKind::PositionImpact => &p.position_impact,
        PoolKind::BorrowingFactor => &p.borrowing_factor,
        PoolKind::FundingAmountPerSizeForLong => &p.funding_amount_per_size_for_long,
        PoolKind::FundingAmountPerSizeForShort => &p.funding_amount_per_size_for_short,
        PoolKind::ClaimableFundingAmountPerSizeForLong => &p.claimable_funding_amount_per_size_for_long,
        PoolKind::ClaimableFundingAmountPerSizeForShort => &p.claimable_funding_amount_per_size_for_short,
        PoolKind::CollateralSumForLong => &p.collateral_sum_for_long,
        PoolKind::CollateralSumForShort => &p.collateral_sum_for_short,
        PoolKind::TotalBorrowing => &p.total_borrowing,
        _ => return None,
    };
    Some((s.pool.long_token_amount, s.pool.short_token_amount, s.pool.is_pure))
}

fn prog_pool_raw(p: &gmsol_store::states::market::pool::Pool) -> (u128, u128, u8) {
    let v = p.try_to_vec().expect("borsh");
    (
        u128::from_le_bytes(v[16..32].try_into().unwrap()),
        u128::from_le_bytes(v[32..48].try_into().unwrap()),
        v[0],
    )
}

// ------------------------------------------------------------------------------------------------
// (a) accessor snapshots
// ------------------------------------------------------------------------------------------------

fn pool_str<P: Balance<Num = u128>>(p: gmsol_model::Result<&P>) -> String {
    match p {
        Ok(p) => format!("{:?}/{:?}", p.long_amount(), p.short_amount()),
        Err(e) => format!("Err({e})"),
    }
}

/// Everything the model traits expose (generic: identical code path for both implementations).
fn snapshot<M>(m: &M, prices: &Prices<u128>, out: &mut Vec<(String, String)>)
where
    M: PerpMarket<20, Num = u128, Signed = i128>,
    M::Pool: Balance<Num = u128, Signed = i128>,
{
    let mut put = |k: &str, v: String| out.push((k.to_string(), v));
    put("liquidity_pool", pool_str(m.liquidity_pool()));
    put("claimable_fee_pool", pool_str(m.claimable_fee_pool()));
    put("swap_impact_pool", pool_str(m.swap_impact_pool()));
    put("position_impact_pool", pool_str(m.position_impact_pool()));
    put("borrowing_factor_pool", pool_str(m.borrowing_factor_pool()));
    put("total_borrowing_pool", pool_str(m.total_borrowing_pool()));
    for l in [true, false] {
        put(&format!("open_interest_pool({l})"), pool_str(m.open_interest_pool(l)));
        put(&format!("open_interest_in_tokens_pool({l})"), pool_str(m.open_interest_in_tokens_pool(l)));
        put(&format!("collateral_sum_pool({l})"), pool_str(m.collateral_sum_pool(l)));
        put(&format!("funding_amount_per_size_pool({l})"), pool_str(m.funding_amount_per_size_pool(l)));
        put(&format!("claimable_funding_amount_per_size_pool({l})"), pool_str(m.claimable_funding_amount_per_size_pool(l)));
        put(&format!("max_pool_amount({l})"), format!("{:?}", m.max_pool_amount(l)));
        put(&format!("max_open_interest({l})"), format!("{:?}", m.max_open_interest(l)));
        put(&format!("min_collateral_factor_for_open_interest_multiplier({l})"), format!("{:?}", m.min_collateral_factor_for_open_interest_multiplier(l)));
        for k in [PnlFactorKind::MaxAfterDeposit, PnlFactorKind::MaxAfterWithdrawal, PnlFactorKind::MaxForTrader, PnlFactorKind::ForAdl, PnlFactorKind::MinAfterAdl] {
            put(&format!("pnl_factor_config({k:?},{l})"), format!("{:?}", m.pnl_factor_config(k, l)));
        }
    }
    put("virtual_inventory_for_swaps_pool", match m.virtual_inventory_for_swaps_pool() {
        Ok(None) => "Ok(None)".into(),
        Ok(Some(_)) => "Ok(Some)".into(),
        Err(_) => "Err".into(),
    });
    put("virtual_inventory_for_positions_pool", match m.virtual_inventory_for_positions_pool() {
        Ok(None) => "Ok(None)".into(),
        Ok(Some(_)) => "Ok(Some)".into(),
        Err(_) => "Err".into(),
    });
    put("usd_to_amount_divisor", format!("{}", m.usd_to_amount_divisor()));
    put("reserve_factor", format!("{:?}", m.reserve_factor()));
    put("open_interest_reserve_factor", format!("{:?}", m.open_interest_reserve_factor()));
    put("ignore_open_interest_for_usage_factor", format!("{:?}", m.ignore_open_interest_for_usage_factor()));
    put("swap_impact_params", format!("{:?}", m.swap_impact_params()));
    put("swap_fee_params", format!("{:?}", m.swap_fee_params()));
    put("position_impact_params", format!("{:?}", m.position_impact_params()));
    put("position_impact_distribution_params", format!("{:?}", m.position_impact_distribution_params()));
    put("passed_in_seconds_for_position_impact_distribution", format!("{:?}", m.passed_in_seconds_for_position_impact_distribution()));
    put("borrowing_fee_params", format!("{:?}", m.borrowing_fee_params()));
    put("passed_in_seconds_for_borrowing", format!("{:?}", m.passed_in_seconds_for_borrowing()));
    put("borrowing_fee_kink_model_params", format!("{:?}", m.borrowing_fee_kink_model_params()));
    put("funding_factor_per_second", format!("{}", m.funding_factor_per_second()));
    put("funding_amount_per_size_adjustment", format!("{}", m.funding_amount_per_size_adjustment()));
    put("funding_fee_params", format!("{:?}", m.funding_fee_params()));
    put("position_params", format!("{:?}", m.position_params()));
    put("order_fee_params.fee(+)", format!("{:?}", m.order_fee_params().map(|p| (p.fee::<20>(gmsol_model::pool::delta::BalanceChange::Improved, &UNIT), p.fee::<20>(gmsol_model::pool::delta::BalanceChange::Worsened, &UNIT), *p.receiver_factor()))));
    put("liquidation_fee_params", format!("{:?}", m.liquidation_fee_params()));
    // ---- derived computations (BaseMarketExt / PerpMarketExt / BorrowingFeeMarketExt / ...) ----
    for l in [true, false] {
        for mx in [true, false] {
            put(&format!("pool_value_without_pnl_for_one_side({l},{mx})"), format!("{:?}", m.pool_value_without_pnl_for_one_side(prices, l, mx)));
            put(&format!("pnl({l},{mx})"), format!("{:?}", m.pnl(&prices.index_token_price, l, mx)));
            put(&format!("pnl_factor({l},{mx})"), format!("{:?}", m.pnl_factor(prices, l, mx)));
        }
        put(&format!("reserved_value({l})"), format!("{:?}", m.reserved_value(&prices.index_token_price, l)));
        put(&format!("validate_pool_amount({l})"), format!("{:?}", m.validate_pool_amount(l)));
        put(&format!("validate_reserve({l})"), format!("{:?}", m.validate_reserve(prices, l)));
        put(&format!("validate_open_interest_reserve({l})"), format!("{:?}", m.validate_open_interest_reserve(prices, l)));
        put(&format!("cumulative_borrowing_factor({l})"), format!("{:?}", m.cumulative_borrowing_factor(l)));
        put(&format!("borrowing_factor_per_second({l})"), format!("{:?}", m.borrowing_factor_per_second(l, prices)));
        put(&format!("next_cumulative_borrowing_factor({l})"), format!("{:?}", m.next_cumulative_borrowing_factor(l, prices, 3600)));
        put(&format!("total_pending_borrowing_fees({l})"), format!("{:?}", m.total_pending_borrowing_fees(prices, l)));
        put(&format!("min_collateral_factor_for_open_interest({l})"), format!("{:?}", m.min_collateral_factor_for_open_interest(&(12345 * UNIT as i128), l)));
        for c in [true, false] {
            put(&format!("funding_fee_amount_per_size({l},{c})"), format!("{:?}", m.funding_fee_amount_per_size(l, c)));
            put(&format!("claimable_funding_fee_amount_per_size({l},{c})"), format!("{:?}", m.claimable_funding_fee_amount_per_size(l, c)));
        }
    }
    put("position_impact_pool_amount", format!("{:?}", m.position_impact_pool_amount()));
    put("pending_position_impact_pool_distribution_amount(60)", format!("{:?}", m.pending_position_impact_pool_distribution_amount(60)));
}

fn liquidity_snapshot<M>(m: &M, prices: &Prices<u128>, out: &mut Vec<(String, String)>)
where
    M: LiquidityMarket<20, Num = u128, Signed = i128>,
{
    out.push(("total_supply".into(), format!("{}", m.total_supply())));
    for l in [true, false] {
        out.push((format!("max_pool_value_for_deposit({l})"), format!("{:?}", m.max_pool_value_for_deposit(l))));
        out.push((format!("validate_pool_value_for_deposit({l})"), format!("{:?}", m.validate_pool_value_for_deposit(prices, l))));
    }
    for k in [PnlFactorKind::MaxAfterDeposit, PnlFactorKind::MaxAfterWithdrawal] {
        for mx in [true, false] {
            out.push((format!("pool_value({k:?},{mx})"), format!("{:?}", m.pool_value(prices, k, mx))));
            out.push((format!("market_token_price({k:?},{mx})"), format!("{:?}", m.market_token_price(prices, k, mx))));
        }
    }
}

fn position_snapshot<P>(p: &P, prices: &Prices<u128>, out: &mut Vec<(String, String)>)
where
    P: gmsol_model::Position<20, Num = u128, Signed = i128>,
    P::Market: PerpMarket<20, Num = u128, Signed = i128>,
{
    out.push(("pos.is_long".into(), format!("{}", p.is_long())));
    out.push(("pos.is_collateral_token_long".into(), format!("{}", p.is_collateral_token_long())));
    out.push(("pos.are_pnl_and_collateral_tokens_the_same".into(), format!("{}", p.are_pnl_and_collateral_tokens_the_same())));
    out.push(("pos.state".into(), format!("{} {} {} {} {} {} {}", p.collateral_amount(), p.size_in_usd(), p.size_in_tokens(), p.borrowing_factor(), p.funding_fee_amount_per_size(), p.claimable_funding_fee_amount_per_size(true), p.claimable_funding_fee_amount_per_size(false))));
    out.push(("pos.collateral_value".into(), format!("{:?}", p.collateral_value(prices))));
    out.push(("pos.pnl_value(full)".into(), format!("{:?}", p.pnl_value(prices, p.size_in_usd()))));
    out.push(("pos.pending_borrowing_fee_value".into(), format!("{:?}", p.pending_borrowing_fee_value())));
    out.push(("pos.pending_funding_fees".into(), format!("{:?}", p.pending_funding_fees())));
    out.push(("pos.check_liquidatable(false,false)".into(), format!("{:?}", p.check_liquidatable(prices, false, false))));
    out.push(("pos.check_liquidatable(true,true)".into(), format!("{:?}", p.check_liquidatable(prices, true, true))));
    out.push(("pos.position_price_impact".into(), format!("{:?}", p.position_price_impact(&(777 * UNIT as i128), true))));
    out.push(("pos.position_fees".into(), format!("{:?}", p.position_fees(p.collateral_price(prices), p.size_in_usd(), gmsol_model::pool::delta::BalanceChange::Worsened, false))));
    out.push(("pos.position_fees(liq)".into(), format!("{:?}", p.position_fees(p.collateral_price(prices), p.size_in_usd(), gmsol_model::pool::delta::BalanceChange::Improved, true))));
}

// ------------------------------------------------------------------------------------------------
// generators
// ------------------------------------------------------------------------------------------------

#[derive(Clone, Debug)]
struct Scene {
    /// market body bytes (no discriminator)
    market: Vec<u8>,
    prices: Prices<u128>,
    supply: u64,
    now: i64,
    pure_market: bool,
    closed: bool,
    enabled: bool,
    store: Pubkey,
    long_token: Pubkey,
    short_token: Pubkey,
    market_token: Pubkey,
    p_long: u128,
    p_short: u128,
    p_index: u128,
    long_liq: u128,
    short_liq: u128,
    /// order fee discount factor applied on both sides for position actions
    order_fee_discount: u128,
}

fn price(p: u128, rng: &mut Rng) -> Price<u128> {
    let spread = match rng.below(4) {
        0 => 0,
        1 => 1,
        _ => p / 1000 * rng.range(0, 3) as u128 + rng.range_u128(0, p / 100_000 + 1),
    };
    Price { min: p, max: p + spread }
}

fn rnd_price(rng: &mut Rng, decimals: u32) -> u128 {
    // USD price 10^e * m, e in -2..=5, as unit price with 20 - decimals decimals
    let e = rng.range(0, 7) as u32; // 10^(e-2)
    let m = rng.range_u128(1_000, 9_999);
    m * 10u128.pow(20 - decimals + e) / 100_000
}

/// value (in 1e20 USD units) -> token amount at `p`
fn amt(value_usd: u128, p: u128) -> u128 {
    value_usd.saturating_mul(UNIT) / p.max(1)
}

fn gen_scene(rng: &mut Rng, for_positions: bool) -> Scene {
    let now: i64 = 1_700_000_000 + rng.range_i64(0, 100_000_000);
    util::set_clock(now, 1000 + rng.range(0, 1 << 30));
    let pure_market = rng.chance(1, 4);
    let store = util::pk("store", rng.below(3));
    let market_token = util::pk("mt", rng.below(1 << 20));
    let long_token = util::pk("long", rng.below(4));
    let short_token = if pure_market { long_token } else { util::pk("short", rng.below(4)) };
    let index_is_long = !pure_market && rng.bool();
    let index_token = if index_is_long { long_token } else { util::pk("index", rng.below(4)) };
    let dl = *rng.pick(&[6u32, 8, 9]);
    let p_long = rnd_price(rng, dl);
    let p_short = if pure_market { p_long } else { 10u128.pow(14) + rng.range_u128(0, 10u128.pow(11)) - 5 * 10u128.pow(10) };
    let di = *rng.pick(&[6u32, 8, 9]);
    let p_index = if index_is_long { p_long } else { rnd_price(rng, di) };
    let enabled = !rng.chance(1, 30);
    let closed = rng.chance(1, 8);

    // ---- base: the program's own initialisation (defaults, pool purity, buffer) ----
    let mut buf = Aligned::zeroed(std::mem::size_of::<Market>());
    buf.view_mut::<Market>()
        .init(255, store, "SOL/USD[WSOL-USDC]", market_token, index_token, long_token, short_token, enabled)
        .expect("Market::init");
    let mut m = sdk_market(buf.bytes()).expect("decode");

    // ---- scale ----
    let long_value = rng.range_u128(1_000, 3_000_000);
    let short_value = if pure_market { long_value } else { rng.range_u128(1_000, 3_000_000) };
    let long_liq = amt(long_value, p_long);
    let short_liq = amt(short_value, p_short);
    let hostile = rng.chance(1, 6);
    let big = |rng: &mut Rng, x: u128| -> u128 {
        match rng.below(4) {
            0 => 0,
            1 => x.saturating_mul(10u128.pow(rng.range(3, 18) as u32)),
            2 => u128::MAX >> rng.range(0, 40),
            _ => x / 1000,
        }
    };

    // ---- config ----
    let c = &mut m.config;
    let mul = |rng: &mut Rng, x: u128, lo: u64, hi: u64| x / 100 * rng.range(lo, hi) as u128;
    c.max_pool_amount_for_long_token = mul(rng, if pure_market { long_liq } else { long_liq }, 100, 400).max(1000);
    c.max_pool_amount_for_short_token = mul(rng, short_liq, 100, 400).max(1000);
    c.max_pool_value_for_deposit_for_long_token = mul(rng, long_value * UNIT, 100, 400);
    c.max_pool_value_for_deposit_for_short_token = mul(rng, short_value * UNIT, 100, 400);
    c.max_open_interest_for_long = mul(rng, (long_value + short_value) * UNIT, 20, 150);
    c.max_open_interest_for_short = mul(rng, (long_value + short_value) * UNIT, 20, 150);
    c.swap_impact_exponent = *rng.pick(&[UNIT, 2 * UNIT, 2 * UNIT, UNIT * 3 / 2]);
    c.swap_impact_positive_factor = *rng.pick(&[0u128, 100_000_000_000, 2_000_000_000_000]) / (long_value.max(1));
    c.swap_impact_negative_factor = c.swap_impact_positive_factor * rng.range(1, 3) as u128 + *rng.pick(&[0u128, 1_000_000_000]);
    c.swap_fee_factor_for_positive_impact = *rng.pick(&[0u128, 50_000_000_000_000_000, 30_000_000_000_000_000]);
    c.swap_fee_factor_for_negative_impact = *rng.pick(&[0u128, 70_000_000_000_000_000, 50_000_000_000_000_000]);
    c.swap_fee_receiver_factor = *rng.pick(&[0u128, UNIT * 37 / 100, UNIT * 70 / 100, UNIT]);
    c.position_impact_exponent = *rng.pick(&[UNIT, 2 * UNIT, 2 * UNIT]);
    c.position_impact_positive_factor = *rng.pick(&[0u128, 10_000_000_000_000, 500_000_000_000]) / 1000;
    c.position_impact_negative_factor = c.position_impact_positive_factor * 2 + *rng.pick(&[0u128, 1_000_000]);
    c.order_fee_receiver_factor = *rng.pick(&[UNIT * 37 / 100, UNIT * 70 / 100, 0]);
    c.borrowing_fee_receiver_factor = *rng.pick(&[UNIT * 37 / 100, UNIT * 70 / 100, 0]);
    c.liquidation_fee_receiver_factor = *rng.pick(&[UNIT * 37 / 100, UNIT * 70 / 100, 0]);
    if rng.bool() {
        // kink model off: exponent/factor model
        c.borrowing_fee_optimal_usage_factor_for_long = 0;
        c.borrowing_fee_optimal_usage_factor_for_short = 0;
    }
    if rng.chance(1, 3) {
        c.borrowing_fee_factor_for_long = rng.range_u128(0, 10_000_000_000_000);
        c.borrowing_fee_factor_for_short = rng.range_u128(0, 10_000_000_000_000);
    }
    if rng.chance(1, 3) {
        c.funding_fee_increase_factor_per_second = 0; // non-adaptive funding
        c.funding_fee_factor = rng.range_u128(0, 5_000_000_000_000);
    }
    if rng.chance(1, 4) {
        c.position_impact_distribute_factor = rng.range_u128(0, UNIT);
        c.min_position_impact_pool_amount = rng.range_u128(0, 10_000_000_000);
    }
    if rng.chance(1, 4) {
        c.reserve_factor = rng.range_u128(UNIT / 10, 2 * UNIT);
        c.open_interest_reserve_factor = rng.range_u128(UNIT / 10, c.reserve_factor);
    }
    if rng.chance(1, 5) {
        c.min_collateral_factor_for_liquidation = *rng.pick(&[0u128, UNIT / 200, UNIT / 50]);
        c.market_closed_min_collateral_factor_for_liquidation = *rng.pick(&[0u128, UNIT / 100, UNIT / 20]);
        c.market_closed_borrowing_fee_base_factor = rng.range_u128(0, 100_000_000_000_000);
        c.market_closed_borrowing_fee_above_optimal_usage_factor = rng.range_u128(0, 100_000_000_000_000);
    }
    let mut cfg_flags: u128 = c.flag.value;
    for bit in 0..4 {
        if rng.chance(1, 3) {
            cfg_flags ^= 1 << bit;
        }
    }
    c.flag.value = cfg_flags;
    if hostile {
        // one arbitrary key gets an arbitrary (possibly absurd) value
        let keys: Vec<MarketConfigKey> = MarketConfigKey::iter().collect();
        let k = *rng.pick(&keys);
        let v = match rng.below(3) {
            0 => 0,
            1 => rng.next_u128(),
            _ => rng.biased_u128(u128::MAX, UNIT),
        };
        let mut tmp = Aligned::from_bytes(bytemuck::bytes_of(&m));
        *tmp.view_mut::<Market>().get_config_mut(&k.to_string()).unwrap() = v;
        m = sdk_market(tmp.bytes()).unwrap();
    }

    // ---- pools ----
    let total_value = (long_value + short_value) * UNIT;
    let oi_long = total_value / 100 * rng.range(0, 40) as u128;
    let oi_short = total_value / 100 * rng.range(0, 40) as u128;
    let split = |rng: &mut Rng, x: u128| -> (u128, u128) {
        let a = x / 100 * rng.range(0, 100) as u128;
        (a, x - a)
    };
    let pools = &mut m.state.pools;
    let set = |ps: &mut gmsol_programs::gmsol_store::types::PoolStorage, l: u128, s: u128| {
        if ps.pool.is_pure != 0 {
            ps.pool.long_token_amount = l.saturating_add(s);
            ps.pool.short_token_amount = 0;
        } else {
            ps.pool.long_token_amount = l;
            ps.pool.short_token_amount = s;
        }
    };
    if pure_market {
        set(&mut pools.primary, long_liq, 0);
    } else {
        set(&mut pools.primary, long_liq, short_liq);
    }
    set(&mut pools.swap_impact, long_liq / 10_000 * rng.range(0, 20) as u128, short_liq / 10_000 * rng.range(0, 20) as u128);
    set(&mut pools.claimable_fee, long_liq / 100_000 * rng.range(0, 50) as u128, short_liq / 100_000 * rng.range(0, 50) as u128);
    let (a, b) = split(rng, oi_long);
    set(&mut pools.open_interest_for_long, a, b);
    let wob = |rng: &mut Rng, x: u128| x / 100 * rng.range(80, 125) as u128;
    set(&mut pools.open_interest_in_tokens_for_long, wob(rng, amt(a / UNIT, p_index)), wob(rng, amt(b / UNIT, p_index)));
    let lev = rng.range(2, 20) as u128;
    set(&mut pools.collateral_sum_for_long, amt(a / UNIT / lev, p_long), amt(b / UNIT / lev, p_short));
    let (a2, b2) = split(rng, oi_short);
    set(&mut pools.open_interest_for_short, a2, b2);
    set(&mut pools.open_interest_in_tokens_for_short, wob(rng, amt(a2 / UNIT, p_index)), wob(rng, amt(b2 / UNIT, p_index)));
    set(&mut pools.collateral_sum_for_short, amt(a2 / UNIT / lev, p_long), amt(b2 / UNIT / lev, p_short));
    pools.position_impact.pool.long_token_amount = amt(oi_long / UNIT / 1000 * rng.range(0, 10) as u128, p_index);
    let bf_l = rng.range_u128(0, UNIT / 2);
    let bf_s = rng.range_u128(0, UNIT / 2);
    pools.borrowing_factor.pool.long_token_amount = bf_l;
    pools.borrowing_factor.pool.short_token_amount = bf_s;
    pools.total_borrowing.pool.long_token_amount = mul_div(oi_long, bf_l, UNIT) / 100 * rng.range(50, 100) as u128;
    pools.total_borrowing.pool.short_token_amount = mul_div(oi_short, bf_s, UNIT) / 100 * rng.range(50, 100) as u128;
    let f = |rng: &mut Rng| rng.log_u128(1_000_000_000_000_000);
    let (x1, x2, x3, x4) = (f(rng), f(rng), f(rng), f(rng));
    set(&mut pools.funding_amount_per_size_for_long, x1, if pure_market { 0 } else { x2 });
    set(&mut pools.funding_amount_per_size_for_short, x3, if pure_market { 0 } else { x4 });
    let (y1, y2, y3, y4) = (f(rng), f(rng), f(rng), f(rng));
    set(&mut pools.claimable_funding_amount_per_size_for_long, y1, if pure_market { 0 } else { y2 });
    set(&mut pools.claimable_funding_amount_per_size_for_short, y3, if pure_market { 0 } else { y4 });
    if hostile && rng.bool() {
        // one arbitrary pool side gets an arbitrary value
        let kinds: Vec<PoolKind> = PoolKind::iter().collect();
        let k = *rng.pick(&kinds);
        let v = big(rng, long_liq);
        let target = match k {
            PoolKind::Primary => &mut pools.primary,
            PoolKind::SwapImpact => &mut pools.swap_impact,
            PoolKind::ClaimableFee => &mut pools.claimable_fee,
            PoolKind::OpenInterestForLong => &mut pools.open_interest_for_long,
            PoolKind::OpenInterestForShort => &mut pools.open_interest_for_short,
            PoolKind::OpenInterestInTokensForLong => &mut pools.open_interest_in_tokens_for_long,
            PoolKind::OpenInterestInTokensForShort => &mut pools.open_interest_in_tokens_for_short,
            PoolKind::PositionImpact => &mut pools.position_impact,
            PoolKind::BorrowingFactor => &mut pools.borrowing_factor,
            PoolKind::FundingAmountPerSizeForLong => &mut pools.funding_amount_per_size_for_long,
            PoolKind::FundingAmountPerSizeForShort => &mut pools.funding_amount_per_size_for_short,
            PoolKind::ClaimableFundingAmountPerSizeForLong => &mut pools.claimable_funding_amount_per_size_for_long,
            PoolKind::ClaimableFundingAmountPerSizeForShort => &mut pools.claimable_funding_amount_per_size_for_short,
            PoolKind::CollateralSumForLong => &mut pools.collateral_sum_for_long,
            PoolKind::CollateralSumForShort => &mut pools.collateral_sum_for_short,
            _ => &mut pools.total_borrowing,
        };
        if target.pool.is_pure != 0 || rng.bool() {
            target.pool.long_token_amount = v;
        } else {
            target.pool.short_token_amount = v;
        }
    }

    // ---- clocks / other ----
    let dt = |rng: &mut Rng| -> i64 {
        match rng.below(8) {
            0 => 0,
            1 => 1,
            2 => -rng.range_i64(1, 1000), // clock in the future: passed seconds saturate to 0
            3 => 86_400 * rng.range_i64(1, 30),
            _ => rng.range_i64(1, 7200),
        }
    };
    m.state.clocks.price_impact_distribution = now - dt(rng);
    m.state.clocks.borrowing = now - dt(rng);
    m.state.clocks.funding = now - dt(rng);
    m.state.clocks.adl_for_long = now - dt(rng);
    m.state.clocks.adl_for_short = now - dt(rng);
    let slack = |rng: &mut Rng, x: u128| -> u64 { x.saturating_add(x / 100 * rng.range(0, 5) as u128).min(u64::MAX as u128) as u64 };
    let p = &m.state.pools;
    let sum = |xs: [u128; 5]| xs.iter().fold(0u128, |a, x| a.saturating_add(*x));
    let long_need = sum([p.primary.pool.long_token_amount, p.swap_impact.pool.long_token_amount, p.claimable_fee.pool.long_token_amount, p.collateral_sum_for_long.pool.long_token_amount, p.collateral_sum_for_short.pool.long_token_amount]);
    let short_need = sum([p.primary.pool.short_token_amount, p.swap_impact.pool.short_token_amount, p.claimable_fee.pool.short_token_amount, p.collateral_sum_for_long.pool.short_token_amount, p.collateral_sum_for_short.pool.short_token_amount]);
    m.state.other.long_token_balance = slack(rng, long_need);
    m.state.other.short_token_balance = if pure_market { 0 } else { slack(rng, short_need) };
    if rng.chance(1, 20) {
        m.state.other.long_token_balance /= 2; // under-funded vault record
    }
    m.state.other.funding_factor_per_second = rng.range_i64(-1_000_000_000_000, 1_000_000_000_000) as i128;
    m.state.other.trade_count = rng.log_u64(1 << 40);
    m.buffer.rev = 1 + rng.log_u64(1 << 30);

    // ---- flags ----
    let mut tmp = Aligned::from_bytes(bytemuck::bytes_of(&m));
    {
        let pm = tmp.view_mut::<Market>();
        pm.set_flag(MarketFlag::Closed, closed && !(for_positions && rng.chance(9, 10)));
        pm.set_adl_enabled(true, rng.bool());
        pm.set_adl_enabled(false, rng.bool());
        pm.set_is_gt_minting_enabled(rng.bool());
    }
    let closed = tmp.view::<Market>().is_closed();
    let supply_value = long_value + if pure_market { 0 } else { short_value };
    let supply = (supply_value * 1_000_000_000 / 100 * rng.range(70, 130) as u128).min(u64::MAX as u128) as u64;
    Scene {
        market: tmp.bytes().to_vec(),
        prices: Prices {
            index_token_price: price(p_index, rng),
            long_token_price: price(p_long, rng),
            short_token_price: if pure_market { price(p_long, rng) } else { price(p_short, rng) },
        },
        supply,
        now,
        pure_market,
        closed,
        enabled,
        store,
        long_token,
        short_token,
        market_token,
        p_long,
        p_short,
        p_index,
        long_liq,
        short_liq,
        order_fee_discount: match rng.below(4) {
            0 => 0,
            1 => UNIT,
            _ => rng.range_u128(0, UNIT),
        },
    }
}

fn mul_div(a: u128, b: u128, d: u128) -> u128 {
    use vcommon::num_traits::ToPrimitive;
    (vcommon::big::b(a) * vcommon::big::b(b) / vcommon::big::b(d)).to_u128().unwrap_or(u128::MAX)
}

fn gen_position(rng: &mut Rng, sc: &Scene, fresh: bool) -> (Position, bool) {
    let mut p = Position::default();
    let is_long = rng.bool();
    let collateral_long = rng.bool();
    p.kind = if is_long { 1 } else { 2 };
    p.bump = 254;
    let store_mismatch = rng.chance(1, 40);
    p.store = if store_mismatch { util::pk("other-store", 1) } else { sc.store };
    p.owner = util::pk("owner", rng.below(8));
    p.market_token = sc.market_token;
    p.collateral_token = if collateral_long { sc.long_token } else { sc.short_token };
    p.created_at = sc.now - 10_000;
    if !fresh {
        // an existing position consistent with the pools (a fraction of the side's open interest)
        let m = sdk_market(&sc.market).unwrap();
        let oi_pool = if is_long { &m.state.pools.open_interest_for_long } else { &m.state.pools.open_interest_for_short };
        let oit_pool = if is_long { &m.state.pools.open_interest_in_tokens_for_long } else { &m.state.pools.open_interest_in_tokens_for_short };
        let cs_pool = if is_long { &m.state.pools.collateral_sum_for_long } else { &m.state.pools.collateral_sum_for_short };
        let pick = |ps: &gmsol_programs::gmsol_store::types::PoolStorage, long_side: bool| -> u128 {
            if ps.pool.is_pure != 0 {
                if long_side { ps.pool.long_token_amount.div_ceil(2) } else { ps.pool.long_token_amount / 2 }
            } else if long_side {
                ps.pool.long_token_amount
            } else {
                ps.pool.short_token_amount
            }
        };
        let frac = rng.range(1, 100) as u128;
        p.state.size_in_usd = pick(oi_pool, collateral_long) / 100 * frac;
        p.state.size_in_tokens = pick(oit_pool, collateral_long) / 100 * frac;
        p.state.collateral_amount = pick(cs_pool, collateral_long) / 100 * frac;
        let bf = if is_long { m.state.pools.borrowing_factor.pool.long_token_amount } else { m.state.pools.borrowing_factor.pool.short_token_amount };
        p.state.borrowing_factor = bf / 100 * rng.range(50, 100) as u128;
        let fa = if is_long { &m.state.pools.funding_amount_per_size_for_long } else { &m.state.pools.funding_amount_per_size_for_short };
        p.state.funding_fee_amount_per_size = pick(fa, collateral_long) / 100 * rng.range(50, 100) as u128;
        let cf = if is_long { &m.state.pools.claimable_funding_amount_per_size_for_long } else { &m.state.pools.claimable_funding_amount_per_size_for_short };
        p.state.long_token_claimable_funding_amount_per_size = pick(cf, true) / 100 * rng.range(50, 100) as u128;
        p.state.short_token_claimable_funding_amount_per_size = pick(cf, false) / 100 * rng.range(50, 100) as u128;
        p.state.trade_id = rng.log_u64(1 << 30);
        p.state.increased_at = sc.now - rng.range_i64(0, 100_000);
        p.state.decreased_at = sc.now - rng.range_i64(0, 100_000);
        if rng.chance(1, 10) {
            // make it unhealthy
            p.state.collateral_amount /= 50;
        }
    }
    (p, store_mismatch)
}

// ------------------------------------------------------------------------------------------------
// (b) executing actions on both sides
// ------------------------------------------------------------------------------------------------

#[derive(Debug, Clone, PartialEq, Eq)]
struct Post {
    pools: Vec<(u128, u128)>,
    clocks: [i64; 5],
    balances: (u64, u64),
    funding_factor_per_second: i128,
    position: Option<[u128; 7]>,
    /// mint/burn amounts decided by the action
    minted_burnt: Option<(u64, u64)>,
}

#[derive(Debug, Clone)]
struct Outcome {
    result: Result<Vec<u8>, String>,
    report_dbg: String,
    post: Option<Post>,
    trade_count: Option<u64>,
}

struct World {
    market: StaticAcct,
    store: StaticAcct,
    position: StaticAcct,
    mint: StaticAcct,
    event_authority: StaticAcct,
    token_program: StaticAcct,
    receiver: StaticAcct,
    vault: StaticAcct,
}

impl World {
    fn new() -> Self {
        let pid = gmsol_store::ID;
        Self {
            market: StaticAcct::new(util::pk("acct-market", 0), pid, 8 + std::mem::size_of::<Market>(), false, true),
            store: StaticAcct::new(util::pk("acct-store", 0), pid, 8 + std::mem::size_of::<Store>(), false, true),
            position: StaticAcct::new(util::pk("acct-position", 0), pid, 8 + std::mem::size_of::<Position>(), false, true),
            mint: StaticAcct::new(util::pk("acct-mint", 0), spl_token::ID, spl_token::state::Mint::LEN, false, true),
            event_authority: StaticAcct::new(util::pk("acct-event-authority", 0), pid, 0, false, false),
            token_program: StaticAcct::new(spl_token::ID, util::pk("bpf-loader", 0), 0, false, false),
            receiver: StaticAcct::new(util::pk("acct-receiver", 0), spl_token::ID, 165, false, true),
            vault: StaticAcct::new(util::pk("acct-vault", 0), spl_token::ID, 165, false, true),
        }
    }

    fn load(&self, sc: &Scene, pos: Option<&Position>) {
        let mut d = Vec::with_capacity(8 + sc.market.len());
        d.extend_from_slice(Market::DISCRIMINATOR);
        d.extend_from_slice(&sc.market);
        self.market.set_data(&d);
        let mut s = vec![0u8; 8 + std::mem::size_of::<Store>()];
        s[..8].copy_from_slice(Store::DISCRIMINATOR);
        self.store.set_data(&s);
        self.mint.set_data(&mint_bytes(sc.supply));
        let mut p = vec![0u8; 8 + std::mem::size_of::<Position>()];
        p[..8].copy_from_slice(Position::DISCRIMINATOR);
        if let Some(pos) = pos {
            p[8..].copy_from_slice(bytemuck::bytes_of(pos));
        }
        self.position.set_data(&p);
    }
}

fn clocks_of(c: &gmsol_store::states::market::Clocks) -> [i64; 5] {
    // `Clocks` has no getters: Borsh layout = padding[8], rev u64, then the five clocks
    let v = c.try_to_vec().expect("borsh");
    let g = |i: usize| i64::from_le_bytes(v[16 + 8 * i..24 + 8 * i].try_into().unwrap());
    [g(0), g(1), g(2), g(3), g(4)]
}

fn post_of_program(rm: &RevertibleMarket<'_, '_>, position: Option<[u128; 7]>, minted_burnt: Option<(u64, u64)>) -> (Post, u64) {
    let pools = PoolKind::iter()
        .filter_map(|k| rm.verif_pool(k))
        .map(|p| {
            let (l, s, _) = prog_pool_raw(&p);
            (l, s)
        })
        .collect();
    let o = rm.verif_other();
    (
        Post {
            pools,
            clocks: clocks_of(rm.verif_clocks()),
            balances: (o.long_token_balance_raw(), o.short_token_balance_raw()),
            funding_factor_per_second: o.funding_factor_per_second(),
            position,
            minted_burnt,
        },
        o.trade_count(),
    )
}

fn post_of_sdk(m: &SdkMarket, position: Option<[u128; 7]>, minted_burnt: Option<(u64, u64)>) -> Post {
    let pools = PoolKind::iter()
        .filter_map(|k| sdk_pool(&m.state.pools, k))
        .map(|(l, s, _)| (l, s))
        .collect();
    let c = &m.state.clocks;
    Post {
        pools,
        clocks: [c.price_impact_distribution, c.borrowing, c.funding, c.adl_for_long, c.adl_for_short],
        balances: (m.state.other.long_token_balance, m.state.other.short_token_balance),
        funding_factor_per_second: m.state.other.funding_factor_per_second,
        position,
        minted_burnt,
    }
}

fn pos_state_prog(s: &gmsol_store::states::position::PositionState) -> [u128; 7] {
    [
        s.collateral_amount,
        s.size_in_usd,
        s.size_in_tokens,
        s.borrowing_factor,
        s.funding_fee_amount_per_size,
        s.long_token_claimable_funding_amount_per_size,
        s.short_token_claimable_funding_amount_per_size,
    ]
}

fn pos_state_sdk(s: &gmsol_programs::gmsol_store::types::PositionState) -> [u128; 7] {
    [
        s.collateral_amount,
        s.size_in_usd,
        s.size_in_tokens,
        s.borrowing_factor,
        s.funding_fee_amount_per_size,
        s.long_token_claimable_funding_amount_per_size,
        s.short_token_claimable_funding_amount_per_size,
    ]
}

#[derive(Clone, Debug)]
enum Action {
    UpdateFees,
    Swap { long_in: bool, amount: u128, pricing: u8 },
    Deposit { long: u128, short: u128 },
    Withdraw { amount: u128 },
    Increase { collateral: u128, size_delta_usd: u128, acceptable: Option<u128> },
    Decrease { size_delta_usd: u128, acceptable: Option<u128>, withdraw: u128, insolvent_ok: bool, liquidation: bool, cap: bool },
}

impl Action {
    fn name(&self) -> &'static str {
        match self {
            Action::UpdateFees => "update_fees",
            Action::Swap { .. } => "swap",
            Action::Deposit { .. } => "deposit",
            Action::Withdraw { .. } => "withdraw",
            Action::Increase { .. } => "increase",
            Action::Decrease { .. } => "decrease",
        }
    }
    fn to_json(&self) -> vcommon::serde_json::Value {
        match self {
            Action::UpdateFees => json!({"action": "update_fees"}),
            Action::Swap { long_in, amount, pricing } => json!({"action": "swap", "is_token_in_long": long_in, "token_in_amount": amount.to_string(), "swap_pricing_kind": pricing_name(*pricing)}),
            Action::Deposit { long, short } => json!({"action": "deposit", "long_token_amount": long.to_string(), "short_token_amount": short.to_string()}),
            Action::Withdraw { amount } => json!({"action": "withdraw", "market_token_amount": amount.to_string()}),
            Action::Increase { collateral, size_delta_usd, acceptable } => json!({"action": "increase", "collateral_increment_amount": collateral.to_string(), "size_delta_usd": size_delta_usd.to_string(), "acceptable_price": acceptable.map(|x| x.to_string())}),
            Action::Decrease { size_delta_usd, acceptable, withdraw, insolvent_ok, liquidation, cap } => json!({"action": "decrease", "size_delta_usd": size_delta_usd.to_string(), "acceptable_price": acceptable.map(|x| x.to_string()), "collateral_withdrawal_amount": withdraw.to_string(), "is_insolvent_close_allowed": insolvent_ok, "is_liquidation_order": liquidation, "is_cap_size_delta_usd_allowed": cap}),
        }
    }
}

fn pricing_name(p: u8) -> &'static str {
    match p {
        0 => "swap",
        1 => "deposit",
        2 => "withdrawal",
        _ => "shift",
    }
}

fn ser<T: AnchorSerialize>(t: &T) -> Vec<u8> {
    t.try_to_vec().expect("serialize report")
}

/// Run `action` on the program's revertible types. Commits on success; returns the buffered post state.
fn run_program(w: &World, sc: &Scene, action: &Action) -> Result<Outcome, String> {
    let prices = sc.prices;
    guard(|| -> Outcome {
        let fail = |e: String| Outcome { result: Err(e), report_dbg: String::new(), post: None, trade_count: None };
        let loader = match AccountLoader::<Market>::try_from(w.market.info) {
            Ok(l) => l,
            Err(e) => return fail(format!("harness: market loader: {e}")),
        };
        let mut rm = match RevertibleMarket::verif_new(&loader, w.event_authority.info, 255) {
            Ok(r) => r,
            Err(e) => return fail(format!("harness: RevertibleMarket::new: {e}")),
        };
        match action {
            Action::UpdateFees => {
                let r = (|| -> gmsol_model::Result<(Vec<u8>, String)> {
                    // (the SDK's MarketModel has no BorrowingFeeMarketMut: update_borrowing has no SDK twin)
                    let a = rm.distribute_position_impact()?.execute()?;
                    let c = rm.update_funding(&prices)?.execute()?;
                    let mut v = ser(&a);
                    v.extend(ser(&c));
                    Ok((v, format!("{a:?} {c:?}")))
                })();
                match r {
                    Ok((v, d)) => {
                        let (post, tc) = post_of_program(&rm, None, None);
                        rm.commit();
                        Outcome { result: Ok(v), report_dbg: d, post: Some(post), trade_count: Some(tc) }
                    }
                    Err(e) => fail(e.to_string()),
                }
            }
            Action::Swap { long_in, amount, pricing } => {
                use gmsol_store::states::market::revertible::market::SwapPricingKind as K;
                rm.verif_set_swap_pricing_kind(match pricing {
                    0 => K::Swap,
                    1 => K::Deposit,
                    2 => K::Withdrawal,
                    _ => K::Shift,
                });
                let r = rm.swap(*long_in, *amount, prices).and_then(|a| a.execute());
                match r {
                    Ok(rep) => {
                        let (post, tc) = post_of_program(&rm, None, None);
                        rm.commit();
                        Outcome { result: Ok(ser(&rep)), report_dbg: format!("{rep:?}"), post: Some(post), trade_count: Some(tc) }
                    }
                    Err(e) => fail(e.to_string()),
                }
            }
            Action::Deposit { .. } | Action::Withdraw { .. } => {
                let mint = match Account::<Mint>::try_from(w.mint.info) {
                    Ok(a) => a,
                    Err(e) => return fail(format!("harness: mint account: {e}")),
                };
                let store = match AccountLoader::<Store>::try_from(w.store.info) {
                    Ok(a) => a,
                    Err(e) => return fail(format!("harness: store loader: {e}")),
                };
                let mut lm = match RevertibleLiquidityMarket::verif_new(rm, &mint, w.token_program.info, &store, Some(w.receiver.info), Some(w.vault.info)) {
                    Ok(l) => l,
                    Err(e) => return fail(format!("harness: liquidity market: {e}")),
                };
                let r: gmsol_model::Result<(Vec<u8>, String)> = match action {
                    Action::Deposit { long, short } => lm.deposit(*long, *short, prices).and_then(|a| a.execute()).map(|rep| (ser(&rep), format!("{rep:?}"))),
                    Action::Withdraw { amount } => lm.withdraw(*amount, prices).and_then(|a| a.execute()).map(|rep| (ser(&rep), format!("{rep:?}"))),
                    _ => unreachable!(),
                };
                match r {
                    Ok((v, d)) => {
                        let mb = lm.verif_deferred();
                        let (post, tc) = post_of_program(lm.verif_base(), None, Some(mb));
                        // not committed: commit would CPI into the token program (stubbed); the buffered
                        // view is what the commit copies (C21 covers commit itself)
                        Outcome { result: Ok(v), report_dbg: d, post: Some(post), trade_count: Some(tc) }
                    }
                    Err(e) => fail(e.to_string()),
                }
            }
            Action::Increase { .. } | Action::Decrease { .. } => {
                let ploader = match AccountLoader::<Position>::try_from(w.position.info) {
                    Ok(l) => l,
                    Err(e) => return fail(format!("harness: position loader: {e}")),
                };
                let rm = rm.verif_with_order_fee_discount_factor(sc.order_fee_discount);
                let mut pos = match RevertiblePosition::verif_new(rm, &ploader, false) {
                    Ok(p) => p,
                    Err(e) => return fail(format!("program: RevertiblePosition::new: {e}")),
                };
                let r: gmsol_model::Result<(Vec<u8>, String)> = match action {
                    Action::Increase { collateral, size_delta_usd, acceptable } => pos
                        .increase(prices, *collateral, *size_delta_usd, *acceptable)
                        .and_then(|a| a.execute())
                        .map(|rep| (ser(&rep), format!("{rep:?}"))),
                    Action::Decrease { size_delta_usd, acceptable, withdraw, insolvent_ok, liquidation, cap } => pos
                        .decrease(prices, *size_delta_usd, *acceptable, *withdraw, DecreasePositionFlags { is_insolvent_close_allowed: *insolvent_ok, is_liquidation_order: *liquidation, is_cap_size_delta_usd_allowed: *cap })
                        .and_then(|a| a.execute())
                        .map(|rep| (ser(&*rep), format!("{rep:?}"))),
                    _ => unreachable!(),
                };
                match r {
                    Ok((v, d)) => {
                        let st = pos_state_prog(pos.verif_state());
                        let (post, tc) = post_of_program(pos.market(), Some(st), None);
                        pos.commit();
                        Outcome { result: Ok(v), report_dbg: d, post: Some(post), trade_count: Some(tc) }
                    }
                    Err(e) => fail(e.to_string()),
                }
            }
        }
    })
}

/// Run `action` on the SDK model built from the same bytes.
fn run_sdk(sc: &Scene, pos: Option<&Position>, action: &Action) -> Result<Outcome, String> {
    let prices = sc.prices;
    let market = sdk_market(&sc.market)?;
    let spos = match pos {
        Some(p) => Some(sdk_position(bytemuck::bytes_of(p))?),
        None => None,
    };
    let supply = sc.supply;
    guard(move || -> Outcome {
        let fail = |e: String| Outcome { result: Err(e), report_dbg: String::new(), post: None, trade_count: None };
        let mut model = MarketModel::from_parts(Arc::new(market), supply);
        match action {
            Action::UpdateFees => {
                let r = (|| -> gmsol_model::Result<(Vec<u8>, String)> {
                    let a = model.distribute_position_impact()?.execute()?;
                    let c = model.update_funding(&prices)?.execute()?;
                    let mut v = ser(&a);
                    v.extend(ser(&c));
                    Ok((v, format!("{a:?} {c:?}")))
                })();
                match r {
                    Ok((v, d)) => Outcome { result: Ok(v), report_dbg: d, post: Some(post_of_sdk(&model, None, None)), trade_count: Some(model.state.other.trade_count) },
                    Err(e) => fail(e.to_string()),
                }
            }
            Action::Swap { long_in, amount, pricing } => match model.with_swap_pricing(
                match pricing {
                    0 => gmsol_programs::model::SwapPricingKind::Swap,
                    1 => gmsol_programs::model::SwapPricingKind::Deposit,
                    2 => gmsol_programs::model::SwapPricingKind::Withdrawal,
                    _ => gmsol_programs::model::SwapPricingKind::Shift,
                },
                |model| model.swap(*long_in, *amount, prices).and_then(|a| a.execute()),
            ) {
                Ok(rep) => Outcome { result: Ok(ser(&rep)), report_dbg: format!("{rep:?}"), post: Some(post_of_sdk(&model, None, None)), trade_count: Some(model.state.other.trade_count) },
                Err(e) => fail(e.to_string()),
            },
            Action::Deposit { long, short } => match model.deposit(*long, *short, prices).and_then(|a| a.execute()) {
                Ok(rep) => {
                    let after = model.total_supply();
                    let minted = (after - supply as u128) as u64;
                    Outcome { result: Ok(ser(&rep)), report_dbg: format!("{rep:?}"), post: Some(post_of_sdk(&model, None, Some((minted, 0)))), trade_count: Some(model.state.other.trade_count) }
                }
                Err(e) => fail(e.to_string()),
            },
            Action::Withdraw { amount } => match model.withdraw(*amount, prices).and_then(|a| a.execute()) {
                Ok(rep) => {
                    let after = model.total_supply();
                    let burnt = (supply as u128 - after) as u64;
                    Outcome { result: Ok(ser(&rep)), report_dbg: format!("{rep:?}"), post: Some(post_of_sdk(&model, None, Some((0, burnt)))), trade_count: Some(model.state.other.trade_count) }
                }
                Err(e) => fail(e.to_string()),
            },
            Action::Increase { .. } | Action::Decrease { .. } => {
                model.set_order_fee_discount_factor(sc.order_fee_discount);
                let mut pm = match PositionModel::new(model, Arc::new(spos.expect("position"))) {
                    Ok(p) => p,
                    Err(e) => return fail(format!("sdk: PositionModel::new: {e}")),
                };
                let r: gmsol_model::Result<(Vec<u8>, String)> = match action {
                    Action::Increase { collateral, size_delta_usd, acceptable } => pm
                        .increase(prices, *collateral, *size_delta_usd, *acceptable)
                        .and_then(|a| a.execute())
                        .map(|rep| (ser(&rep), format!("{rep:?}"))),
                    Action::Decrease { size_delta_usd, acceptable, withdraw, insolvent_ok, liquidation, cap } => pm
                        .decrease(prices, *size_delta_usd, *acceptable, *withdraw, DecreasePositionFlags { is_insolvent_close_allowed: *insolvent_ok, is_liquidation_order: *liquidation, is_cap_size_delta_usd_allowed: *cap })
                        .and_then(|a| a.execute())
                        .map(|rep| (ser(&*rep), format!("{rep:?}"))),
                    _ => unreachable!(),
                };
                match r {
                    Ok((v, d)) => {
                        let st = pos_state_sdk(&pm.position().state);
                        Outcome { result: Ok(v), report_dbg: d, post: Some(post_of_sdk(pm.market_model(), Some(st), None)), trade_count: Some(pm.market_model().state.other.trade_count) }
                    }
                    Err(e) => fail(e.to_string()),
                }
            }
        }
    })
}

fn gen_action(rng: &mut Rng, sc: &Scene, kind: u64, pos: Option<&Position>) -> Action {
    let usd = |rng: &mut Rng| -> u128 {
        match rng.below(6) {
            0 => rng.range_u128(1, 50),
            1 => rng.range_u128(10_000, 2_000_000),
            _ => rng.range_u128(10, 20_000),
        }
    };
    match kind {
        0 => Action::UpdateFees,
        1 => {
            let long_in = rng.bool();
            let p = if long_in { sc.p_long } else { sc.p_short };
            let mut amount = amt(usd(rng), p);
            if rng.chance(1, 20) {
                amount = *rng.pick(&[0u128, 1, u128::MAX, u64::MAX as u128]);
            }
            Action::Swap { long_in, amount, pricing: rng.below(4) as u8 }
        }
        2 => {
            let mut long = if rng.chance(1, 4) { 0 } else { amt(usd(rng), sc.p_long) };
            let mut short = if sc.pure_market || rng.chance(1, 4) { if sc.pure_market && rng.bool() { amt(usd(rng), sc.p_long) } else { 0 } } else { amt(usd(rng), sc.p_short) };
            if rng.chance(1, 25) {
                long = *rng.pick(&[0u128, 1, u128::MAX, u64::MAX as u128]);
            }
            if rng.chance(1, 25) {
                short = *rng.pick(&[0u128, 1, u64::MAX as u128]);
            }
            Action::Deposit { long, short }
        }
        3 => {
            let amount = match rng.below(8) {
                0 => sc.supply as u128,
                1 => sc.supply as u128 + 1,
                2 => 0,
                3 => 1,
                _ => sc.supply as u128 / 10_000 * rng.range(1, 6_000) as u128,
            };
            Action::Withdraw { amount }
        }
        4 => {
            let p = pos.unwrap();
            let coll_long = p.collateral_token == sc.long_token;
            let pc = if coll_long { sc.p_long } else { sc.p_short };
            let cv = usd(rng);
            let lev = rng.range(1, 30) as u128;
            let collateral = if rng.chance(1, 6) { 0 } else { amt(cv, pc) };
            let size_delta_usd = if rng.chance(1, 10) { 0 } else { cv * lev * UNIT };
            let is_long = p.kind == 1;
            let acceptable = match rng.below(5) {
                0 => Some(if is_long { sc.p_index * 2 } else { sc.p_index / 2 }),
                1 => Some(if is_long { sc.p_index / 2 } else { sc.p_index * 2 }), // unacceptable
                _ => None,
            };
            Action::Increase { collateral, size_delta_usd, acceptable }
        }
        _ => {
            let p = pos.unwrap();
            let size = p.state.size_in_usd;
            let size_delta_usd = match rng.below(6) {
                0 => size,
                1 => 0,
                2 => size.saturating_add(UNIT),
                _ => size / 100 * rng.range(1, 99) as u128,
            };
            let withdraw = match rng.below(4) {
                0 => p.state.collateral_amount / 100 * rng.range(1, 50) as u128,
                1 => p.state.collateral_amount,
                _ => 0,
            };
            let is_long = p.kind == 1;
            let acceptable = match rng.below(6) {
                0 => Some(if is_long { sc.p_index / 2 } else { sc.p_index * 2 }),
                1 => Some(if is_long { sc.p_index * 2 } else { sc.p_index / 2 }), // unacceptable
                _ => None,
            };
            Action::Decrease { size_delta_usd, acceptable, withdraw, insolvent_ok: rng.chance(1, 4), liquidation: rng.chance(1, 6), cap: rng.chance(1, 3) }
        }
    }
}

/// A market that names a virtual inventory but is used without one is refused by both sides, with
/// different wording (program: "not enabled when the market is used directly", SDK: "should be present
/// but is missing"): compared as the same refusal.
fn norm_vi(s: &str) -> String {
    if s.contains("virtual inventory") && s.contains("Err") {
        "Err(virtual inventory unavailable)".to_string()
    } else {
        s.to_string()
    }
}

/// Error class for coverage counters: the message up to its first digit (keeps the key set small).
fn err_class(e: &str) -> String {
    e.chars().take_while(|c| !c.is_ascii_digit()).take(64).collect::<String>().trim_end().to_string()
}

fn outcome_str(o: &Result<Outcome, String>) -> String {
    match o {
        Err(p) => format!("panic: {p}"),
        Ok(o) => format!("result={:?} report={} post={:?} trade_count={:?}", o.result.as_ref().map(|_| "ok"), o.report_dbg, o.post, o.trade_count),
    }
}

fn prices_json(p: &Prices<u128>) -> vcommon::serde_json::Value {
    let f = |x: &Price<u128>| json!({"min": x.min.to_string(), "max": x.max.to_string()});
    json!({"index": f(&p.index_token_price), "long": f(&p.long_token_price), "short": f(&p.short_token_price)})
}

fn part_a(m: &mut Monitor, rng: &mut Rng, fully_random: bool) {
    m.eval();
    let mut sc = gen_scene(rng, false);
    if fully_random {
        rng.fill(&mut sc.market);
        if rng.bool() {
            // keep clocks near `now` so that passed-seconds are not all saturated
            let off = std::mem::offset_of!(SdkMarket, state) + std::mem::offset_of!(gmsol_programs::gmsol_store::types::State, clocks);
            for i in 0..5 {
                let t = sc.now - rng.range_i64(-100, 100_000);
                sc.market[off + 16 + 8 * i..off + 24 + 8 * i].copy_from_slice(&t.to_le_bytes());
            }
        }
    } else if rng.chance(1, 3) {
        // virtual inventory addresses set (program's direct market view must refuse, SDK without VI model too)
        let mut mk = sdk_market(&sc.market).unwrap();
        if rng.bool() {
            mk.virtual_inventory_for_swaps = util::pk("vi-swaps", 1);
        }
        if rng.bool() {
            mk.virtual_inventory_for_positions = util::pk("vi-positions", 1);
        }
        sc.market = bytemuck::bytes_of(&mk).to_vec();
    }
    let buf = Aligned::from_bytes(&sc.market);
    let prog: &Market = buf.view::<Market>();
    let sdk = match sdk_market(&sc.market) {
        Ok(s) => s,
        Err(e) => {
            m.violation("C40:sdk_decode:failed", json!({"error": e}));
            return;
        }
    };
    let model = MarketModel::from_parts(Arc::new(sdk), sc.supply);
    let wit = |what: &str, detail: vcommon::serde_json::Value| json!({"what": what, "market_bytes_hex": util::hex(&sc.market), "prices": prices_json(&sc.prices), "now": sc.now, "supply": sc.supply, "detail": detail});

    // ---- plain fields ----
    let mut diffs: Vec<String> = vec![];
    {
        let mut chk = |name: &str, a: String, b: String| {
            if a != b {
                diffs.push(format!("{name}: program={a} sdk={b}"));
            }
        };
        chk("meta", format!("{:?}", (prog.meta().market_token_mint, prog.meta().index_token_mint, prog.meta().long_token_mint, prog.meta().short_token_mint)), format!("{:?}", (model.meta.market_token_mint, model.meta.index_token_mint, model.meta.long_token_mint, model.meta.short_token_mint)));
        chk("store", prog.store.to_string(), model.store.to_string());
        chk("name", format!("{:?}", prog.name().ok()), format!("{:?}", model.name().ok()));
        // duplicated flag enums: program accessors vs the SDK's flag container and its private copy
        let flags = [MarketFlag::Enabled, MarketFlag::Pure, MarketFlag::AutoDeleveragingEnabledForLong, MarketFlag::AutoDeleveragingEnabledForShort, MarketFlag::GTEnabled, MarketFlag::Closed];
        let names = ["enabled", "pure", "adl_long", "adl_short", "gt", "closed"];
        let pvals = [prog.is_enabled(), prog.is_pure(), prog.is_adl_enabled(true), prog.is_adl_enabled(false), prog.is_gt_minting_enabled(), prog.is_closed()];
        for (i, f) in flags.into_iter().enumerate() {
            chk(&format!("flag:{}", names[i]), pvals[i].to_string(), model.flags.get_flag(f).to_string());
        }
        chk("is_pure(model)", prog.is_pure().to_string(), model.is_pure().to_string());
        for f in MarketConfigFlag::iter() {
            chk(&format!("config_flag:{f}"), prog.get_config_flag_by_key(f).to_string(), model.config.flag.get_flag(f).to_string());
        }
        for k in MarketConfigKey::iter() {
            chk(&format!("config:{k}"), format!("{:?}", prog.get_config_by_key(k)), format!("{:?}", model.config.get(k)));
        }
        for k in [ClockKind::PriceImpactDistribution, ClockKind::Borrowing, ClockKind::Funding, ClockKind::AdlForLong, ClockKind::AdlForShort] {
            chk(&format!("clock:{k:?}"), format!("{:?}", prog.clock(k)), format!("{:?}", model.state.clocks.get(k)));
        }
        for k in PoolKind::iter() {
            let a = prog.pool(k).map(|p| prog_pool_raw(&p));
            let b = sdk_pool(&model.state.pools, k);
            chk(&format!("pool_raw:{k}"), format!("{a:?}"), format!("{b:?}"));
        }
        let o = prog.state();
        chk("other", format!("{} {} {} {}", o.long_token_balance_raw(), o.short_token_balance_raw(), o.funding_factor_per_second(), o.trade_count()), format!("{} {} {} {}", model.state.other.long_token_balance, model.state.other.short_token_balance, model.state.other.funding_factor_per_second, model.state.other.trade_count));
        let ix = prog.indexer();
        chk("indexer", format!("{} {} {} {} {} {}", ix.deposit_count(), ix.withdrawal_count(), ix.order_count(), ix.shift_count(), ix.glv_deposit_count(), ix.glv_withdrawal_count()), format!("{} {} {} {} {} {}", model.indexer.deposit_count, model.indexer.withdrawal_count, model.indexer.order_count, model.indexer.shift_count, model.indexer.glv_deposit_count, model.indexer.glv_withdrawal_count));
        chk("vi_swaps", format!("{:?}", prog.virtual_inventory_for_swaps()), format!("{:?}", (model.virtual_inventory_for_swaps != Pubkey::default()).then_some(&model.virtual_inventory_for_swaps)));
        chk("vi_positions", format!("{:?}", prog.virtual_inventory_for_positions()), format!("{:?}", (model.virtual_inventory_for_positions != Pubkey::default()).then_some(&model.virtual_inventory_for_positions)));
    }
    // ---- model traits ----
    let mint = make_mint(sc.supply);
    let r = guard(|| {
        let mut a = vec![];
        snapshot(prog, &sc.prices, &mut a);
        liquidity_snapshot(&prog.as_liquidity_market(&mint), &sc.prices, &mut a);
        a
    });
    let s = guard(|| {
        let mut a = vec![];
        snapshot(&model, &sc.prices, &mut a);
        liquidity_snapshot(&model, &sc.prices, &mut a);
        a
    });
    match (r, s) {
        (Ok(a), Ok(b)) => {
            for (x, y) in a.iter().zip(b.iter()) {
                if x.0 != y.0 || norm_vi(&x.1) != norm_vi(&y.1) {
                    diffs.push(format!("{}: program={} sdk={}", x.0, x.1, y.1));
                }
            }
            m.add("accessors_compared", a.len() as u64);
        }
        (a, b) => {
            // a panic on one side only is a disagreement; on both sides it is counted
            match (&a, &b) {
                (Err(_), Err(_)) => m.count("both_panicked_on_same_bytes"),
                _ => diffs.push(format!("panic on one side: program={:?} sdk={:?}", a.as_ref().err(), b.as_ref().err())),
            }
        }
    }
    // ---- position view on the same market ----
    if !fully_random || rng.bool() {
        let (pos, _) = gen_position(rng, &sc, false);
        if let Ok(spos) = sdk_position(bytemuck::bytes_of(&pos)) {
            let pa = guard(|| {
                let mut a = vec![];
                match pos.as_position(prog) {
                    Ok(p) => position_snapshot(&p, &sc.prices, &mut a),
                    Err(e) => a.push(("as_position".into(), format!("Err({e})"))),
                }
                a
            });
            let sa = guard(|| {
                let mut a = vec![];
                match PositionModel::new(model.clone(), Arc::new(spos)) {
                    Ok(p) => position_snapshot(&p, &sc.prices, &mut a),
                    Err(e) => a.push(("as_position".into(), format!("Err({e})"))),
                }
                a
            });
            if let (Ok(a), Ok(b)) = (pa, sa) {
                if a.len() == b.len() && a.len() > 1 {
                    for (x, y) in a.iter().zip(b.iter()) {
                        if x.0 != y.0 || norm_vi(&x.1) != norm_vi(&y.1) {
                            diffs.push(format!("{}: program={} sdk={}", x.0, x.1, y.1));
                        }
                    }
                    m.add("position_accessors_compared", a.len() as u64);
                } else {
                    m.count("position_view_not_constructible_on_one_side");
                }
            }
        }
    }
    if diffs.is_empty() {
        m.count(if fully_random { "views_equal_random_bytes" } else { "views_equal_structured" });
        let sig = vcommon::rng::fnv(&sc.market);
        m.nontrivial_hash(sig);
    } else {
        let first = diffs[0].split(':').next().unwrap_or("").to_string();
        let class = first.split('(').next().unwrap_or("").to_string();
        m.violation(&format!("C40:view:{class}:differs"), wit("accessor values differ on identical bytes", json!(diffs.iter().take(12).collect::<Vec<_>>())));
    }
}

fn part_b(m: &mut Monitor, rng: &mut Rng, w: &World) {
    let kind = rng.below(6);
    let for_positions = kind >= 4;
    let sc = gen_scene(rng, for_positions);
    let (pos, store_mismatch) = if for_positions {
        let fresh = kind == 4 && rng.chance(1, 3);
        let (p, sm) = gen_position(rng, &sc, fresh);
        (Some(p), sm)
    } else {
        (None, false)
    };
    let action = gen_action(rng, &sc, kind, pos.as_ref());
    m.eval();
    w.load(&sc, pos.as_ref());
    util::set_clock(sc.now, 12345);
    let cpi_before = util::cpi_count();
    let p = run_program(w, &sc, &action);
    let cpis = util::cpi_count() - cpi_before;
    let s = run_sdk(&sc, pos.as_ref(), &action);
    let name = action.name();
    let wit = |what: &str, p: &Result<Outcome, String>, s: &Result<Outcome, String>| {
        json!({
            "what": what, "action": action.to_json(), "prices": prices_json(&sc.prices), "now": sc.now, "supply": sc.supply, "order_fee_discount_factor": sc.order_fee_discount.to_string(),
            "market_bytes_hex": util::hex(&sc.market),
            "position_bytes_hex": pos.as_ref().map(|p| util::hex(bytemuck::bytes_of(p))),
            "program": outcome_str(p),
            "sdk": outcome_str(s),
        })
    };
    let (po, so) = match (&p, &s) {
        (Ok(a), Ok(b)) => (a, b),
        (Err(_), Err(_)) => {
            m.count(&format!("{name}:both_panicked"));
            return;
        }
        _ => {
            m.violation(&format!("C40:sim:{name}:panic_on_one_side"), wit("one side panicked", &p, &s));
            return;
        }
    };
    if let Err(e) = &po.result {
        if e.starts_with("harness:") {
            m.inconclusive(&format!("harness could not build program-side accounts: {e}"));
            return;
        }
    }
    // program-only validation of position vs market status (SDK's on_validate is a no-op by design)
    let validation_flaw = for_positions && (sc.closed || !sc.enabled || store_mismatch);
    match (&po.result, &so.result) {
        (Ok(a), Ok(b)) => {
            if validation_flaw {
                // e.g. a full close: the model does not call on_validate for a position that is removed
                m.count(&format!("{name}:ok_without_status_validation(position removed or not validated)"));
            }
            if a != b {
                m.violation(&format!("C40:sim:{name}:report_differs"), wit("reports differ", &p, &s));
                return;
            }
            let (pp, sp) = (po.post.as_ref().unwrap(), so.post.as_ref().unwrap());
            if pp != sp {
                let mut which = "post_state";
                if pp.pools != sp.pools {
                    which = "pools";
                } else if pp.clocks != sp.clocks {
                    which = "clocks";
                } else if pp.balances != sp.balances {
                    which = "balances";
                } else if pp.position != sp.position {
                    which = "position";
                } else if pp.minted_burnt != sp.minted_burnt {
                    which = "mint_burn";
                }
                m.violation(&format!("C40:sim:{name}:{which}_differ"), wit("resulting state differs", &p, &s));
                return;
            }
            // committed storage == SDK's final market (swap / fees / position actions are committed)
            if !matches!(action, Action::Deposit { .. } | Action::Withdraw { .. }) {
                let data = w.market.data();
                match sdk_market(&data[8..]) {
                    Ok(stored) => {
                        let committed = post_of_sdk(&stored, pp.position, None);
                        if committed != *sp {
                            m.violation(&format!("C40:sim:{name}:committed_storage_differs"), wit("market account after commit differs from the SDK's final state", &p, &s));
                            return;
                        }
                        m.count("committed_storage_equal");
                    }
                    Err(e) => m.inconclusive(&format!("cannot decode committed market: {e}")),
                }
                if cpis == 0 {
                    m.count("note_commit_without_event_cpi");
                }
            }
            // documented bookkeeping difference: program bumps trade_count on position changes
            if let (Some(a), Some(b)) = (po.trade_count, so.trade_count) {
                if for_positions {
                    if a == b + 1 || a == b {
                        m.count("trade_count_program_plus_one_or_equal(documented)");
                    } else {
                        m.violation(&format!("C40:sim:{name}:trade_count_unexpected"), wit("trade_count", &p, &s));
                    }
                } else if a != b {
                    m.violation(&format!("C40:sim:{name}:trade_count_unexpected"), wit("trade_count", &p, &s));
                }
            }
            m.count(&format!("{name}:ok_equal"));
            let d = &po.report_dbg;
            match name {
                "update_fees" => {
                    if !d.contains("delta_funding_amount_per_size: [0, 0, 0, 0]") {
                        m.count("update_fees:nonzero_funding_delta");
                    }
                    if !d.contains("distribution_amount: 0,") {
                        m.count("update_fees:nonzero_impact_distribution");
                    }
                    if d.contains("duration_in_seconds: 0,") {
                        m.count("update_fees:zero_duration_on_some_clock");
                    }
                }
                "swap" => {
                    if !d.contains("price_impact_value: 0,") {
                        m.count("swap:nonzero_price_impact");
                    }
                }
                "decrease" => {
                    if d.contains("should_remove: true") {
                        m.count("decrease:position_removed");
                    }
                    if !d.contains("secondary_output_amount: 0") {
                        m.count("decrease:with_secondary_output");
                    }
                }
                "deposit" => {
                    if !d.contains("minted: 0,") {
                        m.count("deposit:minted_nonzero");
                    }
                }
                _ => {}
            }
            if sc.pure_market {
                m.count(&format!("{name}:ok_equal_pure_market"));
            }
            if sc.closed {
                m.count(&format!("{name}:ok_equal_closed_market"));
            }
            let h = vcommon::rng::fnv(a) ^ vcommon::rng::fnv(name.as_bytes());
            m.nontrivial_hash(h);
            if m.wants_sample() {
                m.sample(json!({"action": action.to_json(), "pure_market": sc.pure_market, "report": po.report_dbg.chars().take(600).collect::<String>()}));
            }
        }
        (Err(a), Err(b)) => {
            if a == b {
                m.count(&format!("{name}:err_equal"));
                m.count(&format!("err_msg[{name}] {}", err_class(a)));
            } else if validation_flaw && a.contains("invalid, closed or disabled market") {
                m.count(&format!("{name}:program_only_status_validation(documented)"));
            } else {
                // both report failure; the wording differs (e.g. burn > supply: program "not enough market
                // tokens to burn", SDK "overflow") — same result class, recorded
                m.count(&format!("{name}:err_both_different_message"));
                m.count(&format!("err_pair[{name}] program='{}' sdk='{}'", err_class(a), err_class(b)));
            }
        }
        (Err(a), Ok(_)) => {
            if validation_flaw && (a.contains("invalid, closed or disabled market")) {
                m.count(&format!("{name}:program_only_status_validation(documented)"));
            } else {
                m.violation(&format!("C40:sim:{name}:program_fails_sdk_succeeds"), wit("program failed, SDK succeeded", &p, &s));
            }
        }
        (Ok(_), Err(_)) => {
            m.violation(&format!("C40:sim:{name}:sdk_fails_program_succeeds"), wit("SDK failed, program succeeded", &p, &s));
        }
    }
}

pub fn run(args: &Args) -> i32 {
    let mut mon = Monitor::new(
        args,
        "(a) case = Market bytes, either structured (real Market::init defaults, then randomised config / 16 pools / clocks / balances / flags incl. pure markets, closed-market parameters, virtual-inventory addresses, occasional absurd value) or fully random bytes, read through the program's Market (+AsLiquidityMarket, AsPosition) and the SDK's MarketModel (+PositionModel): every model-trait accessor and ~60 derived computations at random prices; plus the static layout table. (b) case = structured market + random action {fee-state update, swap, deposit, withdrawal, increase, decrease} executed on the program's revertible types and on the SDK model at the same pinned time. Non-trivial = (a) all views equal on that byte string (distinct by hash of the bytes), (b) action succeeded on both sides with equal report and state (distinct by hash of the report).",
    );
    let per_shard_a = util::scaled(args, 12_000, 180_000);
    let per_shard_b = util::scaled(args, 100_000, 1_500_000);
    let shards = 64u64;
    // static layout table once
    crate::layout::check(&mut mon);
    let quiet = util::silence_stdout();
    vcommon::monitor::run_shards(&mut mon, args.threads, shards, |shard, m| {
        let mut rng = Rng::derive(args.seed, shard, 40);
        for i in 0..per_shard_a {
            part_a(m, &mut rng, i % 3 == 2);
        }
        let w = World::new();
        for _ in 0..per_shard_b {
            part_b(m, &mut rng, &w);
        }
    });
    quiet.restore();
    crate::util::req(args, &mut mon, "layout_accounts_equal", 20);
    crate::util::req(args, &mut mon, "views_equal_structured", 1_000);
    crate::util::req(args, &mut mon, "views_equal_random_bytes", 500);
    crate::util::req(args, &mut mon, "accessors_compared", 100_000);
    crate::util::req(args, &mut mon, "position_accessors_compared", 10_000);
    for a in ["update_fees", "swap", "deposit", "withdraw", "increase", "decrease"] {
        crate::util::req(args, &mut mon, &format!("{a}:ok_equal"), 500);
        crate::util::req(args, &mut mon, &format!("{a}:err_equal"), 50);
    }
    crate::util::req(args, &mut mon, "swap:ok_equal_pure_market", 0);
    crate::util::req(args, &mut mon, "deposit:ok_equal_pure_market", 50);
    crate::util::req(args, &mut mon, "committed_storage_equal", 1_000);
    mon.set_extra(
        "documented_differences_not_compared",
        json!([
            "position bookkeeping written by the program's on_increased/on_decreased hooks (trade_id, increased_at/decreased_at, updated_at_slot) and the market's trade_count: the SDK's PositionModel hooks are no-ops by design",
            "position-vs-market status validation (market closed / disabled / store mismatch) exists only in the program's on_validate; the SDK's is a no-op — counted as program_only_status_validation",
            "virtual inventories: part (b) runs with virtual inventories disabled on both sides (program: none passed; SDK: markets without VI addresses)",
            "deposit / withdrawal on the program side are compared on the buffered (pre-commit) view and the deferred mint/burn amounts; the commit itself would CPI into the token program",
            "revision counters (rev fields) of pools/clocks/other state are revertible-buffer bookkeeping and are not part of the SDK model"
        ]),
    );
    mon.assume("program side of (b) is driven at the model-trait level through the cfg(gmsol_verif) wrappers, not through instructions (instruction-level differential is a separate check)");
    mon.finish()
}
