pub fn run(_args: &vcommon::Args) -> i32 {
    2
}
