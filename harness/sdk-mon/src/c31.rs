//! C31 — order fee discount: `Store::order_fee_discount_factor` (program) vs BigInt oracle
//! `1 - (1-rank)(1-referral)` and vs the SDK copy in `gmsol_programs::utils::store` on the same bytes.

use bytemuck::Zeroable;
use gmsol_programs::gmsol_store::accounts::Store as SdkStore;
use gmsol_store::states::Store;
use vcommon::big::{b, div_floor};
use vcommon::monitor::guard;
use vcommon::{json, Args, Monitor, Rng};

const UNIT: u128 = 100_000_000_000_000_000_000; // 10^20

fn gen_factor(rng: &mut Rng) -> u128 {
    match rng.below(8) {
        0 => *rng.pick(&[0u128, 1, 2, UNIT - 1, UNIT, UNIT / 2, UNIT / 10, UNIT / 1000 * 25, UNIT / 3]),
        1 => rng.range_u128(0, UNIT),
        2 => UNIT - rng.log_u128(UNIT),
        _ => rng.biased_u128(UNIT, UNIT / 100),
    }
}

pub fn sdk_store_from(store: &Store) -> Result<SdkStore, String> {
    gmsol_sdk::utils::zero_copy::try_deserialize_zero_copy_with_options::<SdkStore>(bytemuck::bytes_of(store), true)
        .map(|z| z.0)
        .map_err(|e| e.to_string())
}

pub fn run(args: &Args) -> i32 {
    let mut mon = Monitor::new(
        args,
        "case = fresh zeroed Store; GT state initialised through the real GtState::init (hook) with 0..=15 strictly increasing rank thresholds; discount table set through the real set_order_fee_discount_factors with factors in [0,100%] (boundary-biased: 0,1,100%-1,100%, log-uniform near both ends); referral factor written through Store::get_factor_mut (mostly <=100%, sometimes >100%); then every rank 0..=17 and a few up to 255 x {unreferred, referred}. Non-trivial = referred query with rank and referral factors both non-zero (combination formula exercised); distinct = hash(rank, max_rank, bit lengths of both factors, whether the product has a fractional part).",
    );
    let cases = crate::util::scaled(args, 40_000, 600_000);
    let shards = 64u64;
    crate::util::set_clock(1_700_000_000, 1);
    vcommon::monitor::run_shards(&mut mon, args.threads, shards, |shard, m| {
        crate::util::set_clock(1_700_000_000, 1);
        let mut rng = Rng::derive(args.seed, shard, 31);
        let mut store: Box<Store> = Box::new(Store::zeroed());
        for _ in 0..cases {
            *store = Store::zeroed();
            // ---- rank thresholds through the real init ----
            let n_ranks = match rng.below(6) {
                0 => 0,
                1 => 15,
                2 => rng.range(16, 20) as usize, // more than MAX_RANK: init keeps the first 15
                _ => rng.range(1, 15) as usize,
            };
            let mut ranks: Vec<u64> = vec![];
            let mut cur = rng.log_u64(1 << 40);
            for _ in 0..n_ranks {
                cur = cur.saturating_add(1 + rng.log_u64(1 << 40));
                ranks.push(cur);
            }
            let init = guard(|| store.verif_gt_mut().verif_init(6, UNIT / 20, UNIT + UNIT / 100, 100_000_000, &ranks).is_ok());
            if init != Ok(true) {
                m.inconclusive(&format!("GtState::init failed in the harness: {init:?}"));
                return;
            }
            let max_rank = n_ranks.min(15);
            // ---- setter: rejected inputs leave the state unchanged ----
            let before = bytemuck::bytes_of(&*store).to_vec();
            if rng.chance(1, 3) {
                m.eval();
                let mut bad: Vec<u128> = (0..=max_rank).map(|_| gen_factor(&mut rng)).collect();
                let k = rng.below(bad.len() as u64) as usize;
                bad[k] = UNIT + 1 + rng.log_u128(u128::MAX - UNIT - 1);
                let r = guard(|| store.verif_gt_mut().verif_set_order_fee_discount_factors(&bad).is_ok());
                if r != Ok(false) || bytemuck::bytes_of(&*store) != &before[..] {
                    m.violation("C31:set_order_fee_discount_factors:accepts_over_100pct", json!({"factors": bad.iter().map(|x| x.to_string()).collect::<Vec<_>>(), "max_rank": max_rank, "result": format!("{r:?}")}));
                } else {
                    m.count("setter_rejected_factor_over_100pct");
                }
            }
            if rng.chance(1, 4) {
                m.eval();
                let len = if rng.bool() { max_rank } else { max_rank + 2 };
                let bad: Vec<u128> = (0..len).map(|_| gen_factor(&mut rng)).collect();
                let r = guard(|| store.verif_gt_mut().verif_set_order_fee_discount_factors(&bad).is_ok());
                if r != Ok(false) || bytemuck::bytes_of(&*store) != &before[..] {
                    m.violation("C31:set_order_fee_discount_factors:accepts_wrong_length", json!({"len": len, "max_rank": max_rank, "result": format!("{r:?}")}));
                } else {
                    m.count("setter_rejected_wrong_length");
                }
            }
            let table: Vec<u128> = (0..=max_rank).map(|_| gen_factor(&mut rng)).collect();
            let r = guard(|| store.verif_gt_mut().verif_set_order_fee_discount_factors(&table).is_ok());
            if r != Ok(true) {
                m.violation("C31:set_order_fee_discount_factors:rejects_valid_table", json!({"factors": table.iter().map(|x| x.to_string()).collect::<Vec<_>>(), "max_rank": max_rank, "result": format!("{r:?}")}));
                continue;
            }
            // ---- referral factor through the store key ----
            let referral: u128 = if rng.chance(1, 12) {
                UNIT + 1 + rng.log_u128(u128::MAX - UNIT - 1)
            } else {
                gen_factor(&mut rng)
            };
            match store.get_factor_mut("order_fee_discount_for_referred_user") {
                Ok(f) => *f = referral,
                Err(e) => {
                    m.inconclusive(&format!("cannot write referral factor: {e}"));
                    return;
                }
            }
            let sdk = match sdk_store_from(&store) {
                Ok(s) => s,
                Err(e) => {
                    m.violation("C31:sdk_decode:failed", json!({"error": e}));
                    continue;
                }
            };
            let mut ranks_to_try: Vec<u8> = (0..=17).collect();
            ranks_to_try.push(rng.range(18, 255) as u8);
            ranks_to_try.push(255);
            for rank in ranks_to_try {
                for referred in [false, true] {
                    m.eval();
                    let p = guard(|| store.order_fee_discount_factor(rank, referred).map_err(|e| e.to_string()));
                    let s = guard(|| sdk.order_fee_discount_factor(rank, referred).map_err(|e| e.to_string()));
                    let wit = json!({
                        "rank": rank, "is_referred": referred, "max_rank": max_rank,
                        "table": table.iter().map(|x| x.to_string()).collect::<Vec<_>>(),
                        "referral_factor": referral.to_string(),
                        "program": format!("{p:?}"), "sdk": format!("{s:?}"),
                    });
                    // a panic is an aborted call (the property has no never-panics clause): counted, treated as refusal
                    let p: Result<u128, String> = match p {
                        Ok(r) => r,
                        Err(e) => {
                            m.count("panics_program");
                            Err(format!("panic: {e}"))
                        }
                    };
                    let s: Result<u128, String> = match s {
                        Ok(r) => r,
                        Err(e) => {
                            m.count("panics_sdk");
                            Err(format!("panic: {e}"))
                        }
                    };
                    // SDK copy agrees exactly
                    match (&p, &s) {
                        (Ok(a), Ok(c)) if a == c => m.count("sdk_equal_value"),
                        (Err(_), Err(_)) => m.count("sdk_equal_error"),
                        _ => {
                            m.violation("C31:sdk_vs_program:differs", wit.clone());
                        }
                    }
                    if rank as usize > max_rank {
                        if p.is_ok() {
                            m.violation("C31:order_fee_discount_factor:rank_above_max_accepted", wit);
                        } else {
                            m.count("rank_above_max_rejected");
                        }
                        continue;
                    }
                    let a = table[rank as usize];
                    if !referred {
                        match p {
                            Ok(v) if v == a => m.count("unreferred_equals_table"),
                            _ => m.violation("C31:order_fee_discount_factor:unreferred_not_table_value", wit),
                        }
                        continue;
                    }
                    if referral > UNIT {
                        // outside the property's domain (referral discount above 100%): must not yield a value above 100%
                        match p {
                            Err(_) => m.count("referral_over_100pct_refused"),
                            Ok(v) if v <= UNIT => m.count("referral_over_100pct_value_within_bounds"),
                            Ok(_) => m.violation("C31:order_fee_discount_factor:above_100pct", wit),
                        }
                        continue;
                    }
                    let v = match p {
                        Ok(v) => v,
                        Err(_) => {
                            m.violation("C31:order_fee_discount_factor:refuses_valid_input", wit);
                            continue;
                        }
                    };
                    // exact E = UNIT - (UNIT-a)(UNIT-r)/UNIT, as a rational with denominator UNIT
                    let e_num = b(UNIT) * b(UNIT) - (b(UNIT) - b(a)) * (b(UNIT) - b(referral));
                    let v_num = b(v) * b(UNIT);
                    let diff = (&v_num - &e_num).magnitude().clone();
                    if diff >= b(UNIT).magnitude().clone() {
                        m.violation("C31:order_fee_discount_factor:off_by_more_than_rounding", wit);
                        continue;
                    }
                    if b(v) == div_floor(&e_num, &b(UNIT)) {
                        m.count("observed_rounding_floor");
                    } else {
                        m.count("observed_rounding_not_floor");
                    }
                    if v > UNIT {
                        m.violation("C31:order_fee_discount_factor:above_100pct", wit);
                        continue;
                    }
                    if v < a {
                        m.violation("C31:order_fee_discount_factor:referred_below_unreferred", wit);
                        continue;
                    }
                    m.count("referred_checked");
                    if a == UNIT || referral == UNIT {
                        m.count("boundary_100pct_factor");
                    }
                    if a != 0 && referral != 0 {
                        let frac = (b(a) * b(referral)) % b(UNIT) != b(0);
                        m.nontrivial(&[rank, max_rank as u8, (128 - a.leading_zeros()) as u8, (128 - referral.leading_zeros()) as u8, frac as u8]);
                        if frac {
                            m.count("referred_with_fractional_product");
                        }
                        if m.wants_sample() {
                            m.sample(json!({"rank": rank, "max_rank": max_rank, "rank_factor": a.to_string(), "referral_factor": referral.to_string(), "program": v.to_string(), "sdk": format!("{s:?}")}));
                        }
                    }
                }
            }
            m.count("stores");
        }
    });
    crate::util::req(args, &mut mon, "stores", 1000);
    crate::util::req(args, &mut mon, "referred_checked", 10_000);
    crate::util::req(args, &mut mon, "referred_with_fractional_product", 1_000);
    crate::util::req(args, &mut mon, "unreferred_equals_table", 10_000);
    crate::util::req(args, &mut mon, "rank_above_max_rejected", 10_000);
    crate::util::req(args, &mut mon, "sdk_equal_value", 10_000);
    crate::util::req(args, &mut mon, "setter_rejected_factor_over_100pct", 100);
    crate::util::req(args, &mut mon, "boundary_100pct_factor", 100);
    mon.assume("'up to rounding' is bounded explicitly: |program - exact| < 1 unit of the 20-decimal factor (the code's floor of rank*(1-referral) is additionally recorded as observed_rounding_floor)");
    mon.assume("referral discounts above 100% are outside the property's quantifier; for them only 'no value above 100%' is checked");
    mon.finish()
}
