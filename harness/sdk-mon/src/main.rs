//! sdk-mon: SDK vs program differential monitors (C15, C16, C31, C40, C42, C43).

mod c15;
mod c16;
mod c31;
mod c40;
mod c42;
mod c43;
mod layout;
mod util;

fn main() {
    let args = vcommon::Args::parse();
    util::install_stubs();
    let code = match args.id.as_str() {
        "C15" => c15::run(&args),
        "C16" => c16::run(&args),
        "C31" => c31::run(&args),
        "C40" => c40::run(&args),
        "C42" => c42::run(&args),
        "C43" => c43::run(&args),
        other => {
            eprintln!("no monitor for {other}");
            2
        }
    };
    std::process::exit(code);
}
