//! Harness-side plumbing shared by the sdk-mon monitors: syscall stubs (silent logs, harness clock),
//! 16-byte aligned account buffers / `AccountInfo`s, byte helpers. Nothing here re-implements repo logic.

use anchor_lang::prelude::{AccountInfo, Pubkey};
use anchor_lang::solana_program::{
    clock::Clock, entrypoint::ProgramResult, instruction::Instruction, program_stubs,
};
use std::cell::Cell;
use std::sync::Once;

thread_local! {
    static CLOCK_TS: Cell<i64> = const { Cell::new(0) };
    static CLOCK_SLOT: Cell<u64> = const { Cell::new(0) };
    static CPI_COUNT: Cell<u64> = const { Cell::new(0) };
}

struct Stubs;

impl program_stubs::SyscallStubs for Stubs {
    fn sol_log(&self, _message: &str) {}
    fn sol_log_compute_units(&self) {}
    fn sol_remaining_compute_units(&self) -> u64 {
        u64::MAX
    }
    fn sol_invoke_signed(
        &self,
        _instruction: &Instruction,
        _account_infos: &[AccountInfo],
        _signers_seeds: &[&[&[u8]]],
    ) -> ProgramResult {
        CPI_COUNT.with(|c| c.set(c.get() + 1));
        Ok(())
    }
    fn sol_get_clock_sysvar(&self, var_addr: *mut u8) -> u64 {
        let clock = Clock {
            slot: CLOCK_SLOT.with(|c| c.get()),
            epoch_start_timestamp: 0,
            epoch: 0,
            leader_schedule_epoch: 0,
            unix_timestamp: CLOCK_TS.with(|c| c.get()),
        };
        // SAFETY: `var_addr` points at a `Clock` (see `impl_sysvar_get!`).
        unsafe { std::ptr::write_unaligned(var_addr as *mut Clock, clock) };
        0
    }
    fn sol_get_last_restart_slot(&self, var_addr: *mut u8) -> u64 {
        // SAFETY: `var_addr` points at a `LastRestartSlot { last_restart_slot: u64 }`.
        unsafe { std::ptr::write_unaligned(var_addr as *mut u64, 0u64) };
        0
    }
    fn sol_log_data(&self, _fields: &[&[u8]]) {}
    fn sol_get_stack_height(&self) -> u64 {
        1
    }
}

static INSTALL: Once = Once::new();

/// Install the process-wide syscall stubs (clock values are per thread).
pub fn install_stubs() {
    INSTALL.call_once(|| {
        let _ = program_stubs::set_syscall_stubs(Box::new(Stubs));
    });
}

/// Set the time seen by the program (`Clock` sysvar) and by the SDK model (hook H3) on this thread.
pub fn set_clock(ts: i64, slot: u64) {
    CLOCK_TS.with(|c| c.set(ts));
    CLOCK_SLOT.with(|c| c.set(slot));
    gmsol_programs::model::verif_clock::set_now_override(Some(ts));
}

pub fn cpi_count() -> u64 {
    CPI_COUNT.with(|c| c.get())
}

/// Heap buffer whose byte view starts 16-byte aligned.
pub struct Aligned {
    v: Vec<u128>,
    len: usize,
}

impl Aligned {
    pub fn zeroed(len: usize) -> Self {
        Self {
            v: vec![0u128; len.div_ceil(16)],
            len,
        }
    }
    pub fn from_bytes(b: &[u8]) -> Self {
        let mut a = Self::zeroed(b.len());
        a.bytes_mut().copy_from_slice(b);
        a
    }
    pub fn bytes(&self) -> &[u8] {
        &bytemuck::cast_slice::<u128, u8>(&self.v)[..self.len]
    }
    pub fn bytes_mut(&mut self) -> &mut [u8] {
        let len = self.len;
        &mut bytemuck::cast_slice_mut::<u128, u8>(&mut self.v)[..len]
    }
    pub fn view<T: bytemuck::Pod>(&self) -> &T {
        bytemuck::from_bytes(&self.bytes()[..std::mem::size_of::<T>()])
    }
    pub fn view_mut<T: bytemuck::Pod>(&mut self) -> &mut T {
        bytemuck::from_bytes_mut(&mut self.bytes_mut()[..std::mem::size_of::<T>()])
    }
}

/// A leaked (per shard, reused across cases) account whose data starts at `16k + 8`, so that the
/// zero-copy body after the 8-byte discriminator is 16-byte aligned.
pub struct StaticAcct {
    pub info: &'static AccountInfo<'static>,
}

impl StaticAcct {
    pub fn new(key: Pubkey, owner: Pubkey, data_len: usize, signer: bool, writable: bool) -> Self {
        let key: &'static Pubkey = Box::leak(Box::new(key));
        let owner: &'static Pubkey = Box::leak(Box::new(owner));
        let lamports: &'static mut u64 = Box::leak(Box::new(1_000_000_000u64));
        let words = (data_len + 8).div_ceil(16) + 1;
        let buf: &'static mut [u128] = Box::leak(vec![0u128; words].into_boxed_slice());
        let bytes: &'static mut [u8] = bytemuck::cast_slice_mut::<u128, u8>(buf);
        let data: &'static mut [u8] = &mut bytes[8..8 + data_len];
        debug_assert_eq!(data.as_ptr() as usize % 16, 8);
        let info = AccountInfo::new(key, signer, writable, lamports, data, owner, false, 0);
        Self {
            info: Box::leak(Box::new(info)),
        }
    }

    /// Overwrite the whole account data (length must match).
    pub fn set_data(&self, data: &[u8]) {
        self.info.try_borrow_mut_data().expect("account data is borrowed").copy_from_slice(data);
    }

    pub fn data(&self) -> Vec<u8> {
        self.info.try_borrow_data().expect("account data is mutably borrowed").to_vec()
    }
}

pub fn u(x: u128) -> String {
    x.to_string()
}

pub fn i(x: i128) -> String {
    x.to_string()
}

pub fn hex(b: &[u8]) -> String {
    let mut s = String::with_capacity(b.len() * 2);
    for x in b {
        s.push_str(&format!("{x:02x}"));
    }
    s
}

/// Deterministic pubkey from a label and index.
pub fn pk(label: &str, n: u64) -> Pubkey {
    let mut b = [0u8; 32];
    let h1 = vcommon::rng::fnv(label.as_bytes());
    let mut r = vcommon::Rng::derive(h1, n, 0x706b);
    r.fill(&mut b);
    // never the default pubkey
    b[0] |= 1;
    Pubkey::new_from_array(b)
}

/// Some repo crates log through `solana-msg`, which on the host is a plain `println!` that bypasses the
/// syscall stubs. While shards run, fd 1 is pointed at /dev/null so that only the monitor's own
/// verdict lines (printed by `Monitor::finish`) reach stdout.
pub struct StdoutSilencer {
    saved: i32,
}

pub fn silence_stdout() -> StdoutSilencer {
    use std::io::Write;
    let _ = std::io::stdout().flush();
    // SAFETY: plain POSIX fd juggling on the process' own stdout.
    unsafe {
        let saved = libc::dup(1);
        let null = libc::open(c"/dev/null".as_ptr(), libc::O_WRONLY);
        if null >= 0 {
            libc::dup2(null, 1);
            libc::close(null);
        }
        StdoutSilencer { saved }
    }
}

impl StdoutSilencer {
    pub fn restore(self) {
        use std::io::Write;
        let _ = std::io::stdout().flush();
        // SAFETY: see above.
        unsafe {
            if self.saved >= 0 {
                libc::dup2(self.saved, 1);
                libc::close(self.saved);
            }
        }
    }
}

/// Workload size by tier, optionally shrunk with `--scale <percent>` (used for wide seed sweeps).
pub fn scaled(args: &vcommon::Args, quick: u64, thorough: u64) -> u64 {
    (args.scale(quick, thorough) * scale_pct(args) / 100).max(1)
}

pub fn scale_pct(args: &vcommon::Args) -> u64 {
    // Quick tier runs at 30 % of the originally calibrated workload (≈ 20–40 s on 16 idle cores).
    let default = if args.is_thorough() { 100 } else { 30 };
    args.extra.get("scale").and_then(|s| s.parse::<u64>().ok()).unwrap_or(default).clamp(1, 1000)
}

/// `require` thresholds shrink with the workload.
pub fn req(args: &vcommon::Args, mon: &mut vcommon::Monitor, key: &str, min: u64) {
    mon.require(key, (min * scale_pct(args).min(100) / 100).max(1));
}
