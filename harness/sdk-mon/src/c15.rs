//! C15 — single-token (pure) pools: `gmsol_store::states::market::pool::Pool` (program) and the SDK's
//! `gmsol_programs::gmsol_store::types::Pool` on the same bytes, driven by random signed-delta sequences.
//!
//! Oracle: a BigInt total `T` (the stored amount). long()+short() == T; an apply changes T by exactly the
//! delta, or fails (only when T+delta leaves 0..=u128::MAX) without change; cancel leaves T & 1.

use anchor_lang::{AnchorDeserialize, AnchorSerialize};
use gmsol_model::{Balance, Delta, Pool as _};
use gmsol_programs::gmsol_store::types::Pool as SdkPool;
use gmsol_store::states::market::pool::Pool as ProgPool;
use vcommon::big::b;
use vcommon::monitor::guard;
use vcommon::num_bigint::BigInt;
use vcommon::{json, Args, Monitor, Rng};

const LEN: usize = 48;

fn pool_bytes(is_pure: u8, long: u128, short: u128) -> [u8; LEN] {
    let mut out = [0u8; LEN];
    out[0] = is_pure;
    out[16..32].copy_from_slice(&long.to_le_bytes());
    out[32..48].copy_from_slice(&short.to_le_bytes());
    out
}

fn prog_from(bytes: &[u8; LEN]) -> ProgPool {
    ProgPool::try_from_slice(bytes).expect("borsh decode of Pool")
}

fn sdk_from(bytes: &[u8; LEN]) -> SdkPool {
    bytemuck::pod_read_unaligned::<SdkPool>(bytes)
}

fn prog_bytes(p: &ProgPool) -> [u8; LEN] {
    let v = p.try_to_vec().expect("borsh encode of Pool");
    let mut out = [0u8; LEN];
    out.copy_from_slice(&v);
    out
}

fn sdk_bytes(p: &SdkPool) -> [u8; LEN] {
    let mut out = [0u8; LEN];
    out.copy_from_slice(bytemuck::bytes_of(p));
    out
}

fn stored(bytes: &[u8; LEN]) -> (u128, u128) {
    (
        u128::from_le_bytes(bytes[16..32].try_into().unwrap()),
        u128::from_le_bytes(bytes[32..48].try_into().unwrap()),
    )
}

#[derive(Clone, Copy, Debug)]
enum Op {
    Long(i128),
    Short(i128),
    Both(i128, i128),
    OneSide(bool, i128),
    Cancel,
}

fn gen_delta(rng: &mut Rng, total: u128) -> i128 {
    match rng.below(8) {
        0 => rng.biased_i128(1),
        1 => {
            // exactly empties / just over-empties
            let t = total.min(i128::MAX as u128) as i128;
            -(t.saturating_add(rng.range_i64(-1, 1) as i128))
        }
        2 => {
            // fills to the top / one over
            let room = (u128::MAX - total).min(i128::MAX as u128) as i128;
            room.saturating_add(rng.range_i64(-1, 1) as i128)
        }
        3 => rng.range_i64(-3, 3) as i128,
        4 => *rng.pick(&[i128::MAX, i128::MIN, i128::MIN + 1, 0, 1, -1]),
        _ => {
            let m = rng.log_u128(i128::MAX as u128) as i128;
            if rng.bool() {
                m
            } else {
                -m
            }
        }
    }
}

fn op_json(op: &Op) -> vcommon::serde_json::Value {
    match op {
        Op::Long(d) => json!({"op": "apply_delta_to_long_amount", "delta": d.to_string()}),
        Op::Short(d) => json!({"op": "apply_delta_to_short_amount", "delta": d.to_string()}),
        Op::Both(l, s) => json!({"op": "checked_apply_delta(both)", "long": l.to_string(), "short": s.to_string()}),
        Op::OneSide(is_long, d) => json!({"op": "checked_apply_delta(one side)", "is_long": is_long, "delta": d.to_string()}),
        Op::Cancel => json!({"op": "checked_cancel_amounts"}),
    }
}

/// Apply `op` to a pool through the real trait implementation; returns Ok(success?) or panic text.
fn apply<P: gmsol_model::Pool<Num = u128, Signed = i128> + Copy>(p: &mut P, op: &Op) -> Result<bool, String> {
    let mut q = *p;
    let r = guard(|| -> bool {
        match op {
            Op::Long(d) => q.apply_delta_to_long_amount(d).is_ok(),
            Op::Short(d) => q.apply_delta_to_short_amount(d).is_ok(),
            Op::Both(l, s) => match q.checked_apply_delta(Delta::new_both_sides(true, l, s)) {
                Ok(n) => {
                    q = n;
                    true
                }
                Err(_) => false,
            },
            Op::OneSide(is_long, d) => match q.checked_apply_delta(Delta::new_one_side(*is_long, d)) {
                Ok(n) => {
                    q = n;
                    true
                }
                Err(_) => false,
            },
            Op::Cancel => match q.checked_cancel_amounts() {
                Ok(n) => {
                    q = n;
                    true
                }
                Err(_) => false,
            },
        }
    });
    match r {
        Ok(true) => {
            *p = q;
            Ok(true)
        }
        Ok(false) => {
            // a failed `apply_delta_to_*` must not have written; keep what the callee left behind
            // so that the oracle can see a partial write
            *p = q;
            Ok(false)
        }
        Err(e) => Err(e),
    }
}

fn in_range(x: &BigInt) -> bool {
    *x >= b(0) && *x <= b(u128::MAX)
}

pub fn run(args: &Args) -> i32 {
    let mut mon = Monitor::new(
        args,
        "history = random initial stored total (boundary-biased up to u128::MAX, pure flag byte 1 or any non-zero) followed by 24-48 ops drawn from {apply long, apply short, checked_apply_delta both / one side, cancel}; deltas biased to 0, +-1, exactly-empty+-1, exactly-full+-1, i128 limits. Same bytes and ops on the program Pool and the SDK Pool. Non-trivial = an op that succeeded with a non-zero delta, failed at a boundary, or cancelled a total > 1; distinct = hash(op kind, success, bit length of total before, sign/bit length of delta). A separate impure-pool strand compares cancel on both implementations.",
    );
    let histories = crate::util::scaled(args, 90_000, 1_200_000);
    let shards = 64u64;
    vcommon::monitor::run_shards(&mut mon, args.threads, shards, |shard, m| {
        let mut rng = Rng::derive(args.seed, shard, 15);
        for h in 0..histories {
            // ---------------- pure strand ----------------
            let t0 = match rng.below(5) {
                0 => *rng.pick(&[0u128, 1, 2, 3, u128::MAX, u128::MAX - 1, u128::MAX - 2, i128::MAX as u128, i128::MAX as u128 + 1, i128::MAX as u128 + 2]),
                1 => rng.next_u128(),
                _ => rng.biased_u128(u128::MAX, 1_000_000_000),
            };
            let flag: u8 = if rng.chance(1, 8) { rng.range(2, 255) as u8 } else { 1 };
            let init = pool_bytes(flag, t0, 0);
            let mut prog = prog_from(&init);
            let mut sdk = sdk_from(&init);
            if prog_bytes(&prog) != init || sdk_bytes(&sdk) != init {
                m.violation("C15:decode:bytes_not_preserved", json!({"bytes": crate::util::hex(&init)}));
                continue;
            }
            let n_ops = rng.range(24, 48);
            let mut total = b(t0);
            let mut trace: Vec<vcommon::serde_json::Value> = vec![];
            for _ in 0..n_ops {
                let cur = stored(&prog_bytes(&prog)).0;
                let op = match rng.below(12) {
                    0..=2 => Op::Long(gen_delta(&mut rng, cur)),
                    3..=5 => Op::Short(gen_delta(&mut rng, cur)),
                    6..=7 => Op::Both(gen_delta(&mut rng, cur), gen_delta(&mut rng, cur)),
                    8..=9 => Op::OneSide(rng.bool(), gen_delta(&mut rng, cur)),
                    _ => Op::Cancel,
                };
                m.eval();
                let before = prog_bytes(&prog);
                let rp = apply(&mut prog, &op);
                let rs = apply(&mut sdk, &op);
                let after = prog_bytes(&prog);
                let after_sdk = sdk_bytes(&sdk);
                if trace.len() < 64 {
                    trace.push(op_json(&op));
                }
                let total_before = total.to_string();
                let wit = |what: &str| json!({"what": what, "initial_total": t0.to_string(), "pure_flag_byte": flag, "ops": trace, "total_before": total_before, "program_before": crate::util::hex(&before), "program_after": crate::util::hex(&after), "sdk_after": crate::util::hex(&after_sdk), "program_result": format!("{rp:?}"), "sdk_result": format!("{rs:?}")});
                let ok = match &rp {
                    Err(_) => {
                        m.count("panics_program");
                        m.violation("C15:program_pool:panic", wit("panic"));
                        break;
                    }
                    Ok(ok) => *ok,
                };
                // ---- oracle on the program pool ----
                let target: BigInt = match &op {
                    Op::Both(l, s) => &total + b(*l) + b(*s),
                    Op::Long(d) | Op::Short(d) | Op::OneSide(_, d) => &total + b(*d),
                    Op::Cancel => &total % b(2),
                };
                let legit_fail = match &op {
                    Op::Both(l, _) => !in_range(&(&total + b(*l))) || !in_range(&target),
                    Op::Cancel => false,
                    _ => !in_range(&target),
                };
                let (st_long, st_short) = stored(&after);
                if ok {
                    if !in_range(&target) {
                        m.violation("C15:apply:succeeded_out_of_range", wit("op succeeded but total+delta is outside 0..=u128::MAX"));
                    } else if b(st_long) != target {
                        let sig = if matches!(op, Op::Cancel) { "C15:cancel:not_parity_remainder" } else { "C15:apply:total_not_changed_by_delta" };
                        m.violation(sig, wit("stored total after the op differs from the oracle"));
                    }
                    m.count(match op { Op::Cancel => "cancel_ok", Op::Long(_) => "apply_long_ok", Op::Short(_) => "apply_short_ok", Op::Both(..) => "apply_both_ok", Op::OneSide(..) => "apply_one_side_ok" });
                } else {
                    if !legit_fail {
                        m.violation("C15:apply:failed_in_range", wit("op failed although the resulting total is representable"));
                    } else if matches!(op, Op::Both(..)) && in_range(&target) {
                        m.count("both_sides_failed_on_intermediate_overflow");
                    }
                    if after != before {
                        m.violation("C15:apply:failed_but_changed", wit("op failed and the pool bytes changed"));
                    }
                    m.count("op_failed");
                }
                total = b(st_long);
                // ---- invariants on the views ----
                if st_short != 0 || after[0] != flag || after[1..16] != [0u8; 15] {
                    m.violation("C15:pure:wrote_outside_total", wit("short amount / flag / padding changed on a pure pool"));
                }
                match guard(|| (prog.long_amount(), prog.short_amount())) {
                    Ok((Ok(l), Ok(s))) => {
                        if b(l) + b(s) != b(st_long) {
                            m.violation("C15:views:long_plus_short_ne_total", wit("long_amount + short_amount != stored total"));
                        }
                        if !(l == s || l == s + 1) {
                            m.violation("C15:views:not_halves", wit("long/short views are not ceil/floor halves"));
                        }
                    }
                    _ => m.violation("C15:views:failed", wit("long_amount/short_amount failed or panicked")),
                }
                // ---- SDK twin ----
                match rs {
                    Err(_) => {
                        m.count("panics_sdk");
                        m.violation("C15:sdk_pool:panic", wit("SDK pool panicked"));
                        break;
                    }
                    Ok(oks) => {
                        if oks != ok || after_sdk != after {
                            m.violation("C15:sdk_vs_program:diverged", wit("SDK pool and program pool disagree on result or bytes"));
                            break;
                        }
                        match guard(|| (sdk.long_amount(), sdk.short_amount(), prog.long_amount(), prog.short_amount())) {
                            Ok((Ok(a), Ok(bb), Ok(c), Ok(d))) if a == c && bb == d => m.count("sdk_views_equal"),
                            _ => m.violation("C15:sdk_vs_program:views_differ", wit("views differ")),
                        }
                    }
                }
                // ---- non-trivial bookkeeping ----
                let tb = total.bits() as u8;
                let (kind, dsig): (u8, i16) = match &op {
                    Op::Long(d) => (0, sig_of(*d)),
                    Op::Short(d) => (1, sig_of(*d)),
                    Op::Both(l, s) => (2, sig_of(*l) ^ (sig_of(*s) << 1)),
                    Op::OneSide(x, d) => (3 + *x as u8, sig_of(*d)),
                    Op::Cancel => (5, 0),
                };
                let nontrivial = match &op {
                    Op::Cancel => ok,
                    Op::Long(d) | Op::Short(d) | Op::OneSide(_, d) => *d != 0,
                    Op::Both(l, s) => *l != 0 || *s != 0,
                };
                if nontrivial {
                    m.nontrivial(&[kind, ok as u8, tb, dsig as u8, (dsig >> 8) as u8]);
                }
                if !ok {
                    m.count("boundary_failures");
                }
            }
            if h == 0 && m.wants_sample() {
                m.sample(json!({"initial_total": t0.to_string(), "pure_flag_byte": flag, "ops": trace, "final_total": total.to_string()}));
            }
            m.count("histories");
            if total == b(u128::MAX) {
                m.count("reached_u128_max");
            }

            // ---------------- impure strand: cancel on both implementations ----------------
            if rng.chance(1, 4) {
                m.eval();
                let l = rng.biased_u128(u128::MAX, 1_000_000);
                let s = rng.biased_u128(u128::MAX, 1_000_000);
                let init = pool_bytes(0, l, s);
                let prog = prog_from(&init);
                let sdk = sdk_from(&init);
                let rp = guard(|| prog.checked_cancel_amounts().map(|p| prog_bytes(&p)).map_err(|e| e.to_string()));
                let rs = guard(|| sdk.checked_cancel_amounts().map(|p| sdk_bytes(&p)).map_err(|e| e.to_string()));
                let wit = json!({"impure_long": l.to_string(), "impure_short": s.to_string(), "program": format!("{rp:?}"), "sdk": format!("{rs:?}")});
                let expect = if l >= s { pool_bytes(0, l - s, 0) } else { pool_bytes(0, 0, s - l) };
                match (&rp, &rs) {
                    (Ok(Ok(a)), Ok(Ok(bb))) => {
                        if *a != expect {
                            m.violation("C15:impure_cancel:program_wrong", wit);
                        } else if a != bb {
                            m.violation("C15:impure_cancel:sdk_differs", wit);
                        } else {
                            m.count("impure_cancel_equal");
                        }
                    }
                    (Ok(Ok(a)), Ok(Err(_))) => {
                        // Documented intended difference: the SDK uses the model's default
                        // `checked_cancel_amounts`, which goes through signed deltas and fails when the
                        // cancelled amount exceeds i128::MAX (see the trait's warning).
                        let cancelled = l.min(s);
                        if *a != expect {
                            m.violation("C15:impure_cancel:program_wrong", wit);
                        } else if cancelled > i128::MAX as u128 {
                            m.count("impure_cancel_sdk_refuses_above_i128_max(documented)");
                        } else {
                            m.violation("C15:impure_cancel:sdk_refuses_in_range", wit);
                        }
                    }
                    _ => m.violation("C15:impure_cancel:unexpected", wit),
                }
            }
        }
    });
    crate::util::req(args, &mut mon, "histories", 1000);
    crate::util::req(args, &mut mon, "apply_long_ok", 1000);
    crate::util::req(args, &mut mon, "apply_short_ok", 1000);
    crate::util::req(args, &mut mon, "apply_both_ok", 500);
    crate::util::req(args, &mut mon, "cancel_ok", 1000);
    crate::util::req(args, &mut mon, "boundary_failures", 1000);
    crate::util::req(args, &mut mon, "sdk_views_equal", 10_000);
    crate::util::req(args, &mut mon, "reached_u128_max", 10);
    mon.assume("a refusal is legitimate only when total+delta leaves 0..=u128::MAX (for the two-sided form: when the long leg alone or the sum leaves it)");
    mon.set_extra(
        "documented_differences",
        json!(["SDK Pool has no own checked_cancel_amounts: the model's default implementation refuses impure pools whose cancelled amount exceeds i128::MAX, the program's never refuses; for pure pools both always succeed (halves <= i128::MAX)"]),
    );
    mon.finish()
}

fn sig_of(d: i128) -> i16 {
    let bits = (128 - d.unsigned_abs().leading_zeros()) as i16;
    if d < 0 {
        -bits
    } else {
        bits
    }
}
