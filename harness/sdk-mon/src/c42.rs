//! C42 — swap path search (`MarketGraph::best_swap_paths` / `BestSwapPaths::to`) on small random
//! graphs built through hook H4 (`MarketGraph::verif_from_edge_costs`), against a brute-force
//! enumeration of all market-simple paths within the step limit.

use gmsol_sdk::market_graph::{MarketGraph, MarketGraphConfig, VerifMarketEdges};
use rust_decimal::prelude::ToPrimitive;
use rust_decimal::Decimal;
use solana_sdk::pubkey::Pubkey;
use vcommon::monitor::guard;
use vcommon::{json, Args, Monitor, Rng};

/// Stated tolerance for `rate == exp(-sum cost)`: relative 5e-6 (rust_decimal's `exp()` is a 27-term
/// Taylor series with a 2e-7 stop criterion; |sum cost| <= 7.2 in this workload).
const RATE_REL_TOL: f64 = 5e-6;

#[derive(Clone, Debug)]
struct Mkt {
    token: Pubkey,
    long: usize,
    short: usize,
    /// ln(rate) long->short, short->long (milli-units, exact)
    l2s: Option<i64>,
    s2l: Option<i64>,
}

#[derive(Clone, Debug)]
struct Case {
    n_tokens: usize,
    markets: Vec<Mkt>,
    max_steps: usize,
}

fn token_pk(i: usize) -> Pubkey {
    crate::util::pk("c42-token", i as u64)
}

fn dec_milli(x: i64) -> Decimal {
    Decimal::new(x, 3)
}

/// cost of traversing market `k` starting at token `from` (milli), and the token reached.
fn step(case: &Case, k: usize, from: usize) -> Option<(Option<i64>, usize)> {
    let mk = &case.markets[k];
    if mk.long == from {
        // for a pure market (long == short) the graph holds two self-loops; the long edge is found first
        // only by insertion order, so both costs are candidates — handled by the caller through `step_all`
        Some((mk.l2s.map(|r| -r), mk.short))
    } else if mk.short == from {
        Some((mk.s2l.map(|r| -r), mk.long))
    } else {
        None
    }
}

/// All (cost, next token) options of traversing market `k` from `from` (two for pure markets).
fn step_all(case: &Case, k: usize, from: usize) -> Vec<(i64, usize)> {
    let mk = &case.markets[k];
    let mut v = vec![];
    if mk.long == from {
        if let Some(r) = mk.l2s {
            v.push((-r, mk.short));
        }
    }
    if mk.short == from {
        if let Some(r) = mk.s2l {
            v.push((-r, mk.long));
        }
    }
    v
}

/// Brute force: best cost (milli) from `src` to every token using <= max_steps edges, no market twice.
fn brute(case: &Case, src: usize) -> Vec<Option<i64>> {
    let mut best: Vec<Option<i64>> = vec![None; case.n_tokens];
    let mut used = vec![false; case.markets.len()];
    fn rec(case: &Case, cur: usize, cost: i64, steps: usize, used: &mut Vec<bool>, best: &mut Vec<Option<i64>>) {
        if best[cur].map(|b| cost < b).unwrap_or(true) {
            best[cur] = Some(cost);
        }
        if steps == case.max_steps {
            return;
        }
        for k in 0..case.markets.len() {
            if used[k] {
                continue;
            }
            for (c, next) in step_all(case, k, cur) {
                used[k] = true;
                rec(case, next, cost + c, steps + 1, used, best);
                used[k] = false;
            }
        }
    }
    rec(case, src, 0, 0, &mut used, &mut best);
    best
}

/// A token-simple path from the source (no token twice): markets used, and the cost on arrival at each
/// token after the source.
struct SimplePath {
    mkts: Vec<usize>,
    last: usize,
    prefix_costs: Vec<i64>,
    nodes: Vec<usize>,
}

/// All token-simple paths from `src` with 1..=max_steps edges (what the depth-first search can walk).
fn simple_paths(case: &Case, src: usize) -> Vec<SimplePath> {
    simple_paths_upto(case, src, case.max_steps)
}

/// Same with an explicit bound on the number of edges.
fn simple_paths_upto(case: &Case, src: usize, cap: usize) -> Vec<SimplePath> {
    let mut out = vec![];
    fn rec(case: &Case, cap: usize, cur: usize, on_path: &mut Vec<bool>, mkts: &mut Vec<usize>, costs: &mut Vec<i64>, nodes: &mut Vec<usize>, out: &mut Vec<SimplePath>) {
        if mkts.len() == cap {
            return;
        }
        for k in 0..case.markets.len() {
            for (c, next) in step_all(case, k, cur) {
                if on_path[next] {
                    continue;
                }
                let cost = costs.last().copied().unwrap_or(0) + c;
                on_path[next] = true;
                mkts.push(k);
                costs.push(cost);
                nodes.push(next);
                out.push(SimplePath { mkts: mkts.clone(), last: next, prefix_costs: costs.clone(), nodes: nodes.clone() });
                rec(case, cap, next, on_path, mkts, costs, nodes, out);
                nodes.pop();
                costs.pop();
                mkts.pop();
                on_path[next] = false;
            }
        }
    }
    let mut on_path = vec![false; case.n_tokens];
    on_path[src] = true;
    rec(case, cap, src, &mut on_path, &mut vec![], &mut vec![], &mut vec![], &mut out);
    out
}

/// Residual bound of the listed depth-first-search findings. The search prunes an arrival at a token
/// whose distance is not better than the best one seen (and overwrites the predecessor on a better one),
/// so it can only lose a path P when some token on P is also reached, within the step limit, by a
/// *different* token-simple route that is at least as cheap as P's own prefix to that token. `true` when
/// every candidate path (the token-simple paths to `dst` cheaper than what was returned, or all of them
/// when nothing was returned) has such a competing arrival — or when there is no token-simple candidate
/// at all (the better path revisits a token, which a depth-first search over tokens never walks).
fn dfs_loss_is_explained(all: &[SimplePath], dst: usize, returned_cost: Option<i64>) -> bool {
    loss_is_explained(all, all, dst, returned_cost)
}

/// General form: candidates are taken from `within` (paths within the step limit), competing arrivals
/// from `competitors` (for Bellman-Ford: token-simple routes of any length, because in-place relaxation
/// chains several edges per round and the predecessor chain of the target can then exceed the limit).
fn loss_is_explained(within: &[SimplePath], competitors: &[SimplePath], dst: usize, returned_cost: Option<i64>) -> bool {
    let all = competitors;
    let candidates: Vec<&SimplePath> = within
        .iter()
        .filter(|p| p.last == dst && returned_cost.map(|g| *p.prefix_costs.last().unwrap() < g).unwrap_or(true))
        .collect();
    candidates.iter().all(|p| {
        (0..p.mkts.len()).any(|k| {
            let v = p.nodes[k];
            let c = p.prefix_costs[k];
            all.iter().any(|q| q.last == v && q.mkts[..] != p.mkts[..=k] && *q.prefix_costs.last().unwrap() <= c)
        })
    })
}

/// Does any negative-cost simple directed cycle exist (edge-level, any start)?
fn has_negative_cycle(case: &Case) -> bool {
    // edges: (from, to, cost)
    let mut edges = vec![];
    for mk in &case.markets {
        if let Some(r) = mk.l2s {
            edges.push((mk.long, mk.short, -r));
        }
        if let Some(r) = mk.s2l {
            edges.push((mk.short, mk.long, -r));
        }
    }
    // Bellman-Ford from a virtual source (independent, textbook form, exact integers)
    let n = case.n_tokens;
    let mut dist = vec![0i64; n];
    for _ in 0..n {
        let mut changed = false;
        for &(u, v, c) in &edges {
            if dist[u] + c < dist[v] {
                dist[v] = dist[u] + c;
                changed = true;
            }
        }
        if !changed {
            return false;
        }
    }
    true
}

fn gen_case(rng: &mut Rng) -> Case {
    let n_tokens = rng.range(2, 6) as usize;
    let n_markets = rng.range(1, 8) as usize;
    let max_steps = match rng.below(8) {
        0 => 0,
        1 => 1,
        _ => rng.range(1, 6) as usize,
    };
    let style = rng.below(4); // 0: all costs >= 0; 1: potentials (negative edges, no negative cycle); 2,3: free
    let pot: Vec<i64> = (0..n_tokens).map(|_| rng.range_i64(-400, 400)).collect();
    let mut markets = vec![];
    for k in 0..n_markets {
        let long = rng.below(n_tokens as u64) as usize;
        let short = if rng.chance(1, 12) { long } else { rng.below(n_tokens as u64) as usize };
        let mut gen = |from: usize, to: usize, rng: &mut Rng| -> Option<i64> {
            if rng.chance(1, 10) {
                return None;
            }
            // ln(rate) in milli-units, |.| <= 1200
            let ln_rate = match style {
                0 => -(rng.range_i64(0, 800)),
                1 => {
                    let w = rng.range_i64(0, 400);
                    // cost = w + pot[to] - pot[from]  =>  ln_rate = -cost
                    -(w + pot[to] - pot[from])
                }
                _ => match rng.below(4) {
                    0 => rng.range_i64(-1200, 400),
                    1 => rng.range_i64(-30, 30),
                    _ => -(rng.range_i64(0, 300)),
                },
            };
            Some(ln_rate.clamp(-1200, 1200))
        };
        let l2s = gen(long, short, rng);
        let s2l = gen(short, long, rng);
        markets.push(Mkt {
            token: crate::util::pk("c42-market", k as u64),
            long,
            short,
            l2s,
            s2l,
        });
    }
    Case {
        n_tokens,
        markets,
        max_steps,
    }
}

fn case_json(c: &Case) -> vcommon::serde_json::Value {
    json!({
        "n_tokens": c.n_tokens,
        "max_steps": c.max_steps,
        "markets": c.markets.iter().enumerate().map(|(k, m)| json!({
            "k": k, "long": m.long, "short": m.short,
            "ln_rate_long_to_short_milli": m.l2s, "ln_rate_short_to_long_milli": m.s2l,
        })).collect::<Vec<_>>(),
    })
}

fn build(case: &Case) -> MarketGraph {
    let specs: Vec<VerifMarketEdges> = case
        .markets
        .iter()
        .enumerate()
        .map(|(k, m)| VerifMarketEdges {
            market_token: m.token,
            index_token: crate::util::pk("c42-index", k as u64),
            long_token: token_pk(m.long),
            short_token: token_pk(m.short),
            long_to_short_ln_rate: m.l2s.map(dec_milli),
            short_to_long_ln_rate: m.s2l.map(dec_milli),
        })
        .collect();
    let config = MarketGraphConfig {
        max_steps: case.max_steps,
        ..Default::default()
    };
    MarketGraph::verif_from_edge_costs(config, &specs)
}

/// `--probe 1`: the minimal hand-made witness for the step-limited Bellman-Ford finding.
fn probe() -> i32 {
    // tokens A=0, B=1, C=2; M0: A->B cost 0.292; M1: A->C cost -0.076; M2: C->B cost 0.165; no reverse edges
    let case = Case {
        n_tokens: 3,
        max_steps: 1,
        markets: vec![
            Mkt { token: crate::util::pk("c42-market", 0), long: 0, short: 1, l2s: Some(-292), s2l: None },
            Mkt { token: crate::util::pk("c42-market", 1), long: 0, short: 2, l2s: Some(76), s2l: None },
            Mkt { token: crate::util::pk("c42-market", 2), long: 2, short: 1, l2s: Some(-165), s2l: None },
        ],
    };
    for max_steps in [1usize, 2] {
        let mut c = case.clone();
        c.max_steps = max_steps;
        let g = build(&c);
        for skip in [false, true] {
            let paths = g.best_swap_paths(&token_pk(0), skip).unwrap();
            let (rate, path) = paths.to(&token_pk(1));
            println!(
                "max_steps={max_steps} skip_bellman_ford={skip} negative_cycle={} arbitrage_exists={:?}: A->B rate={:?} path(markets)={:?}  oracle best cost(milli)={:?}",
                has_negative_cycle(&c),
                paths.arbitrage_exists(),
                rate.map(|r| r.to_string()),
                path.iter().map(|p| c.markets.iter().position(|m| m.token == *p)).collect::<Vec<_>>(),
                brute(&c, 0)[1]
            );
        }
    }
    0
}

pub fn run(args: &Args) -> i32 {
    if args.extra.contains_key("probe") {
        return probe();
    }
    let mut mon = Monitor::new(
        args,
        "case = random graph (2-6 tokens, 1-8 markets incl. occasional single-token markets and edges without estimate, ln rates in 0.001 steps with |ln rate| <= 1.2; styles: all costs >= 0 / potential-shifted (negative edges, no negative cycle) / free (negative cycles likely)), max_steps 0..=6, every source token, both search modes (Bellman-Ford with DFS fallback, DFS only), every target token. Oracle = exhaustive enumeration of market-simple paths within max_steps. Non-trivial = a (source,target,mode) query for which a path of >= 1 step exists within the limit; distinct = hash(tokens, markets, max_steps, mode, negative-cycle?, optimal path cost, returned path length).",
    );
    let cases = crate::util::scaled(args, 90_000, 1_300_000);
    let shards = 64u64;
    vcommon::monitor::run_shards(&mut mon, args.threads, shards, |shard, m| {
        let mut rng = Rng::derive(args.seed, shard, 42);
        for _ in 0..cases {
            let case = gen_case(&mut rng);
            let neg = has_negative_cycle(&case);
            let graph = match guard(|| build(&case)) {
                Ok(g) => g,
                Err(e) => {
                    m.inconclusive(&format!("hook H4 panicked: {e}"));
                    return;
                }
            };
            m.count(if neg { "graphs_with_negative_cycle" } else { "graphs_without_negative_cycle" });
            // tokens that are actually part of the graph (a token without any market is unknown to it)
            let mut known = vec![false; case.n_tokens];
            for mk in &case.markets {
                known[mk.long] = true;
                known[mk.short] = true;
            }
            for src in 0..case.n_tokens {
                if !known[src] {
                    continue;
                }
                let best = brute(&case, src);
                let simple = simple_paths(&case, src);
                let simple_long = simple_paths_upto(&case, src, case.n_tokens);
                for skip_bf in [false, true] {
                    let paths = match guard(|| graph.best_swap_paths(&token_pk(src), skip_bf)) {
                        Ok(Ok(p)) => p,
                        Ok(Err(e)) => {
                            m.count("best_swap_paths_err");
                            let _ = e;
                            continue;
                        }
                        Err(_) => {
                            m.count("panics");
                            continue;
                        }
                    };
                    let arb = paths.arbitrage_exists();
                    let mode = match (skip_bf, arb) {
                        (true, _) => "dfs",
                        (false, Some(true)) => "dfs_fallback",
                        _ => "bellman_ford",
                    };
                    if !skip_bf {
                        match (arb, neg) {
                            (Some(true), false) => m.count("note_negative_cycle_reported_but_none_exists"),
                            (Some(false), true) => m.count("note_negative_cycle_exists_but_not_reported(may be unreachable from source)"),
                            _ => {}
                        }
                    }
                    for dst in 0..case.n_tokens {
                        if !known[dst] {
                            continue;
                        }
                        m.eval();
                        let (rate, path) = match guard(|| paths.to(&token_pk(dst))) {
                            Ok(r) => r,
                            Err(_) => {
                                m.count("panics");
                                continue;
                            }
                        };
                        let wit = |what: &str| json!({
                            "what": what, "graph": case_json(&case), "source": src, "target": dst,
                            "skip_bellman_ford": skip_bf, "mode": mode, "negative_cycle_exists": neg,
                            "returned_rate": rate.map(|r| r.to_string()),
                            "returned_path_markets": path.iter().map(|p| case.markets.iter().position(|mk| mk.token == *p)).collect::<Vec<_>>(),
                            "oracle_best_cost_milli": best[dst],
                        });
                        // ---------- validity of what is recommended ----------
                        let mut ok = true;
                        let mut cost: i64 = 0;
                        let mut cost_alt: Vec<i64> = vec![0]; // pure markets: either self-loop may have been meant
                        if !path.is_empty() && rate.is_none() {
                            m.violation(&format!("C42:{mode}:path_without_rate"), wit("non-empty path with no rate"));
                            ok = false;
                        }
                        if path.len() > case.max_steps {
                            m.violation(&format!("C42:{mode}:too_many_steps"), wit("path longer than max_steps"));
                            ok = false;
                        }
                        let mut cur = src;
                        let mut seen: Vec<usize> = vec![];
                        for p in &path {
                            let Some(k) = case.markets.iter().position(|mk| mk.token == *p) else {
                                m.violation(&format!("C42:{mode}:unknown_market"), wit("path names an unknown market"));
                                ok = false;
                                break;
                            };
                            if seen.contains(&k) {
                                m.violation(&format!("C42:{mode}:repeats_market"), wit("a market appears twice in the path"));
                                ok = false;
                                break;
                            }
                            seen.push(k);
                            let mk = &case.markets[k];
                            if mk.long == mk.short && mk.long == cur {
                                // single-token market: two self-loops
                                let opts = step_all(&case, k, cur);
                                if opts.is_empty() {
                                    m.violation(&format!("C42:{mode}:uses_edge_without_estimate"), wit("step over an edge that has no estimate"));
                                    ok = false;
                                    break;
                                }
                                let mut next_alt = vec![];
                                for a in &cost_alt {
                                    for (c, _) in &opts {
                                        next_alt.push(a + c);
                                    }
                                }
                                cost_alt = next_alt;
                                cost += opts[0].0;
                                continue;
                            }
                            match step(&case, k, cur) {
                                None => {
                                    m.violation(&format!("C42:{mode}:broken_chain"), wit("market does not trade the current token"));
                                    ok = false;
                                    break;
                                }
                                Some((None, _)) => {
                                    m.violation(&format!("C42:{mode}:uses_edge_without_estimate"), wit("step over an edge that has no estimate"));
                                    ok = false;
                                    break;
                                }
                                Some((Some(c), next)) => {
                                    cost += c;
                                    for a in cost_alt.iter_mut() {
                                        *a += c;
                                    }
                                    cur = next;
                                }
                            }
                        }
                        if ok && rate.is_some() && cur != dst {
                            m.violation(&format!("C42:{mode}:wrong_end"), wit("path does not end at the target"));
                            ok = false;
                        }
                        let _ = cost;
                        if ok {
                            if let Some(r) = rate {
                                // reported rate == exp(-cost) within the stated tolerance (for one of the
                                // admissible readings when single-token markets are on the path)
                                let rf = r.to_f64().unwrap_or(f64::NAN);
                                let matches = cost_alt.iter().any(|c| {
                                    let e = (-(*c as f64) / 1000.0).exp();
                                    ((rf - e) / e).abs() <= RATE_REL_TOL
                                });
                                if !matches {
                                    m.violation(&format!("C42:{mode}:rate_mismatch"), wit("reported rate differs from exp(-sum of the path's edge costs)"));
                                    ok = false;
                                } else {
                                    m.count("rate_matches_path_cost");
                                }
                            }
                        }
                        // ---------- optimality (only claimed when no arbitrage cycle exists) ----------
                        let exists = best[dst].is_some() && (dst != src || true);
                        if ok && !neg {
                            match (rate, best[dst]) {
                                (Some(_), Some(bc)) => {
                                    let got = *cost_alt.iter().min().unwrap();
                                    if bc < got {
                                        if mode == "dfs" && !dfs_loss_is_explained(&simple, dst, Some(got)) {
                                            m.violation("C42:dfs:better_path_lost_without_competing_arrival", wit("a strictly cheaper token-simple path within max_steps exists and no token on it is reached as cheaply by another route"));
                                        } else {
                                            if mode == "dfs" {
                                                m.count("dfs_loss_explained_by_competing_arrival");
                                            }
                                            m.violation(&format!("C42:{mode}:better_path_within_limit_exists"), wit("a strictly cheaper market-simple path within max_steps exists"));
                                        }
                                    } else {
                                        m.count("optimal_or_tied");
                                    }
                                }
                                (None, Some(_)) => {
                                    if dst != src {
                                        if mode == "dfs" && !dfs_loss_is_explained(&simple, dst, None) {
                                            m.violation("C42:dfs:path_lost_without_competing_arrival", wit("nothing recommended although a token-simple path within max_steps exists and no token on it is reached as cheaply by another route"));
                                        } else if mode == "bellman_ford" && !loss_is_explained(&simple, &simple_long, dst, None) {
                                            m.violation("C42:bellman_ford:path_lost_without_competing_arrival", wit("nothing recommended although a token-simple path within max_steps exists and no token on it is reached as cheaply by another (possibly longer) route"));
                                        } else {
                                            if mode == "bellman_ford" {
                                                m.count("bellman_ford_loss_explained_by_competing_arrival");
                                            }
                                            if mode == "dfs" {
                                                m.count("dfs_loss_explained_by_competing_arrival");
                                            }
                                            m.violation(&format!("C42:{mode}:no_path_returned_but_path_within_limit_exists"), wit("nothing recommended although a path within max_steps exists"));
                                        }
                                    }
                                }
                                (Some(_), None) => {
                                    m.violation(&format!("C42:{mode}:path_not_in_enumeration"), wit("recommended path is not among the enumerated valid paths"));
                                }
                                (None, None) => m.count("no_path_agreed"),
                            }
                        } else if ok && neg {
                            m.count("validity_only(negative cycle present)");
                        }
                        if exists && dst != src {
                            let plen = path.len() as u8;
                            let bc = best[dst].unwrap_or(0);
                            m.nontrivial(&[
                                case.n_tokens as u8, case.markets.len() as u8, case.max_steps as u8,
                                skip_bf as u8, neg as u8, (bc & 0xff) as u8, ((bc >> 8) & 0xff) as u8, plen,
                            ]);
                            m.count(&format!("queries_with_path:{mode}"));
                            m.max("max_returned_path_len", plen as u64);
                            if m.wants_sample() && plen >= 2 {
                                m.sample(wit("sample"));
                            }
                        }
                    }
                }
            }
        }
    });
    crate::util::req(args, &mut mon, "graphs_with_negative_cycle", 200);
    crate::util::req(args, &mut mon, "graphs_without_negative_cycle", 200);
    crate::util::req(args, &mut mon, "queries_with_path:bellman_ford", 2_000);
    crate::util::req(args, &mut mon, "queries_with_path:dfs", 2_000);
    crate::util::req(args, &mut mon, "queries_with_path:dfs_fallback", 500);
    crate::util::req(args, &mut mon, "rate_matches_path_cost", 2_000);
    mon.assume("'no arbitrage cycle exists' is read as: no negative-cost directed cycle anywhere in the graph (decided by an independent exact-integer Bellman-Ford)");
    mon.assume("rate tolerance: relative 5e-6 against f64 exp(-sum cost); path costs are exact multiples of 0.001 so a wrong edge differs by >= 1e-3 relative");
    mon.assume("for a single-token market on a path either of its two self-loop edges is accepted as 'the' edge");
    mon.finish()
}
