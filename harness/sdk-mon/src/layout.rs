//! C40 part (a1): declared SDK layouts (`declare_program!` types) vs the program's own types:
//! size, alignment, account discriminator, and offsets of every field that is `pub` on both sides.
//! (Private program fields are compared functionally: bytes written at the SDK's declared offset are
//! read back through the program's accessors in `c40.rs`.)

use anchor_lang::Discriminator;
use gmsol_programs::gmsol_store::{accounts as sa, types as st};
use gmsol_store::states as ps;
use std::mem::{align_of, offset_of, size_of};
use vcommon::{json, Monitor};

macro_rules! acct {
    ($m:expr, $name:literal, $p:ty, $s:ty) => {{
        $m.eval();
        let ok = size_of::<$p>() == size_of::<$s>()
            && align_of::<$p>() == align_of::<$s>()
            && <$p as Discriminator>::DISCRIMINATOR == <$s as Discriminator>::DISCRIMINATOR;
        if ok {
            $m.count("layout_accounts_equal");
            $m.nontrivial(format!("acct:{}", $name).as_bytes());
        } else {
            $m.violation(
                "C40:layout:account_size_or_discriminator_differs",
                json!({"account": $name,
                    "program": {"size": size_of::<$p>(), "align": align_of::<$p>(), "disc": <$p as Discriminator>::DISCRIMINATOR},
                    "sdk": {"size": size_of::<$s>(), "align": align_of::<$s>(), "disc": <$s as Discriminator>::DISCRIMINATOR}}),
            );
        }
    }};
}

macro_rules! ty {
    ($m:expr, $name:literal, $p:ty, $s:ty) => {{
        $m.eval();
        if size_of::<$p>() == size_of::<$s>() && align_of::<$p>() == align_of::<$s>() {
            $m.count("layout_types_equal");
            $m.nontrivial(format!("type:{}", $name).as_bytes());
        } else {
            $m.violation(
                "C40:layout:type_size_differs",
                json!({"type": $name, "program": [size_of::<$p>(), align_of::<$p>()], "sdk": [size_of::<$s>(), align_of::<$s>()]}),
            );
        }
    }};
}

macro_rules! off {
    ($m:expr, $name:literal, $p:ty, $s:ty, [$($f:ident),*]) => {{
        $(
            $m.eval();
            if offset_of!($p, $f) == offset_of!($s, $f) {
                $m.count("layout_pub_field_offsets_equal");
                $m.nontrivial(format!("off:{}.{}", $name, stringify!($f)).as_bytes());
            } else {
                $m.violation(
                    "C40:layout:field_offset_differs",
                    json!({"type": $name, "field": stringify!($f), "program": offset_of!($p, $f), "sdk": offset_of!($s, $f)}),
                );
            }
        )*
    }};
}

pub fn check(m: &mut Monitor) {
    // --- every zero-copy account the IDL declares ---
    acct!(m, "Market", ps::Market, sa::Market);
    acct!(m, "Store", ps::Store, sa::Store);
    acct!(m, "Position", ps::Position, sa::Position);
    acct!(m, "Order", ps::Order, sa::Order);
    acct!(m, "Deposit", ps::Deposit, sa::Deposit);
    acct!(m, "Withdrawal", ps::Withdrawal, sa::Withdrawal);
    acct!(m, "Shift", ps::Shift, sa::Shift);
    acct!(m, "Glv", ps::Glv, sa::Glv);
    acct!(m, "GlvDeposit", ps::GlvDeposit, sa::GlvDeposit);
    acct!(m, "GlvWithdrawal", ps::GlvWithdrawal, sa::GlvWithdrawal);
    acct!(m, "GlvShift", ps::GlvShift, sa::GlvShift);
    acct!(m, "GtExchange", ps::gt::GtExchange, sa::GtExchange);
    acct!(m, "GtExchangeVault", ps::gt::GtExchangeVault, sa::GtExchangeVault);
    acct!(m, "Oracle", ps::Oracle, sa::Oracle);
    acct!(m, "PriceFeed", ps::PriceFeed, sa::PriceFeed);
    acct!(m, "ReferralCodeV2", ps::user::ReferralCodeV2, sa::ReferralCodeV2);
    acct!(m, "TokenMapHeader", ps::TokenMapHeader, sa::TokenMapHeader);
    acct!(m, "TradeData", gmsol_store::events::TradeData, sa::TradeData);
    acct!(m, "UserHeader", ps::UserHeader, sa::UserHeader);
    acct!(m, "VirtualInventory", ps::market::virtual_inventory::VirtualInventory, sa::VirtualInventory);

    // --- nested zero-copy types that are nameable on the program side ---
    ty!(m, "MarketConfig", ps::market::config::MarketConfig, st::MarketConfig);
    ty!(m, "Pool", ps::market::pool::Pool, st::Pool);
    ty!(m, "PoolStorage", ps::market::pool::PoolStorage, st::PoolStorage);
    ty!(m, "Pools", ps::market::pool::Pools, st::Pools);
    ty!(m, "Clocks", ps::market::Clocks, st::Clocks);
    ty!(m, "OtherState", ps::market::OtherState, st::OtherState);
    ty!(m, "Indexer", ps::market::Indexer, st::Indexer);
    ty!(m, "MarketMeta", ps::market::MarketMeta, st::MarketMeta);
    ty!(m, "PositionState", ps::position::PositionState, st::PositionState);
    ty!(m, "Amounts", ps::Amounts, st::Amounts);
    ty!(m, "Factors", ps::Factors, st::Factors);
    ty!(m, "Addresses", ps::Addresses, st::Addresses);
    ty!(m, "GtState", ps::gt::GtState, st::GtState);
    ty!(m, "ActionHeader", ps::common::ActionHeader, st::ActionHeader);
    ty!(m, "RoleStore", ps::RoleStore, st::RoleStore);
    ty!(m, "OrderActionParams", ps::OrderActionParams, st::OrderActionParams);

    // --- offsets of fields that are public on both sides ---
    off!(m, "Position", ps::Position, sa::Position, [bump, store, kind, padding_0, created_at, owner, market_token, collateral_token, state]);
    off!(m, "PositionState", ps::position::PositionState, st::PositionState, [
        trade_id, increased_at, updated_at_slot, decreased_at, size_in_tokens, collateral_amount, size_in_usd,
        borrowing_factor, funding_fee_amount_per_size, long_token_claimable_funding_amount_per_size,
        short_token_claimable_funding_amount_per_size
    ]);
    off!(m, "MarketMeta", ps::market::MarketMeta, st::MarketMeta, [market_token_mint, index_token_mint, long_token_mint, short_token_mint]);
    off!(m, "Market", ps::Market, sa::Market, [store]);
    off!(m, "Store", ps::Store, sa::Store, [authority, token_map]);
    off!(m, "Oracle", ps::Oracle, sa::Oracle, [store]);
    off!(m, "TokenMapHeader", ps::TokenMapHeader, sa::TokenMapHeader, [store]);
    off!(m, "ReferralCodeV2", ps::user::ReferralCodeV2, sa::ReferralCodeV2, [code, store, owner]);
    off!(m, "PriceFeed", ps::PriceFeed, sa::PriceFeed, [authority]);
    off!(m, "GtExchange", ps::gt::GtExchange, sa::GtExchange, [bump, owner, store, vault]);
    off!(m, "GtExchangeVault", ps::gt::GtExchangeVault, sa::GtExchangeVault, [bump, store]);
    off!(m, "Glv", ps::Glv, sa::Glv, [store]);
}
