//! C16 — every configuration key reads and writes its own setting.
//!
//! Real code: `Market::get_config_mut / get_config / get_config_by_key / set_config_flag`, the model-trait
//! parameter accessors of `gmsol_store::states::Market` and of the SDK's `MarketModel` on the same bytes,
//! `Store::get_{amount,factor,address}(_mut)`.
//! Oracle: an independent hand-written table key -> (declared SDK field, model accessor(s), when active).

use std::mem::offset_of;
use std::sync::Arc;

use gmsol_model::{pool::delta::BalanceChange, LiquidityMarket, PerpMarket, PnlFactorKind};
use gmsol_programs::gmsol_store::{
    accounts::{Market as SdkMarket, Store as SdkStore},
    types::{Addresses as SdkAddresses, Amounts as SdkAmounts, Factors as SdkFactors, MarketConfig as SdkCfg},
};
use gmsol_programs::model::MarketModel;
use gmsol_store::states::{Market, Store};
use gmsol_utils::config::{AddressKey, AmountKey, FactorKey};
use gmsol_utils::market::{MarketConfigFlag as Flag, MarketConfigKey as K, MarketFlag};
use strum::IntoEnumIterator;
use vcommon::monitor::guard;
use vcommon::{json, Args, Monitor, Rng};

use crate::util::Aligned;

const UNIT: u128 = 100_000_000_000_000_000_000;

/// How a parameter is read through the market-model traits.
#[derive(Clone, Copy, Debug)]
enum R {
    SwapImpact(u8),
    SwapFee(u8),
    Pos(u8),
    MinCollOiMult(bool),
    PosImpact(u8),
    OrderFee(u8),
    LiqFee(u8),
    PosImpactDist(u8),
    BorrowRecv,
    BorrowFactor(bool),
    BorrowExp(bool),
    KinkOptimal(bool),
    KinkBase(bool),
    KinkAbove(bool),
    Funding(u8),
    Reserve,
    OiReserve,
    Pnl(u8, bool),
    MaxPoolAmount(bool),
    MaxPoolValueDeposit(bool),
    MaxOi(bool),
    MinCollLiq,
}

/// When the key (rather than its open/closed sibling) is the one the model must expose.
#[derive(Clone, Copy, Debug, PartialEq, Eq)]
enum Active {
    Always,
    /// not (market closed && EnableMarketClosedParams)
    NormalParams,
    /// market closed && EnableMarketClosedParams
    ClosedParams,
}

struct Row {
    key: K,
    sdk_off: usize,
    readers: Vec<R>,
    active: Active,
}

macro_rules! row {
    ($k:ident, $f:ident, [$($r:expr),*], $a:expr) => {
        Row { key: K::$k, sdk_off: offset_of!(SdkCfg, $f), readers: vec![$($r),*], active: $a }
    };
}

/// The independent table (written by hand from the key names / documentation, not from the match arms).
fn table() -> Vec<Row> {
    use Active::*;
    vec![
        row!(SwapImpactExponent, swap_impact_exponent, [R::SwapImpact(0)], Always),
        row!(SwapImpactPositiveFactor, swap_impact_positive_factor, [R::SwapImpact(1)], Always),
        row!(SwapImpactNegativeFactor, swap_impact_negative_factor, [R::SwapImpact(2)], Always),
        row!(SwapFeeReceiverFactor, swap_fee_receiver_factor, [R::SwapFee(0)], Always),
        row!(SwapFeeFactorForPositiveImpact, swap_fee_factor_for_positive_impact, [R::SwapFee(1)], Always),
        row!(SwapFeeFactorForNegativeImpact, swap_fee_factor_for_negative_impact, [R::SwapFee(2)], Always),
        row!(MinPositionSizeUsd, min_position_size_usd, [R::Pos(0)], Always),
        row!(MinCollateralValue, min_collateral_value, [R::Pos(1)], Always),
        row!(MinCollateralFactor, min_collateral_factor, [R::Pos(2)], Always),
        row!(MinCollateralFactorForOpenInterestMultiplierForLong, min_collateral_factor_for_open_interest_multiplier_for_long, [R::MinCollOiMult(true)], Always),
        row!(MinCollateralFactorForOpenInterestMultiplierForShort, min_collateral_factor_for_open_interest_multiplier_for_short, [R::MinCollOiMult(false)], Always),
        row!(MaxPositivePositionImpactFactor, max_positive_position_impact_factor, [R::Pos(3)], Always),
        row!(MaxNegativePositionImpactFactor, max_negative_position_impact_factor, [R::Pos(4)], Always),
        row!(MaxPositionImpactFactorForLiquidations, max_position_impact_factor_for_liquidations, [R::Pos(5)], Always),
        row!(PositionImpactExponent, position_impact_exponent, [R::PosImpact(0)], Always),
        row!(PositionImpactPositiveFactor, position_impact_positive_factor, [R::PosImpact(1)], Always),
        row!(PositionImpactNegativeFactor, position_impact_negative_factor, [R::PosImpact(2)], Always),
        row!(OrderFeeReceiverFactor, order_fee_receiver_factor, [R::OrderFee(0)], Always),
        row!(OrderFeeFactorForPositiveImpact, order_fee_factor_for_positive_impact, [R::OrderFee(1)], Always),
        row!(OrderFeeFactorForNegativeImpact, order_fee_factor_for_negative_impact, [R::OrderFee(2)], Always),
        row!(LiquidationFeeReceiverFactor, liquidation_fee_receiver_factor, [R::LiqFee(0)], Always),
        row!(LiquidationFeeFactor, liquidation_fee_factor, [R::LiqFee(1)], Always),
        row!(PositionImpactDistributeFactor, position_impact_distribute_factor, [R::PosImpactDist(0)], Always),
        row!(MinPositionImpactPoolAmount, min_position_impact_pool_amount, [R::PosImpactDist(1)], Always),
        row!(BorrowingFeeReceiverFactor, borrowing_fee_receiver_factor, [R::BorrowRecv], Always),
        row!(BorrowingFeeFactorForLong, borrowing_fee_factor_for_long, [R::BorrowFactor(true)], Always),
        row!(BorrowingFeeFactorForShort, borrowing_fee_factor_for_short, [R::BorrowFactor(false)], Always),
        row!(BorrowingFeeExponentForLong, borrowing_fee_exponent_for_long, [R::BorrowExp(true)], Always),
        row!(BorrowingFeeExponentForShort, borrowing_fee_exponent_for_short, [R::BorrowExp(false)], Always),
        row!(BorrowingFeeOptimalUsageFactorForLong, borrowing_fee_optimal_usage_factor_for_long, [R::KinkOptimal(true)], Always),
        row!(BorrowingFeeOptimalUsageFactorForShort, borrowing_fee_optimal_usage_factor_for_short, [R::KinkOptimal(false)], Always),
        row!(BorrowingFeeBaseFactorForLong, borrowing_fee_base_factor_for_long, [R::KinkBase(true)], NormalParams),
        row!(BorrowingFeeBaseFactorForShort, borrowing_fee_base_factor_for_short, [R::KinkBase(false)], NormalParams),
        row!(BorrowingFeeAboveOptimalUsageFactorForLong, borrowing_fee_above_optimal_usage_factor_for_long, [R::KinkAbove(true)], NormalParams),
        row!(BorrowingFeeAboveOptimalUsageFactorForShort, borrowing_fee_above_optimal_usage_factor_for_short, [R::KinkAbove(false)], NormalParams),
        row!(FundingFeeExponent, funding_fee_exponent, [R::Funding(0)], Always),
        row!(FundingFeeFactor, funding_fee_factor, [R::Funding(1)], Always),
        row!(FundingFeeMaxFactorPerSecond, funding_fee_max_factor_per_second, [R::Funding(2)], Always),
        row!(FundingFeeMinFactorPerSecond, funding_fee_min_factor_per_second, [R::Funding(3)], Always),
        row!(FundingFeeIncreaseFactorPerSecond, funding_fee_increase_factor_per_second, [R::Funding(4)], Always),
        row!(FundingFeeDecreaseFactorPerSecond, funding_fee_decrease_factor_per_second, [R::Funding(5)], Always),
        row!(FundingFeeThresholdForStableFunding, funding_fee_threshold_for_stable_funding, [R::Funding(6)], Always),
        row!(FundingFeeThresholdForDecreaseFunding, funding_fee_threshold_for_decrease_funding, [R::Funding(7)], Always),
        row!(ReserveFactor, reserve_factor, [R::Reserve], Always),
        row!(OpenInterestReserveFactor, open_interest_reserve_factor, [R::OiReserve], Always),
        row!(MaxPnlFactorForLongDeposit, max_pnl_factor_for_long_deposit, [R::Pnl(0, true)], Always),
        row!(MaxPnlFactorForShortDeposit, max_pnl_factor_for_short_deposit, [R::Pnl(0, false)], Always),
        row!(MaxPnlFactorForLongWithdrawal, max_pnl_factor_for_long_withdrawal, [R::Pnl(1, true)], Always),
        row!(MaxPnlFactorForShortWithdrawal, max_pnl_factor_for_short_withdrawal, [R::Pnl(1, false)], Always),
        row!(MaxPnlFactorForLongTrader, max_pnl_factor_for_long_trader, [R::Pnl(2, true)], Always),
        row!(MaxPnlFactorForShortTrader, max_pnl_factor_for_short_trader, [R::Pnl(2, false)], Always),
        row!(MaxPnlFactorForLongAdl, max_pnl_factor_for_long_adl, [R::Pnl(3, true)], Always),
        row!(MaxPnlFactorForShortAdl, max_pnl_factor_for_short_adl, [R::Pnl(3, false)], Always),
        row!(MinPnlFactorAfterLongAdl, min_pnl_factor_after_long_adl, [R::Pnl(4, true)], Always),
        row!(MinPnlFactorAfterShortAdl, min_pnl_factor_after_short_adl, [R::Pnl(4, false)], Always),
        row!(MaxPoolAmountForLongToken, max_pool_amount_for_long_token, [R::MaxPoolAmount(true)], Always),
        row!(MaxPoolAmountForShortToken, max_pool_amount_for_short_token, [R::MaxPoolAmount(false)], Always),
        row!(MaxPoolValueForDepositForLongToken, max_pool_value_for_deposit_for_long_token, [R::MaxPoolValueDeposit(true)], Always),
        row!(MaxPoolValueForDepositForShortToken, max_pool_value_for_deposit_for_short_token, [R::MaxPoolValueDeposit(false)], Always),
        row!(MaxOpenInterestForLong, max_open_interest_for_long, [R::MaxOi(true)], Always),
        row!(MaxOpenInterestForShort, max_open_interest_for_short, [R::MaxOi(false)], Always),
        // consumed by key in the deposit instruction; there is no model-trait parameter for it
        row!(MinTokensForFirstDeposit, min_tokens_for_first_deposit, [], Always),
        row!(MinCollateralFactorForLiquidation, min_collateral_factor_for_liquidation, [R::MinCollLiq], NormalParams),
        row!(MarketClosedMinCollateralFactorForLiquidation, market_closed_min_collateral_factor_for_liquidation, [R::MinCollLiq], ClosedParams),
        row!(MarketClosedBorrowingFeeBaseFactor, market_closed_borrowing_fee_base_factor, [R::KinkBase(true), R::KinkBase(false)], ClosedParams),
        row!(MarketClosedBorrowingFeeAboveOptimalUsageFactor, market_closed_borrowing_fee_above_optimal_usage_factor, [R::KinkAbove(true), R::KinkAbove(false)], ClosedParams),
    ]
}

/// The (model-trait) view both implementations offer.
trait View: PerpMarket<20, Num = u128, Signed = i128> {
    fn mpvd(&self, is_long: bool) -> gmsol_model::Result<u128>;
}

impl View for Market {
    fn mpvd(&self, is_long: bool) -> gmsol_model::Result<u128> {
        self.max_pool_value_for_deposit(is_long)
    }
}

impl View for MarketModel {
    fn mpvd(&self, is_long: bool) -> gmsol_model::Result<u128> {
        LiquidityMarket::max_pool_value_for_deposit(self, is_long)
    }
}

fn pick3(i: u8, a: u128, b: u128, c: u128) -> u128 {
    match i {
        0 => a,
        1 => b,
        _ => c,
    }
}

fn fee_factors(p: &gmsol_model::params::FeeParams<u128>) -> Result<(u128, u128, u128), String> {
    // the factors are private; `fee(change, 1.0)` returns exactly the factor (discount absent / zero)
    let pos = p.fee::<20>(BalanceChange::Improved, &UNIT).ok_or("fee(Improved) overflow")?;
    let neg = p.fee::<20>(BalanceChange::Worsened, &UNIT).ok_or("fee(Worsened) overflow")?;
    Ok((*p.receiver_factor(), pos, neg))
}

fn read<M: View>(m: &M, r: R) -> Result<u128, String> {
    let e = |x: gmsol_model::Error| x.to_string();
    Ok(match r {
        R::SwapImpact(i) => {
            let p = m.swap_impact_params().map_err(e)?;
            pick3(i, *p.exponent(), *p.positive_factor(), *p.negative_factor())
        }
        R::SwapFee(i) => {
            let (a, b, c) = fee_factors(&m.swap_fee_params().map_err(e)?)?;
            pick3(i, a, b, c)
        }
        R::Pos(i) => {
            let p = m.position_params().map_err(e)?;
            match i {
                0 => *p.min_position_size_usd(),
                1 => *p.min_collateral_value(),
                2 => *p.min_collateral_factor(),
                3 => *p.max_positive_position_impact_factor(),
                4 => *p.max_negative_position_impact_factor(),
                _ => *p.max_position_impact_factor_for_liquidations(),
            }
        }
        R::MinCollOiMult(l) => m.min_collateral_factor_for_open_interest_multiplier(l).map_err(e)?,
        R::PosImpact(i) => {
            let p = m.position_impact_params().map_err(e)?;
            pick3(i, *p.exponent(), *p.positive_factor(), *p.negative_factor())
        }
        R::OrderFee(i) => {
            let (a, b, c) = fee_factors(&m.order_fee_params().map_err(e)?)?;
            pick3(i, a, b, c)
        }
        R::LiqFee(i) => {
            // no getters: read the derived Debug rendering `LiquidationFeeParams { factor: F, receiver_factor: R }`
            let p = m.liquidation_fee_params().map_err(e)?;
            let s = format!("{p:?}");
            let grab = |name: &str| -> Result<u128, String> {
                let at = s.find(name).ok_or("debug format changed")? + name.len();
                let rest = &s[at..];
                let end = rest.find(|c: char| !c.is_ascii_digit()).unwrap_or(rest.len());
                rest[..end].parse::<u128>().map_err(|x| x.to_string())
            };
            if i == 0 {
                grab("receiver_factor: ")?
            } else {
                grab("{ factor: ")?
            }
        }
        R::PosImpactDist(i) => {
            let p = m.position_impact_distribution_params().map_err(e)?;
            if i == 0 {
                *p.distribute_factor()
            } else {
                *p.min_position_impact_pool_amount()
            }
        }
        R::BorrowRecv => *m.borrowing_fee_params().map_err(e)?.receiver_factor(),
        R::BorrowFactor(l) => *m.borrowing_fee_params().map_err(e)?.factor(l),
        R::BorrowExp(l) => *m.borrowing_fee_params().map_err(e)?.exponent(l),
        R::KinkOptimal(l) => *m.borrowing_fee_kink_model_params().map_err(e)?.optimal_usage_factor(l),
        R::KinkBase(l) => *m.borrowing_fee_kink_model_params().map_err(e)?.base_borrowing_factor(l),
        R::KinkAbove(l) => *m.borrowing_fee_kink_model_params().map_err(e)?.above_optimal_usage_borrowing_factor(l),
        R::Funding(i) => {
            let p = m.funding_fee_params().map_err(e)?;
            match i {
                0 => *p.exponent(),
                1 => *p.factor(),
                2 => *p.max_factor_per_second(),
                3 => *p.min_factor_per_second(),
                4 => *p.increase_factor_per_second(),
                5 => *p.decrease_factor_per_second(),
                6 => *p.threshold_for_stable_funding(),
                _ => *p.threshold_for_decrease_funding(),
            }
        }
        R::Reserve => m.reserve_factor().map_err(e)?,
        R::OiReserve => m.open_interest_reserve_factor().map_err(e)?,
        R::Pnl(k, l) => {
            let kind = match k {
                0 => PnlFactorKind::MaxAfterDeposit,
                1 => PnlFactorKind::MaxAfterWithdrawal,
                2 => PnlFactorKind::MaxForTrader,
                3 => PnlFactorKind::ForAdl,
                _ => PnlFactorKind::MinAfterAdl,
            };
            m.pnl_factor_config(kind, l).map_err(e)?
        }
        R::MaxPoolAmount(l) => m.max_pool_amount(l).map_err(e)?,
        R::MaxPoolValueDeposit(l) => m.mpvd(l).map_err(e)?,
        R::MaxOi(l) => m.max_open_interest(l).map_err(e)?,
        R::MinCollLiq => *m.position_params().map_err(e)?.min_collateral_factor_for_liquidation(),
    })
}

fn flag_reader<M: View>(m: &M, f: Flag) -> Option<Result<bool, String>> {
    match f {
        Flag::SkipBorrowingFeeForSmallerSide | Flag::MarketClosedSkipBorrowingFeeForSmallerSide => Some(
            m.borrowing_fee_params()
                .map(|p| p.skip_borrowing_fee_for_smaller_side())
                .map_err(|e| e.to_string()),
        ),
        Flag::IgnoreOpenInterestForUsageFactor => Some(m.ignore_open_interest_for_usage_factor().map_err(|e| e.to_string())),
        _ => None,
    }
}

/// Hand-written bit positions (documented order of the flag enum; the SDK keeps a private copy of it).
fn flag_bit(f: Flag) -> u8 {
    match f {
        Flag::SkipBorrowingFeeForSmallerSide => 0,
        Flag::IgnoreOpenInterestForUsageFactor => 1,
        Flag::EnableMarketClosedParams => 2,
        Flag::MarketClosedSkipBorrowingFeeForSmallerSide => 3,
        // a flag added later: use its declared discriminant and list it as uncovered by the hand table
        other => u8::from(other),
    }
}

fn flag_active(f: Flag) -> Option<Active> {
    match f {
        Flag::SkipBorrowingFeeForSmallerSide => Some(Active::NormalParams),
        Flag::MarketClosedSkipBorrowingFeeForSmallerSide => Some(Active::ClosedParams),
        Flag::IgnoreOpenInterestForUsageFactor => Some(Active::Always),
        // EnableMarketClosedParams is observed through the switch itself
        _ => None,
    }
}

fn sdk_model(bytes: &[u8]) -> Result<MarketModel, String> {
    let m = gmsol_sdk::utils::zero_copy::try_deserialize_zero_copy_with_options::<SdkMarket>(bytes, true)
        .map_err(|e| e.to_string())?
        .0;
    Ok(MarketModel::from_parts(Arc::new(m), 0))
}

fn diff_range(a: &[u8], b: &[u8]) -> Option<(usize, usize)> {
    let first = a.iter().zip(b).position(|(x, y)| x != y)?;
    let last = a.iter().zip(b).rposition(|(x, y)| x != y)?;
    Some((first, last + 1))
}

fn market_round(m: &mut Monitor, rng: &mut Rng, rows: &[Row], round: u64, uncovered: &mut Vec<String>) {
    let size = std::mem::size_of::<Market>();
    let cfg_off = offset_of!(SdkMarket, config);
    let mut buf = Aligned::zeroed(size);
    // base content: zero / fully random bytes (any bit pattern is a valid Pod market)
    if round % 3 != 0 {
        rng.fill(buf.bytes_mut());
    }
    let random_values = round % 2 == 1;
    let sentinels: Vec<u128> = rows
        .iter()
        .enumerate()
        .map(|(i, _)| {
            let low = (i as u128) + 1;
            if random_values {
                // distinct by construction (low byte = index), otherwise arbitrary incl. > 100%
                (rng.next_u128() & !0xffu128) | low
            } else {
                ((i as u128 + 1) * 1_000_003u128 << 8) | low
            }
        })
        .collect();

    // ---- 1. one key at a time: own value changes, nothing else moves ----
    for (i, row) in rows.iter().enumerate() {
        m.eval();
        let key_str = row.key.to_string();
        let before = buf.bytes().to_vec();
        let others_before: Vec<Option<u128>> = rows
            .iter()
            .map(|r| buf.view::<Market>().get_config_by_key(r.key).copied())
            .collect();
        // make sure the write is visible as a change
        let s = if others_before[i] == Some(sentinels[i]) { sentinels[i] ^ (1 << 100) } else { sentinels[i] };
        let w = guard(|| match buf.view_mut::<Market>().get_config_mut(&key_str) {
            Ok(slot) => {
                *slot = s;
                Ok(())
            }
            Err(e) => Err(e.to_string()),
        });
        let wit = |what: &str, extra: vcommon::serde_json::Value| json!({"what": what, "key": key_str, "value": s.to_string(), "detail": extra});
        match w {
            Ok(Ok(())) => {}
            other => {
                m.violation("C16:market_config:write_refused", wit("get_config_mut failed", json!(format!("{other:?}"))));
                continue;
            }
        }
        let after = buf.bytes().to_vec();
        match diff_range(&before, &after) {
            None => m.violation("C16:market_config:write_not_stored", wit("no byte changed", json!(null))),
            Some((lo, hi)) => {
                let slot = cfg_off + row.sdk_off;
                if lo < slot || hi > slot + 16 {
                    m.violation(
                        "C16:market_config:write_outside_own_field",
                        wit("bytes changed outside the key's declared field", json!({"changed": [lo, hi], "declared_field": [slot, slot + 16]})),
                    );
                } else if after[slot..slot + 16] != s.to_le_bytes() {
                    m.violation("C16:market_config:stored_value_differs", wit("field bytes are not the written value", json!(null)));
                } else {
                    m.count("market_key_write_confined_to_own_field");
                }
            }
        }
        // read back through every getter of the key
        let mk = buf.view::<Market>();
        let by_key = mk.get_config_by_key(row.key).copied();
        let by_str = mk.get_config(&key_str).ok().copied();
        if by_key != Some(s) || by_str != Some(s) {
            m.violation("C16:market_config:read_back_differs", wit("get_config / get_config_by_key", json!({"by_key": by_key.map(|x| x.to_string()), "by_str": by_str.map(|x| x.to_string())})));
        }
        for (j, r) in rows.iter().enumerate() {
            if j != i && mk.get_config_by_key(r.key).copied() != others_before[j] {
                m.violation("C16:market_config:other_key_moved", wit("another key changed", json!({"other": r.key.to_string()})));
            }
        }
        // leave the canonical sentinel in place for the matrix below
        *buf.view_mut::<Market>().get_config_mut(&key_str).unwrap() = sentinels[i];
        m.nontrivial(&[1, i as u8, random_values as u8, (round % 3) as u8]);
    }

    // ---- 2. flags: own bit only ----
    let flag_slot = cfg_off + offset_of!(SdkCfg, flag);
    for f in Flag::iter() {
        for v in [true, false, true] {
            m.eval();
            let name = f.to_string();
            let before = buf.bytes().to_vec();
            let prev_real = buf.view::<Market>().get_config_flag_by_key(f);
            let r = guard(|| buf.view_mut::<Market>().set_config_flag(&name, v).map_err(|e| e.to_string()));
            let after = buf.bytes().to_vec();
            let wit = |what: &str| json!({"what": what, "flag": name, "value": v, "result": format!("{r:?}")});
            match &r {
                Ok(Ok(prev)) => {
                    if *prev != prev_real {
                        m.violation("C16:market_flag:previous_value_wrong", wit("returned previous value"));
                    }
                }
                _ => {
                    m.violation("C16:market_flag:write_refused", wit("set_config_flag failed"));
                    continue;
                }
            }
            let bit = 1u128 << flag_bit(f);
            let old = u128::from_le_bytes(before[flag_slot..flag_slot + 16].try_into().unwrap());
            let new = u128::from_le_bytes(after[flag_slot..flag_slot + 16].try_into().unwrap());
            let expect = if v { old | bit } else { old & !bit };
            let outside = before[..flag_slot] != after[..flag_slot] || before[flag_slot + 16..] != after[flag_slot + 16..];
            if outside || new != expect {
                m.violation("C16:market_flag:write_outside_own_bit", wit("bits other than the flag's own declared bit changed"));
            } else {
                m.count("market_flag_write_confined_to_own_bit");
            }
            let mk = buf.view::<Market>();
            if mk.get_config_flag_by_key(f) != v || mk.get_config_flag(&name).ok() != Some(v) {
                m.violation("C16:market_flag:read_back_differs", wit("get_config_flag"));
            }
            for g in Flag::iter() {
                if g != f {
                    let gb = 1u128 << flag_bit(g);
                    if mk.get_config_flag_by_key(g) != (old & gb != 0) {
                        m.violation("C16:market_flag:other_flag_moved", wit("another flag changed"));
                    }
                }
            }
            m.nontrivial(&[2, flag_bit(f), v as u8, (round % 3) as u8]);
        }
    }

    // ---- 3. model accessors under flag x closed, program and SDK on the same bytes ----
    let skip_normal = rng.bool();
    let skip_closed = rng.bool();
    let ignore_oi = rng.bool();
    for enable in [false, true] {
        for closed in [false, true] {
            {
                let mk = buf.view_mut::<Market>();
                mk.set_config_flag(&Flag::EnableMarketClosedParams.to_string(), enable).unwrap();
                mk.set_config_flag(&Flag::SkipBorrowingFeeForSmallerSide.to_string(), skip_normal).unwrap();
                mk.set_config_flag(&Flag::MarketClosedSkipBorrowingFeeForSmallerSide.to_string(), skip_closed).unwrap();
                mk.set_config_flag(&Flag::IgnoreOpenInterestForUsageFactor.to_string(), ignore_oi).unwrap();
                mk.set_flag(MarketFlag::Closed, closed);
            }
            let closed_params = enable && closed;
            let prog = buf.view::<Market>();
            if prog.is_closed() != closed {
                m.violation("C16:market_flag:closed_flag_not_observed", json!({"closed": closed}));
            }
            let sdk = match sdk_model(buf.bytes()) {
                Ok(s) => s,
                Err(e) => {
                    m.violation("C16:sdk:decode_failed", json!({"error": e}));
                    return;
                }
            };
            for (i, row) in rows.iter().enumerate() {
                if row.readers.is_empty() {
                    let name = row.key.to_string();
                    if !uncovered.contains(&name) {
                        uncovered.push(name);
                    }
                }
                // SDK by-key getter
                m.eval();
                if sdk.config.get(row.key).copied() != Some(sentinels[i]) {
                    m.violation("C16:sdk_config_get:wrong_field", json!({"key": row.key.to_string(), "expected": sentinels[i].to_string(), "got": sdk.config.get(row.key).map(|x| x.to_string())}));
                } else {
                    m.count("sdk_config_get_equal");
                }
                let is_active = match row.active {
                    Active::Always => true,
                    Active::NormalParams => !closed_params,
                    Active::ClosedParams => closed_params,
                };
                if !is_active {
                    continue;
                }
                for r in &row.readers {
                    m.eval();
                    let p = guard(|| read(prog, *r));
                    let s = guard(|| read(&sdk, *r));
                    let wit = json!({"key": row.key.to_string(), "accessor": format!("{r:?}"), "enable_market_closed_params": enable, "market_closed": closed, "expected": sentinels[i].to_string(), "program": format!("{p:?}"), "sdk": format!("{s:?}")});
                    if p != Ok(Ok(sentinels[i])) {
                        m.violation("C16:program_model:accessor_reads_other_setting", wit);
                    } else if s != Ok(Ok(sentinels[i])) {
                        m.violation("C16:sdk_model:accessor_reads_other_setting", wit);
                    } else {
                        m.count("model_accessor_equal_program_and_sdk");
                        if row.active != Active::Always {
                            m.count(if closed_params { "closed_params_switch_observed" } else { "normal_params_switch_observed" });
                        }
                        m.nontrivial(&[3, i as u8, enable as u8, closed as u8, random_values as u8]);
                    }
                }
            }
            for f in Flag::iter() {
                let Some(act) = flag_active(f) else {
                    let name = format!("flag:{f}");
                    if f != Flag::EnableMarketClosedParams && !uncovered.contains(&name) {
                        uncovered.push(name);
                    }
                    continue;
                };
                let is_active = match act {
                    Active::Always => true,
                    Active::NormalParams => !closed_params,
                    Active::ClosedParams => closed_params,
                };
                if !is_active {
                    continue;
                }
                m.eval();
                let expect = match f {
                    Flag::SkipBorrowingFeeForSmallerSide => skip_normal,
                    Flag::MarketClosedSkipBorrowingFeeForSmallerSide => skip_closed,
                    _ => ignore_oi,
                };
                let p = flag_reader(prog, f);
                let s = flag_reader(&sdk, f);
                if p != Some(Ok(expect)) {
                    m.violation("C16:program_model:flag_accessor_reads_other_flag", json!({"flag": f.to_string(), "expected": expect, "got": format!("{p:?}"), "enable": enable, "closed": closed}));
                } else if s != Some(Ok(expect)) {
                    m.violation("C16:sdk_model:flag_accessor_reads_other_flag", json!({"flag": f.to_string(), "expected": expect, "got": format!("{s:?}"), "enable": enable, "closed": closed}));
                } else {
                    m.count("flag_accessor_equal_program_and_sdk");
                }
            }
        }
    }
    // a zero liquidation factor falls back to min_collateral_factor (documented Option semantics)
    {
        m.eval();
        let mk = buf.view_mut::<Market>();
        mk.set_flag(MarketFlag::Closed, false);
        *mk.get_config_mut(&K::MinCollateralFactorForLiquidation.to_string()).unwrap() = 0;
        let want = mk.get_config_by_key(K::MinCollateralFactor).copied();
        let p = read(buf.view::<Market>(), R::MinCollLiq).ok();
        let s = sdk_model(buf.bytes()).ok().and_then(|s| read(&s, R::MinCollLiq).ok());
        if p != want || s != want {
            m.violation("C16:model:zero_liquidation_factor_fallback", json!({"program": p.map(|x| x.to_string()), "sdk": s.map(|x| x.to_string()), "min_collateral_factor": want.map(|x| x.to_string())}));
        } else {
            m.count("zero_liquidation_factor_falls_back");
        }
    }
    m.count("market_rounds");
    if m.wants_sample() {
        m.sample(json!({"round": round, "random_values": random_values, "first_keys": rows.iter().take(3).enumerate().map(|(i, r)| json!({"key": r.key.to_string(), "sentinel": sentinels[i].to_string()})).collect::<Vec<_>>()}));
    }
}

fn store_round(m: &mut Monitor, rng: &mut Rng, round: u64, uncovered: &mut Vec<String>) {
    let size = std::mem::size_of::<Store>();
    let mut buf = Aligned::zeroed(size);
    if round % 3 != 0 {
        rng.fill(buf.bytes_mut());
    }
    // hand table: key -> declared SDK field (offset, width)
    let amt = offset_of!(SdkStore, amount);
    let fac = offset_of!(SdkStore, factor);
    let adr = offset_of!(SdkStore, address);
    let amount_rows: Vec<(AmountKey, usize)> = vec![
        (AmountKey::ClaimableTimeWindow, amt + offset_of!(SdkAmounts, claimable_time_window)),
        (AmountKey::RecentTimeWindow, amt + offset_of!(SdkAmounts, recent_time_window)),
        (AmountKey::RequestExpiration, amt + offset_of!(SdkAmounts, request_expiration)),
        (AmountKey::OracleMaxAge, amt + offset_of!(SdkAmounts, oracle_max_age)),
        (AmountKey::OracleMaxTimestampRange, amt + offset_of!(SdkAmounts, oracle_max_timestamp_range)),
        (AmountKey::OracleMaxFutureTimestampExcess, amt + offset_of!(SdkAmounts, oracle_max_future_timestamp_excess)),
        (AmountKey::AdlPricesMaxStaleness, amt + offset_of!(SdkAmounts, adl_prices_max_staleness)),
        (AmountKey::MinPositionAgeForManualClose, amt + offset_of!(SdkAmounts, min_position_age_for_manual_close)),
        (AmountKey::MarketClosedPricesMaxStaleness, amt + offset_of!(SdkAmounts, market_closed_prices_max_staleness)),
    ];
    let factor_rows: Vec<(FactorKey, usize)> = vec![
        (FactorKey::OracleRefPriceDeviation, fac + offset_of!(SdkFactors, oracle_ref_price_deviation)),
        (FactorKey::OrderFeeDiscountForReferredUser, fac + offset_of!(SdkFactors, order_fee_discount_for_referred_user)),
        (FactorKey::MaxBuilderFeeFactor, fac + offset_of!(SdkFactors, max_builder_fee_factor)),
    ];
    let address_rows: Vec<(AddressKey, usize)> = vec![(AddressKey::Holding, adr + offset_of!(SdkAddresses, holding))];

    for k in AmountKey::iter() {
        if !amount_rows.iter().any(|(a, _)| a.to_string() == k.to_string()) {
            let n = format!("amount:{k}");
            if !uncovered.contains(&n) {
                uncovered.push(n);
            }
        }
    }
    for k in FactorKey::iter() {
        if !factor_rows.iter().any(|(a, _)| a.to_string() == k.to_string()) {
            let n = format!("factor:{k}");
            if !uncovered.contains(&n) {
                uncovered.push(n);
            }
        }
    }
    for k in AddressKey::iter() {
        if !address_rows.iter().any(|(a, _)| a.to_string() == k.to_string()) {
            let n = format!("address:{k}");
            if !uncovered.contains(&n) {
                uncovered.push(n);
            }
        }
    }

    let all_amounts = |b: &Aligned| -> Vec<Option<u64>> { amount_rows.iter().map(|(k, _)| b.view::<Store>().get_amount_by_key(*k).copied()).collect() };
    let all_factors = |b: &Aligned| -> Vec<Option<u128>> { factor_rows.iter().map(|(k, _)| b.view::<Store>().get_factor_by_key(*k).copied()).collect() };
    let all_addresses = |b: &Aligned| -> Vec<Option<[u8; 32]>> { address_rows.iter().map(|(k, _)| b.view::<Store>().get_address_by_key(*k).map(|p| p.to_bytes())).collect() };

    // ---- amounts ----
    for (i, (k, off)) in amount_rows.iter().enumerate() {
        m.eval();
        let name = k.to_string();
        let before = buf.bytes().to_vec();
        let (a0, f0, d0) = (all_amounts(&buf), all_factors(&buf), all_addresses(&buf));
        let mut s: u64 = (rng.next_u64() & !0xff) | (i as u64 + 1);
        if a0[i] == Some(s) {
            s ^= 1 << 40;
        }
        let w = guard(|| match buf.view_mut::<Store>().get_amount_mut(&name) {
            Ok(slot) => {
                *slot = s;
                true
            }
            Err(_) => false,
        });
        let wit = |what: &str| json!({"what": what, "key": name, "value": s});
        if w == Ok(false) && matches!(k, AmountKey::ClaimableTimeWindow) {
            // documented: changes to claimable_time_window are prohibited through the key
            if buf.bytes() != &before[..] {
                m.violation("C16:store_amount:refused_write_changed_bytes", wit("refused write modified the store"));
            }
            m.count("store_write_refused_by_design(claimable_time_window)");
            // still check the read side of the key against the declared field
            buf.bytes_mut()[*off..*off + 8].copy_from_slice(&s.to_le_bytes());
            let st = buf.view::<Store>();
            let via_fn = guard(|| st.claimable_time_window().ok().map(|x| x.get()));
            if st.get_amount(&name).ok().copied() != Some(s) || via_fn != Ok(Some(s)) {
                m.violation("C16:store_amount:read_back_differs", wit("claimable_time_window read side"));
            } else {
                m.count("store_accessor_checked");
            }
            continue;
        }
        if w != Ok(true) {
            m.violation("C16:store_amount:write_refused", wit("get_amount_mut failed"));
            continue;
        }
        let after = buf.bytes().to_vec();
        match diff_range(&before, &after) {
            Some((lo, hi)) if lo >= *off && hi <= off + 8 && after[*off..off + 8] == s.to_le_bytes() => m.count("store_key_write_confined_to_own_field"),
            other => m.violation("C16:store_amount:write_outside_own_field", json!({"key": name, "changed": format!("{other:?}"), "declared_field": [off, off + 8]})),
        }
        let st = buf.view::<Store>();
        if st.get_amount(&name).ok().copied() != Some(s) || st.get_amount_by_key(*k).copied() != Some(s) {
            m.violation("C16:store_amount:read_back_differs", wit("get_amount"));
        }
        let (a1, f1, d1) = (all_amounts(&buf), all_factors(&buf), all_addresses(&buf));
        if a1.iter().enumerate().any(|(j, v)| j != i && *v != a0[j]) || f1 != f0 || d1 != d0 {
            m.violation("C16:store_amount:other_key_moved", wit("another key changed"));
        }
        // named parameter, where the store has one
        if matches!(k, AmountKey::RequestExpiration) {
            let got = st.request_expiration_at(0).ok();
            let want = i64::try_from(s).ok();
            if got != want {
                m.violation("C16:store_amount:request_expiration_accessor", json!({"value": s, "got": got}));
            } else {
                m.count("store_accessor_checked");
            }
        }
        m.nontrivial(&[4, i as u8, (round % 3) as u8]);
    }
    // ---- factors ----
    for (i, (k, off)) in factor_rows.iter().enumerate() {
        m.eval();
        let name = k.to_string();
        let before = buf.bytes().to_vec();
        let (a0, f0, d0) = (all_amounts(&buf), all_factors(&buf), all_addresses(&buf));
        let mut s: u128 = if rng.bool() { rng.range_u128(1, UNIT) } else { (rng.next_u128() & !0xff) | (i as u128 + 1) };
        if f0[i] == Some(s) {
            s ^= 1 << 3;
        }
        let w = guard(|| match buf.view_mut::<Store>().get_factor_mut(&name) {
            Ok(slot) => {
                *slot = s;
                true
            }
            Err(_) => false,
        });
        if w != Ok(true) {
            m.violation("C16:store_factor:write_refused", json!({"key": name}));
            continue;
        }
        let after = buf.bytes().to_vec();
        match diff_range(&before, &after) {
            Some((lo, hi)) if lo >= *off && hi <= off + 16 && after[*off..off + 16] == s.to_le_bytes() => m.count("store_key_write_confined_to_own_field"),
            other => m.violation("C16:store_factor:write_outside_own_field", json!({"key": name, "changed": format!("{other:?}"), "declared_field": [off, off + 16]})),
        }
        let st = buf.view::<Store>();
        if st.get_factor(&name).ok().copied() != Some(s) || st.get_factor_by_key(*k).copied() != Some(s) {
            m.violation("C16:store_factor:read_back_differs", json!({"key": name, "value": s.to_string()}));
        }
        let (a1, f1, d1) = (all_amounts(&buf), all_factors(&buf), all_addresses(&buf));
        if f1.iter().enumerate().any(|(j, v)| j != i && *v != f0[j]) || a1 != a0 || d1 != d0 {
            m.violation("C16:store_factor:other_key_moved", json!({"key": name}));
        }
        m.nontrivial(&[5, i as u8, (round % 3) as u8]);
    }
    // ---- addresses ----
    for (i, (k, off)) in address_rows.iter().enumerate() {
        m.eval();
        let name = k.to_string();
        let before = buf.bytes().to_vec();
        let (a0, f0) = (all_amounts(&buf), all_factors(&buf));
        let mut s = [0u8; 32];
        rng.fill(&mut s);
        s[0] |= 1;
        let w = guard(|| match buf.view_mut::<Store>().get_address_mut(&name) {
            Ok(slot) => {
                *slot = anchor_lang::prelude::Pubkey::new_from_array(s);
                true
            }
            Err(_) => false,
        });
        if w != Ok(true) {
            m.violation("C16:store_address:write_refused", json!({"key": name}));
            continue;
        }
        let after = buf.bytes().to_vec();
        match diff_range(&before, &after) {
            Some((lo, hi)) if lo >= *off && hi <= off + 32 && after[*off..off + 32] == s => m.count("store_key_write_confined_to_own_field"),
            other => m.violation("C16:store_address:write_outside_own_field", json!({"key": name, "changed": format!("{other:?}"), "declared_field": [off, off + 32]})),
        }
        let st = buf.view::<Store>();
        if st.get_address(&name).ok().map(|p| p.to_bytes()) != Some(s) || st.holding().to_bytes() != s {
            m.violation("C16:store_address:read_back_differs", json!({"key": name}));
        } else {
            m.count("store_accessor_checked");
        }
        if all_amounts(&buf) != a0 || all_factors(&buf) != f0 {
            m.violation("C16:store_address:other_key_moved", json!({"key": name}));
        }
        m.nontrivial(&[6, i as u8, (round % 3) as u8]);
    }
    // ---- SDK view of the same bytes + the referral factor's named use ----
    m.eval();
    match gmsol_sdk::utils::zero_copy::try_deserialize_zero_copy_with_options::<SdkStore>(buf.bytes(), true) {
        Err(e) => m.violation("C16:sdk:decode_failed", json!({"error": e.to_string()})),
        Ok(z) => {
            let sdk = z.0;
            let st = buf.view::<Store>();
            let sdk_amounts = [
                sdk.amount.claimable_time_window,
                sdk.amount.recent_time_window,
                sdk.amount.request_expiration,
                sdk.amount.oracle_max_age,
                sdk.amount.oracle_max_timestamp_range,
                sdk.amount.oracle_max_future_timestamp_excess,
                sdk.amount.adl_prices_max_staleness,
                sdk.amount.min_position_age_for_manual_close,
                sdk.amount.market_closed_prices_max_staleness,
            ];
            let sdk_factors = [sdk.factor.oracle_ref_price_deviation, sdk.factor.order_fee_discount_for_referred_user, sdk.factor.max_builder_fee_factor];
            let pa: Vec<Option<u64>> = all_amounts(&buf);
            let pf: Vec<Option<u128>> = all_factors(&buf);
            if pa.iter().zip(sdk_amounts).any(|(a, b)| *a != Some(b)) || pf.iter().zip(sdk_factors).any(|(a, b)| *a != Some(b)) || sdk.address.holding.to_bytes() != st.holding().to_bytes() {
                m.violation("C16:sdk_store:fields_differ", json!({"program_amounts": format!("{pa:?}"), "sdk_amounts": format!("{sdk_amounts:?}")}));
            } else {
                m.count("sdk_store_fields_equal");
            }
            let p = guard(|| st.claimable_time_window().ok().map(|x| x.get()));
            let s = guard(|| sdk.claimable_time_window().ok().map(|x| x.get()));
            if p != s {
                m.violation("C16:sdk_store:claimable_time_window_differs", json!({"program": format!("{p:?}"), "sdk": format!("{s:?}")}));
            }
        }
    }
    m.count("store_rounds");
}

pub fn run(args: &Args) -> i32 {
    let mut mon = Monitor::new(
        args,
        "round = one Market (zeroed, or all bytes random) on which every MarketConfigKey (EnumIter) gets a distinct sentinel through get_config_mut(name) (structured sentinels on even rounds, random u128 incl. >100% on odd rounds), every MarketConfigFlag is toggled through set_config_flag, then all model accessors are read on the program Market and on the SDK MarketModel (same bytes) under EnableMarketClosedParams x market-closed; plus one Store round for every amount / factor / address key. Non-trivial = a key write that changed bytes and was read back, or an accessor read that returned the key's own sentinel on both sides; distinct = hash(kind, key index, switch state, value style, base style).",
    );
    let rounds = crate::util::scaled(args, 6_000, 90_000);
    let shards = 64u64;
    let uncovered_all = std::sync::Mutex::new(Vec::<String>::new());
    let n_keys = K::iter().count();
    vcommon::monitor::run_shards(&mut mon, args.threads, shards, |shard, m| {
        let mut rng = Rng::derive(args.seed, shard, 16);
        let rows = table();
        let mut uncovered: Vec<String> = vec![];
        // every key of the enum must be in the hand table, else it is listed as uncovered
        for k in K::iter() {
            if !rows.iter().any(|r| r.key == k) {
                uncovered.push(format!("market_config:{k} (not in the hand-written table)"));
            }
        }
        for round in 0..rounds {
            market_round(m, &mut rng, &rows, round + shard, &mut uncovered);
            store_round(m, &mut rng, round + shard, &mut uncovered);
        }
        let mut g = uncovered_all.lock().unwrap();
        for u in uncovered {
            if !g.contains(&u) {
                g.push(u);
            }
        }
    });
    let mut unc = uncovered_all.into_inner().unwrap();
    unc.sort();
    mon.set_extra(
        "uncovered_keys",
        json!({
            "no_model_accessor_identified (write/read-back/no-other-key-moved still checked)": unc,
            "store_keys_consumed_by_key_only (no separately named parameter; by-key getter checked)": [
                "recent_time_window", "oracle_max_age", "oracle_max_timestamp_range", "oracle_max_future_timestamp_excess",
                "adl_prices_max_staleness", "min_position_age_for_manual_close", "market_closed_prices_max_staleness",
                "oracle_ref_price_deviation", "max_builder_fee_factor", "order_fee_discount_for_referred_user (its named use is checked by C31)"
            ],
            "flag:enable_market_closed_params": "observed through the parameter switch, not through an accessor of its own",
        }),
    );
    mon.set_extra("market_config_keys_enumerated", json!(n_keys));
    mon.set_extra("documented_differences", json!(["Store::get_amount_mut refuses claimable_time_window by design (documented in store.rs)"]));
    crate::util::req(args, &mut mon, "market_rounds", 500);
    crate::util::req(args, &mut mon, "store_rounds", 500);
    crate::util::req(args, &mut mon, "market_key_write_confined_to_own_field", 500 * 60);
    crate::util::req(args, &mut mon, "model_accessor_equal_program_and_sdk", 100_000);
    crate::util::req(args, &mut mon, "closed_params_switch_observed", 2_000);
    crate::util::req(args, &mut mon, "normal_params_switch_observed", 2_000);
    crate::util::req(args, &mut mon, "market_flag_write_confined_to_own_bit", 2_000);
    crate::util::req(args, &mut mon, "store_key_write_confined_to_own_field", 5_000);
    crate::util::req(args, &mut mon, "sdk_config_get_equal", 100_000);
    mon.assume("field positions come from the SDK's declared layout (declare_program! types, offset_of!), which C40 compares with the program's layout; key -> field / accessor pairs are a hand-written table");
    mon.finish()
}
