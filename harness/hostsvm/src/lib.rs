//! hostsvm — a small in-process runtime that executes real Solana program entrypoints natively.
//!
//! * account store `Pubkey -> Account`;
//! * transactions = lists of instructions, atomic (working set committed only on success);
//! * program invocation builds `AccountInfo`s over per-account blocks laid out like the loader's
//!   input buffer (`orig_len | key | owner | lamports | len | data | 10 KiB slack`) so that
//!   `realloc()` / `assign()` work, with `data + 8` 16-byte aligned (zero-copy accounts with `u128`);
//! * `sol_invoke_signed` stub: privilege checks (signer must be a caller signer or a PDA of the caller,
//!   no writable escalation), copy-in / run / copy-out, re-entrancy rule, post-invocation account
//!   modification checks of the real runtime (owner-only data / lamport debit, read-only unchanged,
//!   lamports balanced);
//! * Clock / Rent / LastRestartSlot sysvars, return data, logs, stack height;
//! * a System-program emulation; SPL Token / Token-2022 / ATA are run from their real processors by
//!   the user of this crate (registered like any other program).
//!
//! Not modelled: compute budget, heap limits, account-data-size limits per transaction, fees.

use anchor_lang::solana_program::{
    self,
    account_info::AccountInfo,
    clock::Clock,
    entrypoint::{ProgramResult, MAX_PERMITTED_DATA_INCREASE},
    instruction::{AccountMeta, Instruction},
    program_error::ProgramError,
    program_stubs::{set_syscall_stubs, SyscallStubs},
    pubkey::Pubkey,
    rent::Rent,
    system_instruction::SystemInstruction,
    system_program,
};
use std::{
    cell::RefCell,
    collections::{BTreeMap, BTreeSet},
    panic::{catch_unwind, AssertUnwindSafe},
    rc::Rc,
    sync::Once,
};

pub mod token;

/// Program entrypoint signature (Anchor's `entry`, `process_instruction` of native programs).
pub type ProcessFn = for<'a> fn(&Pubkey, &'a [AccountInfo<'a>], &[u8]) -> ProgramResult;

pub const NATIVE_LOADER: Pubkey = solana_program::pubkey!("NativeLoader1111111111111111111111111111111");
pub const BPF_LOADER: Pubkey = solana_program::pubkey!("BPFLoaderUpgradeab1e11111111111111111111111");

/// Anchor's `emit_cpi!` instruction tag (little endian of `0x1d9acb512ea545e4`).
pub const EVENT_IX_TAG_LE: [u8; 8] = [0xe4, 0x45, 0xa5, 0x2e, 0x51, 0xcb, 0x9a, 0x1d];

#[derive(Clone, Debug, PartialEq, Eq, Default)]
pub struct Account {
    pub lamports: u64,
    pub data: Vec<u8>,
    pub owner: Pubkey,
    pub executable: bool,
}

impl Account {
    pub fn new(lamports: u64, data: Vec<u8>, owner: Pubkey) -> Self {
        Self {
            lamports,
            data,
            owner,
            executable: false,
        }
    }
}

#[derive(Clone, Debug, PartialEq, Eq)]
pub enum TxError {
    /// The program returned an error (`Custom(code)` for Anchor errors).
    Program(ProgramError),
    /// The program panicked (aborted transaction).
    Panic(String),
    /// The runtime rejected the transaction (privilege escalation, illegal account modification, …).
    Runtime(String),
}

impl TxError {
    pub fn custom_code(&self) -> Option<u32> {
        match self {
            TxError::Program(ProgramError::Custom(c)) => Some(*c),
            _ => None,
        }
    }
    pub fn is_panic(&self) -> bool {
        matches!(self, TxError::Panic(_))
    }
}

/// A CPI observed by the runtime (used by monitors, e.g. the timelock one).
#[derive(Clone, Debug, PartialEq, Eq)]
pub struct CpiRecord {
    pub caller: Pubkey,
    pub depth: usize,
    pub program_id: Pubkey,
    pub accounts: Vec<AccountMeta>,
    pub data: Vec<u8>,
    /// PDA signers derived from the seeds the caller supplied.
    pub pda_signers: Vec<Pubkey>,
}

#[derive(Clone, Debug, Default)]
pub struct TxMeta {
    pub logs: Vec<String>,
    /// `(emitting program, discriminator + borsh data)` of `emit_cpi!` and `emit!` events.
    pub events: Vec<(Pubkey, Vec<u8>)>,
    pub return_data: Option<(Pubkey, Vec<u8>)>,
    pub cpis: Vec<CpiRecord>,
    /// Index of the failing instruction if the transaction failed.
    pub failed_ix: Option<usize>,
}

#[derive(Clone, Debug)]
struct FrameAcct {
    key: Pubkey,
    lamports: u64,
    data: Vec<u8>,
    owner: Pubkey,
    executable: bool,
    is_signer: bool,
    is_writable: bool,
}

struct TxCtx {
    programs: BTreeMap<Pubkey, ProcessFn>,
    clock: Clock,
    rent: Rent,
    last_restart_slot: u64,
    stack: Vec<Pubkey>,
    return_data: Option<(Pubkey, Vec<u8>)>,
    logs: Vec<String>,
    keep_logs: bool,
    events: Vec<(Pubkey, Vec<u8>)>,
    cpis: Vec<CpiRecord>,
    /// Set when any nested invocation failed: the real runtime aborts the whole transaction.
    poisoned: Option<TxError>,
    /// Per stack level: the last runtime-verified value of each account of that frame. Updated
    /// when a CPI returns (the callee's changes were verified under the callee's program id).
    baselines: Vec<Vec<FrameAcct>>,
}

thread_local! {
    static CTX: RefCell<Option<TxCtx>> = const { RefCell::new(None) };
}

fn with_ctx<R>(f: impl FnOnce(&mut TxCtx) -> R) -> Option<R> {
    CTX.with(|c| c.borrow_mut().as_mut().map(f))
}

struct Stubs;

impl SyscallStubs for Stubs {
    fn sol_log(&self, message: &str) {
        with_ctx(|c| {
            if c.keep_logs && c.logs.len() < 4096 {
                c.logs.push(message.to_string());
            }
        });
    }
    fn sol_log_compute_units(&self) {}
    fn sol_remaining_compute_units(&self) -> u64 {
        1_400_000
    }
    fn sol_invoke_signed(
        &self,
        instruction: &Instruction,
        account_infos: &[AccountInfo],
        signers_seeds: &[&[&[u8]]],
    ) -> ProgramResult {
        cpi(instruction, account_infos, signers_seeds)
    }
    fn sol_get_clock_sysvar(&self, var_addr: *mut u8) -> u64 {
        match with_ctx(|c| c.clock.clone()) {
            Some(clock) => {
                unsafe { *(var_addr as *mut Clock) = clock };
                0
            }
            None => solana_program::program_error::UNSUPPORTED_SYSVAR,
        }
    }
    fn sol_get_rent_sysvar(&self, var_addr: *mut u8) -> u64 {
        match with_ctx(|c| c.rent.clone()) {
            Some(rent) => {
                unsafe { *(var_addr as *mut Rent) = rent };
                0
            }
            None => solana_program::program_error::UNSUPPORTED_SYSVAR,
        }
    }
    fn sol_get_last_restart_slot(&self, var_addr: *mut u8) -> u64 {
        match with_ctx(|c| c.last_restart_slot) {
            Some(slot) => {
                unsafe {
                    *(var_addr as *mut solana_program::last_restart_slot::LastRestartSlot) =
                        solana_program::last_restart_slot::LastRestartSlot {
                            last_restart_slot: slot,
                        }
                };
                0
            }
            None => solana_program::program_error::UNSUPPORTED_SYSVAR,
        }
    }
    fn sol_get_return_data(&self) -> Option<(Pubkey, Vec<u8>)> {
        with_ctx(|c| c.return_data.clone()).flatten()
    }
    fn sol_set_return_data(&self, data: &[u8]) {
        with_ctx(|c| {
            let pid = c.stack.last().copied().unwrap_or_default();
            c.return_data = Some((pid, data.to_vec()));
        });
    }
    fn sol_log_data(&self, fields: &[&[u8]]) {
        with_ctx(|c| {
            let pid = c.stack.last().copied().unwrap_or_default();
            if let Some(f) = fields.first() {
                if c.events.len() < 4096 {
                    c.events.push((pid, f.to_vec()));
                }
            }
        });
    }
    fn sol_get_stack_height(&self) -> u64 {
        with_ctx(|c| c.stack.len() as u64).unwrap_or(0)
    }
}

static INSTALL: Once = Once::new();

fn install_stubs() {
    INSTALL.call_once(|| {
        let _ = set_syscall_stubs(Box::new(Stubs));
    });
}

// ------------------------------------------------------------------------------------------------
// Account blocks

const HDR: usize = 88;

struct Block {
    mem: Vec<u128>,
}

impl Block {
    fn new(a: &FrameAcct) -> Self {
        let cap = HDR + a.data.len() + MAX_PERMITTED_DATA_INCREASE + 16;
        let mut mem = vec![0u128; cap.div_ceil(16)];
        let base = mem.as_mut_ptr() as *mut u8;
        unsafe {
            *(base.add(4) as *mut u32) = a.data.len() as u32;
            std::ptr::copy_nonoverlapping(a.key.as_ref().as_ptr(), base.add(8), 32);
            std::ptr::copy_nonoverlapping(a.owner.as_ref().as_ptr(), base.add(40), 32);
            *(base.add(72) as *mut u64) = a.lamports;
            *(base.add(80) as *mut u64) = a.data.len() as u64;
            std::ptr::copy_nonoverlapping(a.data.as_ptr(), base.add(HDR), a.data.len());
        }
        Self { mem }
    }

    fn base(&self) -> *mut u8 {
        self.mem.as_ptr() as *mut u8
    }

    /// # Safety
    /// The returned `AccountInfo` must not outlive `self`.
    unsafe fn info(&self, a: &FrameAcct) -> AccountInfo<'static> {
        let base = self.base();
        let key: &'static Pubkey = &*(base.add(8) as *const Pubkey);
        let owner: &'static Pubkey = &*(base.add(40) as *const Pubkey);
        let lamports: &'static mut u64 = &mut *(base.add(72) as *mut u64);
        let data: &'static mut [u8] = std::slice::from_raw_parts_mut(base.add(HDR), a.data.len());
        AccountInfo {
            key,
            lamports: Rc::new(RefCell::new(lamports)),
            data: Rc::new(RefCell::new(data)),
            owner,
            rent_epoch: u64::MAX,
            is_signer: a.is_signer,
            is_writable: a.is_writable,
            executable: a.executable,
        }
    }

    fn read_back(&self, a: &mut FrameAcct) -> Result<(), TxError> {
        let base = self.base();
        unsafe {
            let len = *(base.add(80) as *const u64) as usize;
            let orig = *(base.add(4) as *const u32) as usize;
            if len > orig + MAX_PERMITTED_DATA_INCREASE {
                return Err(TxError::Runtime("InvalidRealloc".into()));
            }
            a.lamports = *(base.add(72) as *const u64);
            a.owner = *(base.add(40) as *const Pubkey);
            a.data.clear();
            a.data
                .extend_from_slice(std::slice::from_raw_parts(base.add(HDR), len));
        }
        Ok(())
    }
}

// ------------------------------------------------------------------------------------------------
// Invocation

fn is_builtin(pid: &Pubkey) -> bool {
    *pid == system_program::ID
}

fn invoke_frame(program_id: &Pubkey, accts: &mut [FrameAcct], metas: &[usize], data: &[u8]) -> Result<(), TxError> {
    // `metas[i]` = index into `accts` for the i-th instruction account.
    let depth = with_ctx(|c| c.stack.len()).unwrap_or(0);
    if depth >= 5 {
        return Err(TxError::Runtime("CallDepth".into()));
    }
    // Re-entrancy: a program may only be re-entered directly by itself.
    let reentrancy_ok = with_ctx(|c| {
        let n = c.stack.len();
        !c.stack.iter().enumerate().any(|(i, p)| p == program_id && i + 1 != n)
    })
    .unwrap_or(true);
    if !reentrancy_ok {
        return Err(TxError::Runtime("ReentrancyNotAllowed".into()));
    }
    let entry_lamports: u128 = accts.iter().map(|a| a.lamports as u128).sum();
    with_ctx(|c| {
        c.stack.push(*program_id);
        c.baselines.push(accts.to_vec());
    });
    let result = if is_builtin(program_id) {
        system_process(accts, metas, data).map_err(TxError::Program)
    } else {
        let f = with_ctx(|c| c.programs.get(program_id).copied()).flatten();
        match f {
            None => Err(TxError::Runtime(format!("UnsupportedProgramId {program_id}"))),
            Some(f) => {
                let blocks: Vec<Block> = accts.iter().map(Block::new).collect();
                let r = {
                    let uniq: Vec<AccountInfo<'static>> = accts
                        .iter()
                        .zip(blocks.iter())
                        .map(|(a, b)| unsafe { b.info(a) })
                        .collect();
                    let infos: Vec<AccountInfo<'static>> =
                        metas.iter().map(|i| uniq[*i].clone()).collect();
                    let infos_ref: &[AccountInfo<'static>] = &infos;
                    // SAFETY: the infos only live for this call; blocks outlive them.
                    let infos_ref: &'static [AccountInfo<'static>] =
                        unsafe { std::mem::transmute(infos_ref) };
                    let pid = *program_id;
                    let r = catch_unwind(AssertUnwindSafe(|| f(&pid, infos_ref, data)));
                    drop(infos);
                    drop(uniq);
                    r
                };
                match r {
                    Ok(Ok(())) => {
                        let mut res = Ok(());
                        for (a, b) in accts.iter_mut().zip(blocks.iter()) {
                            if let Err(e) = b.read_back(a) {
                                res = Err(e);
                                break;
                            }
                        }
                        res
                    }
                    Ok(Err(e)) => Err(TxError::Program(e)),
                    Err(p) => {
                        let msg = if let Some(s) = p.downcast_ref::<&str>() {
                            s.to_string()
                        } else if let Some(s) = p.downcast_ref::<String>() {
                            s.clone()
                        } else {
                            "panic".to_string()
                        };
                        Err(TxError::Panic(msg))
                    }
                }
            }
        }
    };
    let pre = with_ctx(|c| {
        c.stack.truncate(depth);
        let b = c.baselines.get(depth).cloned();
        c.baselines.truncate(depth);
        b
    })
    .flatten()
    .unwrap_or_default();
    result?;
    verify_modifications(program_id, &pre, accts)?;
    let exit_lamports: u128 = accts.iter().map(|a| a.lamports as u128).sum();
    if entry_lamports != exit_lamports {
        return Err(TxError::Runtime("UnbalancedInstruction".into()));
    }
    Ok(())
}

/// Post-invocation checks of the real runtime (`PreAccount::verify` / balanced lamports).
fn verify_modifications(program_id: &Pubkey, pre: &[FrameAcct], post: &[FrameAcct]) -> Result<(), TxError> {
    for q in post.iter() {
        let Some(p) = pre.iter().find(|p| p.key == q.key) else {
            continue;
        };
        let owner_changed = p.owner != q.owner;
        let data_changed = p.data != q.data;
        let len_changed = p.data.len() != q.data.len();
        let e = |s: &str| Err(TxError::Runtime(format!("{s} ({})", p.key)));
        if owner_changed {
            // Only the owner may assign a new owner, if writable, not executable, data zeroed.
            if !p.is_writable || p.executable || p.owner != *program_id || q.data.iter().any(|b| *b != 0) {
                return e("ModifiedProgramId");
            }
        }
        if p.owner != *program_id && p.lamports > q.lamports {
            return e("ExternalAccountLamportSpend");
        }
        if p.lamports != q.lamports {
            if !p.is_writable {
                return e("ReadonlyLamportChange");
            }
            if p.executable {
                return e("ExecutableLamportChange");
            }
        }
        if len_changed && p.owner != *program_id && !(system_program::check_id(program_id) && system_program::check_id(&p.owner)) {
            return e("AccountDataSizeChanged");
        }
        if data_changed {
            if p.executable {
                return e("ExecutableDataModified");
            }
            if !p.is_writable {
                return e("ReadonlyDataModified");
            }
            if p.owner != *program_id {
                return e("ExternalAccountDataModified");
            }
        }
        if p.executable != q.executable {
            return e("ExecutableModified");
        }
    }
    Ok(())
}

/// The `sol_invoke_signed` stub.
fn cpi(instruction: &Instruction, infos: &[AccountInfo], signers_seeds: &[&[&[u8]]]) -> ProgramResult {
    let caller = match with_ctx(|c| c.stack.last().copied()).flatten() {
        Some(c) => c,
        None => return Err(ProgramError::InvalidArgument),
    };
    let fail = |e: TxError| -> ProgramError {
        let pe = match &e {
            TxError::Program(p) => p.clone(),
            _ => ProgramError::InvalidArgument,
        };
        with_ctx(|c| {
            if c.poisoned.is_none() {
                c.poisoned = Some(e);
            }
        });
        pe
    };
    let mut pda_signers = Vec::new();
    for seeds in signers_seeds {
        match Pubkey::create_program_address(seeds, &caller) {
            Ok(k) => pda_signers.push(k),
            Err(_) => return Err(fail(TxError::Runtime("InvalidSeeds in CPI signer".into()))),
        }
    }
    let depth = with_ctx(|c| c.stack.len()).unwrap_or(0);
    with_ctx(|c| {
        if c.cpis.len() < 4096 {
            c.cpis.push(CpiRecord {
                caller,
                depth,
                program_id: instruction.program_id,
                accounts: instruction.accounts.clone(),
                data: instruction.data.clone(),
                pda_signers: pda_signers.clone(),
            });
        }
        if instruction.program_id == caller && instruction.data.len() >= 8 && instruction.data[..8] == EVENT_IX_TAG_LE && c.events.len() < 4096 {
            c.events.push((caller, instruction.data[8..].to_vec()));
        }
    });
    // The callee program account must be among the *caller's instruction accounts* (the real runtime
    // looks it up in the caller's instruction context; it need not be in `account_infos`).
    let known = with_ctx(|c| {
        c.baselines
            .get(depth.saturating_sub(1))
            .map(|b| b.iter().any(|a| a.key == instruction.program_id))
            .unwrap_or(false)
    })
    .unwrap_or(false);
    if !is_builtin(&instruction.program_id) && !known {
        return Err(fail(TxError::Runtime(format!(
            "MissingAccount: unknown program {} (not an account of the calling instruction)",
            instruction.program_id
        ))));
    }
    // Build the callee frame from the caller's infos.
    let mut accts: Vec<FrameAcct> = Vec::new();
    let mut info_idx: Vec<usize> = Vec::new(); // per unique account: index into `infos`
    let mut metas: Vec<usize> = Vec::new();
    for m in &instruction.accounts {
        let pos = match accts.iter().position(|a| a.key == m.pubkey) {
            Some(p) => p,
            None => {
                let Some(ii) = infos.iter().position(|i| *i.key == m.pubkey) else {
                    return Err(fail(TxError::Runtime(format!("MissingAccount {}", m.pubkey))));
                };
                let i = &infos[ii];
                let (Ok(l), Ok(d)) = (i.try_borrow_lamports(), i.try_borrow_data()) else {
                    return Err(fail(TxError::Program(ProgramError::AccountBorrowFailed)));
                };
                accts.push(FrameAcct {
                    key: m.pubkey,
                    lamports: **l,
                    data: d.to_vec(),
                    owner: *i.owner,
                    executable: i.executable,
                    is_signer: false,
                    is_writable: false,
                });
                info_idx.push(ii);
                accts.len() - 1
            }
        };
        let i = &infos[info_idx[pos]];
        if m.is_signer && !(i.is_signer || pda_signers.contains(&m.pubkey)) {
            return Err(fail(TxError::Runtime(format!(
                "PrivilegeEscalation: {} signer privilege escalated",
                m.pubkey
            ))));
        }
        if m.is_writable && !i.is_writable {
            return Err(fail(TxError::Runtime(format!(
                "PrivilegeEscalation: {} writable privilege escalated",
                m.pubkey
            ))));
        }
        accts[pos].is_signer |= m.is_signer;
        accts[pos].is_writable |= m.is_writable;
        metas.push(pos);
    }
    // The caller's own modifications so far are verified before the callee sees them.
    let caller_level = depth.saturating_sub(1);
    let base = with_ctx(|c| c.baselines.get(caller_level).cloned()).flatten().unwrap_or_default();
    {
        // Privileges for this check are the caller's (not the callee's subset).
        let mut as_caller = accts.clone();
        for (a, ii) in as_caller.iter_mut().zip(info_idx.iter()) {
            a.is_writable = infos[*ii].is_writable;
            a.is_signer = infos[*ii].is_signer;
        }
        if let Err(e) = verify_modifications(&caller, &base, &as_caller) {
            return Err(fail(e));
        }
    }
    if let Err(e) = invoke_frame(&instruction.program_id, &mut accts, &metas, &instruction.data) {
        return Err(fail(e));
    }
    with_ctx(|c| {
        if let Some(b) = c.baselines.get_mut(caller_level) {
            for a in &accts {
                if let Some(x) = b.iter_mut().find(|x| x.key == a.key) {
                    x.lamports = a.lamports;
                    x.data = a.data.clone();
                    x.owner = a.owner;
                }
            }
        }
    });
    // Copy-out to the caller's infos.
    for (a, ii) in accts.iter().zip(info_idx.iter()) {
        if !a.is_writable {
            continue;
        }
        let i = &infos[*ii];
        let Ok(mut l) = i.try_borrow_mut_lamports() else {
            return Err(fail(TxError::Program(ProgramError::AccountBorrowFailed)));
        };
        **l = a.lamports;
        drop(l);
        if *i.owner != a.owner {
            i.assign(&a.owner);
        }
        if i.data_len() != a.data.len() {
            if let Err(e) = i.realloc(a.data.len(), false) {
                return Err(fail(TxError::Program(e)));
            }
        }
        let Ok(mut d) = i.try_borrow_mut_data() else {
            return Err(fail(TxError::Program(ProgramError::AccountBorrowFailed)));
        };
        d.copy_from_slice(&a.data);
    }
    Ok(())
}

// ------------------------------------------------------------------------------------------------
// System program

fn system_process(accts: &mut [FrameAcct], metas: &[usize], data: &[u8]) -> Result<(), ProgramError> {
    let ix: SystemInstruction = bincode::deserialize(data).map_err(|_| ProgramError::InvalidInstructionData)?;
    let get = |i: usize| -> Result<usize, ProgramError> { metas.get(i).copied().ok_or(ProgramError::NotEnoughAccountKeys) };
    const MAX_LEN: u64 = 10 * 1024 * 1024;
    match ix {
        SystemInstruction::CreateAccount { lamports, space, owner } => {
            let (f, t) = (get(0)?, get(1)?);
            if !accts[f].is_signer || !accts[t].is_signer {
                return Err(ProgramError::MissingRequiredSignature);
            }
            if accts[t].lamports > 0 || !accts[t].data.is_empty() || accts[t].owner != system_program::ID {
                return Err(ProgramError::Custom(0)); // AccountAlreadyInUse
            }
            if space > MAX_LEN {
                return Err(ProgramError::Custom(3)); // InvalidAccountDataLength
            }
            if !accts[f].data.is_empty() {
                return Err(ProgramError::InvalidArgument);
            }
            if accts[f].lamports < lamports {
                return Err(ProgramError::Custom(1)); // ResultWithNegativeLamports
            }
            if !accts[f].is_writable || !accts[t].is_writable {
                return Err(ProgramError::InvalidArgument);
            }
            accts[f].lamports -= lamports;
            accts[t].lamports += lamports;
            accts[t].data = vec![0; space as usize];
            accts[t].owner = owner;
            Ok(())
        }
        SystemInstruction::Assign { owner } => {
            let a = get(0)?;
            if accts[a].owner == owner {
                return Ok(());
            }
            if !accts[a].is_signer {
                return Err(ProgramError::MissingRequiredSignature);
            }
            if accts[a].owner != system_program::ID {
                return Err(ProgramError::InvalidArgument);
            }
            accts[a].owner = owner;
            Ok(())
        }
        SystemInstruction::Transfer { lamports } => {
            let (f, t) = (get(0)?, get(1)?);
            if !accts[f].is_signer {
                return Err(ProgramError::MissingRequiredSignature);
            }
            if !accts[f].data.is_empty() {
                return Err(ProgramError::InvalidArgument);
            }
            if accts[f].owner != system_program::ID {
                return Err(ProgramError::InvalidArgument);
            }
            if accts[f].lamports < lamports {
                return Err(ProgramError::Custom(1));
            }
            if f != t {
                accts[f].lamports -= lamports;
                accts[t].lamports = accts[t].lamports.checked_add(lamports).ok_or(ProgramError::ArithmeticOverflow)?;
            }
            Ok(())
        }
        SystemInstruction::Allocate { space } => {
            let a = get(0)?;
            if !accts[a].is_signer {
                return Err(ProgramError::MissingRequiredSignature);
            }
            if !accts[a].data.is_empty() || accts[a].owner != system_program::ID {
                return Err(ProgramError::Custom(0));
            }
            if space > MAX_LEN {
                return Err(ProgramError::Custom(3));
            }
            accts[a].data = vec![0; space as usize];
            Ok(())
        }
        _ => Err(ProgramError::InvalidInstructionData),
    }
}

// ------------------------------------------------------------------------------------------------
// The runtime

#[derive(Clone)]
pub struct Svm {
    pub accounts: BTreeMap<Pubkey, Account>,
    programs: BTreeMap<Pubkey, ProcessFn>,
    pub clock: Clock,
    pub rent: Rent,
    pub last_restart_slot: u64,
    pub keep_logs: bool,
    /// Counters.
    pub tx_ok: u64,
    pub tx_err: u64,
}

impl Default for Svm {
    fn default() -> Self {
        Self::new()
    }
}

impl Svm {
    pub fn new() -> Self {
        install_stubs();
        let mut svm = Self {
            accounts: BTreeMap::new(),
            programs: BTreeMap::new(),
            clock: Clock {
                slot: 1000,
                epoch_start_timestamp: 1_700_000_000,
                epoch: 10,
                leader_schedule_epoch: 11,
                unix_timestamp: 1_700_000_000,
            },
            rent: Rent::default(),
            last_restart_slot: 0,
            keep_logs: false,
            tx_ok: 0,
            tx_err: 0,
        };
        svm.accounts.insert(
            system_program::ID,
            Account {
                lamports: 1,
                data: b"system_program".to_vec(),
                owner: NATIVE_LOADER,
                executable: true,
            },
        );
        svm.write_sysvar_accounts();
        svm
    }

    fn write_sysvar_accounts(&mut self) {
        use solana_program::sysvar;
        let rent = bincode::serialize(&self.rent).unwrap();
        self.accounts.insert(
            sysvar::rent::ID,
            Account {
                lamports: 1_009_200,
                data: rent,
                owner: sysvar::ID,
                executable: false,
            },
        );
        let clock = bincode::serialize(&self.clock).unwrap();
        self.accounts.insert(
            sysvar::clock::ID,
            Account {
                lamports: 1_169_280,
                data: clock,
                owner: sysvar::ID,
                executable: false,
            },
        );
    }

    pub fn add_program(&mut self, id: Pubkey, f: ProcessFn) {
        self.programs.insert(id, f);
        self.accounts.insert(
            id,
            Account {
                lamports: 1_141_440,
                data: vec![2, 0, 0, 0],
                owner: BPF_LOADER,
                executable: true,
            },
        );
    }

    pub fn set_account(&mut self, key: Pubkey, a: Account) {
        self.accounts.insert(key, a);
    }

    pub fn get(&self, key: &Pubkey) -> Option<&Account> {
        self.accounts.get(key)
    }

    pub fn lamports(&self, key: &Pubkey) -> u64 {
        self.accounts.get(key).map(|a| a.lamports).unwrap_or(0)
    }

    pub fn airdrop(&mut self, key: &Pubkey, lamports: u64) {
        let a = self.accounts.entry(*key).or_insert_with(|| Account {
            lamports: 0,
            data: vec![],
            owner: system_program::ID,
            executable: false,
        });
        a.lamports += lamports;
    }

    /// Advance the clock by `secs` seconds (and a proportional number of slots).
    pub fn warp(&mut self, secs: i64) {
        self.clock.unix_timestamp += secs;
        self.clock.slot += (secs.max(0) as u64) * 2 + 1;
        self.write_sysvar_accounts();
    }

    pub fn set_time(&mut self, ts: i64) {
        self.clock.unix_timestamp = ts;
        self.clock.slot += 1;
        self.write_sysvar_accounts();
    }

    /// Execute a transaction atomically. `signers` are the keys that signed it.
    pub fn process(&mut self, ixs: &[Instruction], signers: &[Pubkey]) -> Result<TxMeta, (TxError, TxMeta)> {
        self.process_inner(ixs, signers, true)
    }

    /// Execute without committing (simulation).
    pub fn simulate(&mut self, ixs: &[Instruction], signers: &[Pubkey]) -> Result<TxMeta, (TxError, TxMeta)> {
        self.process_inner(ixs, signers, false)
    }

    fn process_inner(&mut self, ixs: &[Instruction], signers: &[Pubkey], commit: bool) -> Result<TxMeta, (TxError, TxMeta)> {
        install_stubs();
        let signer_set: BTreeSet<Pubkey> = signers.iter().copied().collect();
        let ctx = TxCtx {
            programs: self.programs.clone(),
            clock: self.clock.clone(),
            rent: self.rent.clone(),
            last_restart_slot: self.last_restart_slot,
            stack: vec![],
            return_data: None,
            logs: vec![],
            keep_logs: self.keep_logs,
            events: vec![],
            cpis: vec![],
            poisoned: None,
            baselines: vec![],
        };
        let prev = CTX.with(|c| c.borrow_mut().replace(ctx));
        // Account privileges are transaction-wide (message level): an account is writable / signer in
        // every instruction if any instruction (or the fee payer role: first signer) makes it so.
        let mut tx_writable: BTreeSet<Pubkey> = BTreeSet::new();
        if let Some(payer) = signers.first() {
            tx_writable.insert(*payer);
        }
        for ix in ixs {
            for m in &ix.accounts {
                if m.is_writable {
                    tx_writable.insert(m.pubkey);
                }
            }
        }
        let mut work: BTreeMap<Pubkey, Account> = BTreeMap::new();
        let mut writable_touched: BTreeSet<Pubkey> = BTreeSet::new();
        let mut result: Result<(), TxError> = Ok(());
        let mut failed_ix = None;
        'outer: for (ix_i, ix) in ixs.iter().enumerate() {
            // Program account must exist and be executable.
            match self.accounts.get(&ix.program_id) {
                Some(a) if a.executable => {}
                _ => {
                    result = Err(TxError::Runtime(format!("ProgramAccountNotFound {}", ix.program_id)));
                    failed_ix = Some(ix_i);
                    break;
                }
            }
            let mut accts: Vec<FrameAcct> = Vec::new();
            let mut metas: Vec<usize> = Vec::new();
            for m in &ix.accounts {
                if m.is_signer && !signer_set.contains(&m.pubkey) {
                    result = Err(TxError::Runtime(format!("MissingRequiredSignature {}", m.pubkey)));
                    failed_ix = Some(ix_i);
                    break 'outer;
                }
                let pos = match accts.iter().position(|a| a.key == m.pubkey) {
                    Some(p) => p,
                    None => {
                        let a = work
                            .get(&m.pubkey)
                            .or_else(|| self.accounts.get(&m.pubkey))
                            .cloned()
                            .unwrap_or(Account {
                                lamports: 0,
                                data: vec![],
                                owner: system_program::ID,
                                executable: false,
                            });
                        accts.push(FrameAcct {
                            key: m.pubkey,
                            lamports: a.lamports,
                            data: a.data,
                            owner: a.owner,
                            executable: a.executable,
                            is_signer: false,
                            is_writable: false,
                        });
                        accts.len() - 1
                    }
                };
                accts[pos].is_signer |= m.is_signer || signer_set.contains(&m.pubkey);
                accts[pos].is_writable |= m.is_writable || (tx_writable.contains(&m.pubkey) && !self.programs.contains_key(&m.pubkey));
                metas.push(pos);
            }
            with_ctx(|c| c.return_data = None);
            let r = invoke_frame(&ix.program_id, &mut accts, &metas, &ix.data);
            let poisoned = with_ctx(|c| c.poisoned.take()).flatten();
            let r = match (r, poisoned) {
                // The first nested failure is the root cause (the real runtime aborts right there).
                (_, Some(p)) => Err(p),
                (Err(e), None) => Err(e),
                (Ok(()), None) => Ok(()),
            };
            if let Err(e) = r {
                result = Err(e);
                failed_ix = Some(ix_i);
                break;
            }
            for a in accts {
                if a.is_writable {
                    writable_touched.insert(a.key);
                    work.insert(
                        a.key,
                        Account {
                            lamports: a.lamports,
                            data: a.data,
                            owner: a.owner,
                            executable: a.executable,
                        },
                    );
                }
            }
        }
        // Rent state transition check.
        if result.is_ok() {
            for k in &writable_touched {
                let post = &work[k];
                if post.lamports == 0 {
                    continue;
                }
                let min = self.rent.minimum_balance(post.data.len());
                if post.lamports >= min {
                    continue;
                }
                // Rent paying after: allowed only if it was rent paying before with the same size
                // and the balance did not decrease.
                let ok = match self.accounts.get(k) {
                    Some(pre) if pre.lamports > 0 => {
                        let pre_min = self.rent.minimum_balance(pre.data.len());
                        pre.lamports < pre_min && pre.data.len() == post.data.len() && post.lamports <= pre.lamports
                    }
                    _ => false,
                };
                if !ok {
                    result = Err(TxError::Runtime(format!("InsufficientFundsForRent {k}")));
                    break;
                }
            }
        }
        let ctx = CTX.with(|c| std::mem::replace(&mut *c.borrow_mut(), prev)).unwrap();
        let meta = TxMeta {
            logs: ctx.logs,
            events: ctx.events,
            return_data: ctx.return_data,
            cpis: ctx.cpis,
            failed_ix,
        };
        match result {
            Ok(()) => {
                if commit {
                    for (k, a) in work {
                        if a.lamports == 0 {
                            self.accounts.remove(&k);
                        } else {
                            self.accounts.insert(k, a);
                        }
                    }
                    self.tx_ok += 1;
                }
                Ok(meta)
            }
            Err(e) => {
                if commit {
                    self.tx_err += 1;
                }
                Err((e, meta))
            }
        }
    }
}

/// `msg!` on the host is an unconditional `println!` (solana-msg), which cannot be intercepted by
/// the syscall stubs. Redirect fd 1 to /dev/null while programs run; dropping the guard restores it.
pub struct QuietStdout {
    saved: i32,
}

impl QuietStdout {
    pub fn new() -> Self {
        use std::io::Write;
        let _ = std::io::stdout().flush();
        unsafe {
            let saved = libc::dup(1);
            let devnull = libc::open(c"/dev/null".as_ptr(), libc::O_WRONLY);
            if devnull >= 0 {
                libc::dup2(devnull, 1);
                libc::close(devnull);
            }
            Self { saved }
        }
    }
}

impl Default for QuietStdout {
    fn default() -> Self {
        Self::new()
    }
}

impl Drop for QuietStdout {
    fn drop(&mut self) {
        use std::io::Write;
        let _ = std::io::stdout().flush();
        unsafe {
            if self.saved >= 0 {
                libc::dup2(self.saved, 1);
                libc::close(self.saved);
            }
        }
    }
}

/// Deterministic pseudo-keypair: a pubkey derived from a label (no private key needed, the runtime
/// only checks membership in the transaction's signer list).
pub fn key(label: &str) -> Pubkey {
    use solana_program::hash::hashv;
    Pubkey::new_from_array(hashv(&[b"hostsvm-key", label.as_bytes()]).to_bytes())
}
