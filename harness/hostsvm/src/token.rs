//! SPL helpers: program registration and direct state injection for mints / token accounts.

use crate::{Account, Svm};
use anchor_lang::solana_program::{account_info::AccountInfo, entrypoint::ProgramResult, program_option::COption, program_pack::Pack, pubkey::Pubkey};
use anchor_spl::{
    associated_token::spl_associated_token_account,
    token::spl_token,
    token_2022::spl_token_2022,
};

fn token_entry<'a>(p: &Pubkey, a: &'a [AccountInfo<'a>], d: &[u8]) -> ProgramResult {
    spl_token::processor::Processor::process(p, a, d)
}

fn token_2022_entry<'a>(p: &Pubkey, a: &'a [AccountInfo<'a>], d: &[u8]) -> ProgramResult {
    spl_token_2022::processor::Processor::process(p, a, d)
}

fn ata_entry<'a>(p: &Pubkey, a: &'a [AccountInfo<'a>], d: &[u8]) -> ProgramResult {
    spl_associated_token_account::processor::process_instruction(p, a, d)
}

/// Register the real SPL Token, Token-2022 and Associated-Token-Account processors.
pub fn add_spl_programs(svm: &mut Svm) {
    svm.add_program(spl_token::ID, token_entry);
    svm.add_program(spl_token_2022::ID, token_2022_entry);
    svm.add_program(spl_associated_token_account::ID, ata_entry);
}

/// Write a legacy-token mint directly.
pub fn set_mint(svm: &mut Svm, mint: Pubkey, authority: Option<Pubkey>, decimals: u8, supply: u64) {
    let m = spl_token::state::Mint {
        mint_authority: authority.map(COption::Some).unwrap_or(COption::None),
        supply,
        decimals,
        is_initialized: true,
        freeze_authority: COption::None,
    };
    let mut data = vec![0u8; spl_token::state::Mint::LEN];
    m.pack_into_slice(&mut data);
    let lamports = svm.rent.minimum_balance(data.len());
    svm.set_account(mint, Account::new(lamports, data, spl_token::ID));
}

/// Write a legacy-token account directly.
pub fn set_token_account(svm: &mut Svm, key: Pubkey, mint: Pubkey, owner: Pubkey, amount: u64) {
    let a = spl_token::state::Account {
        mint,
        owner,
        amount,
        delegate: COption::None,
        state: spl_token::state::AccountState::Initialized,
        is_native: COption::None,
        delegated_amount: 0,
        close_authority: COption::None,
    };
    let mut data = vec![0u8; spl_token::state::Account::LEN];
    a.pack_into_slice(&mut data);
    let lamports = svm.rent.minimum_balance(data.len());
    svm.set_account(key, Account::new(lamports, data, spl_token::ID));
}

pub fn ata(owner: &Pubkey, mint: &Pubkey) -> Pubkey {
    spl_associated_token_account::get_associated_token_address_with_program_id(owner, mint, &spl_token::ID)
}

/// Create (or top up) the owner's ATA for a legacy-token mint and mint `amount` into it, adjusting
/// the mint's supply so that the SPL invariants hold.
pub fn fund_ata(svm: &mut Svm, owner: &Pubkey, mint: &Pubkey, amount: u64) -> Pubkey {
    let k = ata(owner, mint);
    let existing = token_amount(svm, &k);
    set_token_account(svm, k, *mint, *owner, existing.unwrap_or(0) + amount);
    if let Some(acc) = svm.accounts.get_mut(mint) {
        if let Ok(mut m) = spl_token::state::Mint::unpack(&acc.data) {
            m.supply += amount;
            m.pack_into_slice(&mut acc.data);
        }
    }
    k
}

/// Token amount of a token account (legacy or 2022 base layout); `None` if missing / not a token account.
pub fn token_amount(svm: &Svm, key: &Pubkey) -> Option<u64> {
    let a = svm.get(key)?;
    if a.data.len() < spl_token::state::Account::LEN {
        return None;
    }
    spl_token::state::Account::unpack(&a.data[..spl_token::state::Account::LEN])
        .ok()
        .map(|a| a.amount)
}

pub fn token_account(svm: &Svm, key: &Pubkey) -> Option<spl_token::state::Account> {
    let a = svm.get(key)?;
    if a.data.len() < spl_token::state::Account::LEN {
        return None;
    }
    spl_token::state::Account::unpack(&a.data[..spl_token::state::Account::LEN]).ok()
}

pub fn mint_supply(svm: &Svm, mint: &Pubkey) -> Option<u64> {
    let a = svm.get(mint)?;
    if a.data.len() < spl_token::state::Mint::LEN {
        return None;
    }
    spl_token::state::Mint::unpack(&a.data[..spl_token::state::Mint::LEN])
        .ok()
        .map(|m| m.supply)
}
