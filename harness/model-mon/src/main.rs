//! Engine E1 `model-mon`: monitors over the real `gmsol-model` crate (C01–C14).
mod arith;
mod hist;
pub mod monmarket;

fn main() {
    let args = vcommon::Args::parse();
    let code = match args.id.as_str() {
        "C01" | "C02" | "C03" => arith::run(&args),
        "C04" | "C05" | "C06" | "C07" | "C08" | "C09" | "C10" | "C11" | "C12" | "C13" | "C14" => {
            hist::run(&args)
        }
        _ => None,
    };
    match code {
        Some(c) => std::process::exit(c),
        None => {
            eprintln!("model-mon: no monitor for {}", args.id);
            std::process::exit(2)
        }
    }
}
