// Included into `perp_world.rs` (via `perp_world_ops.rs`): invariants after every operation,
// operation generator, shard loop.

use gmsol_model::BorrowingFeeMarket;

impl World {
    // ----- invariants after every operation ---------------------------------------------------

    pub fn after_op(&mut self, cx: &mut Cx, site: &str) {
        self.market.events.clear();
        match cx.prop {
            Prop::C07 => self.check_c07(cx, site),
            Prop::C08 => self.check_c08(cx, site),
            Prop::C12 => self.check_c12_state(cx, site),
            Prop::C13 => self.check_c13(cx, site),
            _ => {}
        }
    }

    fn check_c07(&mut self, cx: &mut Cx, site: &str) {
        cx.m.eval();
        cx.count("c07_checks");
        let m = &self.market;
        let mut bad: Vec<Value> = vec![];
        for is_long in [true, false] {
            for coll_long in [true, false] {
                let (mut s_usd, mut s_tok, mut s_col) = (BigInt::zero(), BigInt::zero(), BigInt::zero());
                for (p, r) in self.positions.iter().zip(self.refs.iter()) {
                    if p.is_long == is_long && p.is_collateral_token_long == coll_long {
                        if let Some(r) = r {
                            s_usd += bi(r.size);
                            s_tok += bi(r.tokens);
                            s_col += bi(r.collateral);
                        }
                    }
                }
                let pick = |pools: &(MonPool<T>, MonPool<T>)| {
                    let p = if is_long { &pools.0 } else { &pools.1 };
                    if coll_long {
                        bi(p.long_amount)
                    } else {
                        bi(p.short_amount)
                    }
                };
                let got = [
                    ("open_interest_usd", pick(&m.open_interest), s_usd),
                    ("open_interest_in_tokens", pick(&m.open_interest_in_tokens), s_tok),
                    ("collateral_sum", pick(&m.collateral_sum), s_col),
                ];
                for (name, pool, sum) in got {
                    if pool != sum {
                        bad.push(json!({
                            "total": name, "is_long": is_long, "collateral_is_long_token": coll_long,
                            "pool": pool.to_string(), "sum_over_open_positions": sum.to_string(),
                        }));
                    }
                }
            }
        }
        if !bad.is_empty() {
            let cls = bad[0]["total"].as_str().unwrap_or("total").to_string();
            let w = self.witness(json!({"after": site, "mismatches": bad}));
            cx.violation(&format!("C07:totals:{cls}_differs_from_positions"), || w);
        }
    }

    fn pending_funding_sums(&self) -> Option<([BigInt; 2], [BigInt; 2])> {
        let mut pp = [BigInt::zero(), BigInt::zero()];
        let mut pc = [BigInt::zero(), BigInt::zero()];
        for p in &self.positions {
            if p.size_in_usd == 0 {
                continue;
            }
            pp[tok(p.is_collateral_token_long)] += oracle::pending_funding_amount(&self.market, p)?;
            pc[0] += oracle::pending_claimable_amount(&self.market, p, true)?;
            pc[1] += oracle::pending_claimable_amount(&self.market, p, false)?;
        }
        Some((pp, pc))
    }

    fn check_c08(&mut self, cx: &mut Cx, site: &str) {
        cx.m.eval();
        cx.count("c08_checks");
        let pend = self.pending_funding_sums();
        for tk in 0..2usize {
            let h = self.holdings(tk == 0);
            let resid = &self.ledger.vault[tk] - &h;
            let f = &self.ledger.fund[tk];
            if resid != *f {
                let w = self.witness(json!({
                    "after": site, "token": if tk == 0 { "long" } else { "short" },
                    "shadow_vault": self.ledger.vault[tk].to_string(),
                    "accounted_holdings": h.to_string(),
                    "vault_minus_holdings": resid.to_string(),
                    "funding_collected_minus_claimed": f.to_string(),
                }));
                // Known class: a fee cost that cannot be paid from output/collateral is converted into
                // secondary-output tokens with floor rounding; when that rounds to zero the cost counts
                // as paid and the fee amounts are still credited to the pool / claimable-fee pool.
                // Tight bound for the class: the unbacked credit is at most the reported fee cost and is
                // worth less than one base unit of the secondary (pnl) token.
                let excess = -(&resid - f); // holdings above what the flows explain
                let mut sig = "C08:ledger:holdings_change_differs_from_reported_flows";
                if let Some((coll_long, tokens_differ, fee_cost)) = &self.last_dec {
                    let cp = self.collateral_price(*coll_long).min;
                    let sp = self.collateral_price(!*coll_long).min;
                    if tok(*coll_long) == tk
                        && *tokens_differ
                        && excess.is_positive()
                        && excess <= *fee_cost
                        && &excess * bi(cp) < bi(sp)
                    {
                        sig = "C08:ledger:fee_credited_although_cost_rounded_to_zero_in_secondary_token";
                        cx.count("c08_fee_credit_without_payment");
                    }
                }
                cx.violation(sig, || w);
                // resynchronise so that one leak is reported once per history, not per step
                self.ledger.vault[tk] = &h + f;
                continue;
            }
            let lit = f + &self.ledger.shortfall[tk];
            if lit.is_negative() {
                cx.count("c08_literal_residual_negative");
                let tight = pend.as_ref().map(|(pp, pc)| &lit + &pp[tk] - &pc[tk]);
                let covered = matches!(&tight, Some(x) if !x.is_negative());
                let sig = if covered {
                    "C08:funding_residual:claimed_before_payer_settled"
                } else {
                    "C08:funding_residual:claimable_funding_unbacked"
                };
                let w = self.witness(json!({
                    "after": site, "token": if tk == 0 { "long" } else { "short" },
                    "funding_collected_minus_claimed": f.to_string(),
                    "reported_shortfalls": self.ledger.shortfall[tk].to_string(),
                    "pending_payer_fees_of_open_positions": pend.as_ref().map(|x| x.0[tk].to_string()),
                    "pending_claimable_of_open_positions": pend.as_ref().map(|x| x.1[tk].to_string()),
                    "tight_residual": tight.as_ref().map(|x| x.to_string()),
                }));
                cx.violation(sig, || w);
            } else if let Some((pp, pc)) = &pend {
                // the tight bound must hold regardless
                let tight = &lit + &pp[tk] - &pc[tk];
                if tight.is_negative() {
                    let w = self.witness(json!({
                        "after": site, "token": if tk == 0 { "long" } else { "short" },
                        "tight_residual": tight.to_string(),
                    }));
                    cx.violation("C08:funding_residual:claimable_funding_unbacked", || w);
                }
            }
        }
    }

    fn index_vector(&self) -> [T; 8] {
        let m = &self.market;
        [
            m.funding_amount_per_size.0.long_amount,
            m.funding_amount_per_size.0.short_amount,
            m.funding_amount_per_size.1.long_amount,
            m.funding_amount_per_size.1.short_amount,
            m.claimable_funding_amount_per_size.0.long_amount,
            m.claimable_funding_amount_per_size.0.short_amount,
            m.claimable_funding_amount_per_size.1.long_amount,
            m.claimable_funding_amount_per_size.1.short_amount,
        ]
    }

    fn check_c12_state(&mut self, cx: &mut Cx, site: &str) {
        cx.m.eval();
        cx.count("c12_index_checks");
        let now = self.index_vector();
        for k in 0..8 {
            if now[k] < self.prev_idx[k] {
                let w = self.witness(json!({
                    "after": site, "index": k, "before": self.prev_idx[k].to_string(),
                    "after_value": now[k].to_string(),
                    "index_names": "0-3 funding_amount_per_size (long side: long/short collateral, short side: ..), 4-7 claimable",
                }));
                cx.violation("C12:indices:funding_index_decreased", || w);
            } else if now[k] > self.prev_idx[k] {
                cx.count("c12_index_increased");
            }
        }
        self.prev_idx = now;
        for i in self.open_indices() {
            cx.count("c12_pending_fee_checks");
            let mut p = self.positions[i];
            let mut mm = self.market.clone();
            let r = guard(|| p.ops(&mut mm).pending_funding_fees());
            let ok = matches!(&r, Ok(Ok(_)));
            if let Ok(Ok(f)) = &r {
                // the payer amount must equal the exact rounded-up recomputation
                if let Some(exp) = oracle::pending_funding_amount(&self.market, &p) {
                    if bi(*f.amount()) != exp {
                        let w = self.witness(json!({"after": site, "position": i,
                            "real": f.amount().to_string(), "recomputed": exp.to_string()}));
                        cx.violation("C12:pending_funding_fees:differs_from_recomputation", || w);
                    }
                }
                if *f.amount() != 0 {
                    cx.count("c12_pending_fee_nonzero");
                }
            }
            if !ok {
                let exp = oracle::pending_funding_amount(&self.market, &p);
                // an error is only acceptable when the exact value does not fit the integer type
                let fits = exp.as_ref().map(|e| *e <= bi(T::MAX)).unwrap_or(false);
                if exp.is_none() || fits {
                    let w = self.witness(json!({"after": site, "position": i,
                        "result": format!("{r:?}"), "recomputed": exp.map(|e| e.to_string())}));
                    cx.violation("C12:pending_funding_fees:fails_or_negative", || w);
                } else {
                    cx.count("c12_pending_fee_overflow");
                }
            }
        }
    }

    fn check_c13(&mut self, cx: &mut Cx, site: &str) {
        cx.m.eval();
        cx.count("c13_checks");
        let now = [
            self.market.borrowing_factor.long_amount,
            self.market.borrowing_factor.short_amount,
        ];
        for k in 0..2 {
            if now[k] < self.prev_bf[k] {
                let w = self.witness(json!({"after": site, "side_long": k == 0,
                    "before": self.prev_bf[k].to_string(), "after_value": now[k].to_string()}));
                cx.violation("C13:cumulative_borrowing_factor:decreased", || w);
            } else if now[k] > self.prev_bf[k] {
                cx.count("c13_factor_increased");
            }
        }
        self.prev_bf = now;
        let prices = self.prices;
        for is_long in [true, false] {
            let mut exp = BigInt::zero();
            let mut n_open = 0u64;
            for (p, r) in self.positions.iter().zip(self.refs.iter()) {
                if p.is_long == is_long {
                    if let Some(r) = r {
                        exp += oracle::apply_factor(&bi(r.size), &bi(r.bf));
                        n_open += 1;
                    }
                }
            }
            let total = if is_long {
                bi(self.market.total_borrowing.long_amount)
            } else {
                bi(self.market.total_borrowing.short_amount)
            };
            if total != exp {
                let diff = (&total - &exp).abs();
                let sig = if diff <= BigInt::from(n_open) {
                    "C13:total_borrowing:differs_within_per_position_rounding"
                } else {
                    "C13:total_borrowing:differs_from_sum_over_positions"
                };
                if diff <= BigInt::from(n_open) {
                    // Stated tolerance of the property: count, do not report.
                    cx.count("c13_total_borrowing_off_within_tolerance");
                    let _ = sig;
                } else {
                    let w = self.witness(json!({"after": site, "side_long": is_long,
                        "total_borrowing": total.to_string(), "sum_over_positions": exp.to_string()}));
                    cx.violation(sig, || w);
                }
            } else if n_open > 0 {
                cx.count("c13_total_borrowing_exact_nonempty");
                cx.nontrivial(format!("{TAG}|{is_long}|{total}").as_bytes());
            }
            // pending borrowing fees
            let m = &self.market;
            let dur = match m.passed_in_seconds_for_borrowing() {
                Ok(d) => d,
                Err(_) => continue,
            };
            let mm = m.clone();
            let next = guard(|| mm.next_cumulative_borrowing_factor(is_long, &prices, dur));
            let mm2 = m.clone();
            let real = guard(|| mm2.total_pending_borrowing_fees(&prices, is_long));
            // Kink model: the rate is recomputed exactly; a differing delta or a failure where every
            // intermediate result is representable is reported ("never fail to compute").
            if let Some((rate, fits)) = oracle::kink_borrowing_rate(m, is_long, &prices) {
                let cur = if is_long { bi(m.borrowing_factor.long_amount) } else { bi(m.borrowing_factor.short_amount) };
                let delta = &rate * BigInt::from(dur);
                let representable = fits && delta <= bi(T::MAX) && &cur + &delta <= bi(T::MAX);
                match &next {
                    Ok(Ok((_, d))) => {
                        if bi(*d) != delta {
                            let w = self.witness(json!({"after": site, "side_long": is_long, "duration": dur,
                                "real_delta": d.to_string(), "recomputed_rate": rate.to_string(), "recomputed_delta": delta.to_string()}));
                            cx.violation("C13:kink_model:factor_delta_differs_from_recomputation", || w);
                        } else {
                            cx.count("c13_kink_rate_exact");
                            if !rate.is_zero() {
                                cx.count("c13_kink_rate_exact_nonzero");
                            }
                        }
                    }
                    Ok(Err(e)) if representable => {
                        let w = self.witness(json!({"after": site, "side_long": is_long, "duration": dur,
                            "error": format!("{e:?}"), "recomputed_rate": rate.to_string(), "recomputed_delta": delta.to_string()}));
                        cx.violation("C13:kink_model:rate_fails_although_computable", || w);
                    }
                    Err(_) if representable => {
                        let w = self.witness(json!({"after": site, "side_long": is_long, "duration": dur,
                            "error": "panic", "recomputed_rate": rate.to_string()}));
                        cx.violation("C13:kink_model:rate_fails_although_computable", || w);
                    }
                    _ => cx.count("c13_kink_rate_not_representable"),
                }
            }
            match next {
                Ok(Ok((next, _))) => {
                    let oi = oracle::oi_usd(m, is_long);
                    let pending = oracle::apply_factor(&oi, &bi(next)) - &total;
                    if pending.is_negative() {
                        let w = self.witness(json!({"after": site, "side_long": is_long,
                            "open_interest": oi.to_string(), "next_cumulative_factor": next.to_string(),
                            "total_borrowing": total.to_string(), "pending": pending.to_string(),
                            "real_result": format!("{real:?}")}));
                        cx.violation("C13:total_pending_borrowing_fees:negative", || w);
                    } else {
                        match &real {
                            Ok(Ok(v)) if bi(*v) == pending => {
                                cx.count(if self.info.kink {
                                    "c13_pending_ok_kink"
                                } else {
                                    "c13_pending_ok_power"
                                });
                                if !pending.is_zero() {
                                    cx.count("c13_pending_nonzero");
                                }
                            }
                            Ok(Ok(v)) => {
                                let w = self.witness(json!({"after": site, "side_long": is_long,
                                    "real": v.to_string(), "recomputed": pending.to_string()}));
                                cx.violation("C13:total_pending_borrowing_fees:differs_from_recomputation", || w);
                            }
                            _ => {
                                if pending <= bi(T::MAX) && oracle::apply_factor(&oi, &bi(next)) <= bi(T::MAX) {
                                    let w = self.witness(json!({"after": site, "side_long": is_long,
                                        "real": format!("{real:?}"), "recomputed": pending.to_string()}));
                                    cx.violation("C13:total_pending_borrowing_fees:fails_although_computable", || w);
                                } else {
                                    cx.count("c13_pending_overflow");
                                }
                            }
                        }
                    }
                }
                Ok(Err(e)) => cx.count(&format!("c13_rate_error_{}", err_class(&e))),
                Err(_) => cx.count("c13_rate_panic"),
            }
        }
    }

    // ----- operation generator ----------------------------------------------------------------

    fn collateral_price(&self, long_token: bool) -> Price<T> {
        if long_token {
            self.prices.long_token_price
        } else {
            self.prices.short_token_price
        }
    }

    fn gen_size(&self, rng: &mut Rng) -> T {
        let hi = u(usd(self.pool_usd / 4 + 1));
        let idx = u(self.prices.index_token_price.max);
        let min_size = u(*self.market.config.position_params.min_position_size_usd());
        match rng.below(10) {
            // a few index tokens' worth (token sizes that round to 0 / to all)
            0 | 1 => {
                let k_min = (min_size / idx.max(1)).saturating_add(1);
                t(idx
                    .saturating_mul(k_min.saturating_add(rng.range_u128(0, 5)))
                    .saturating_add(rng.below_u128(idx / 2 + 2)))
            }
            2 => t(rng.below_u128(3 * idx + 3)),
            _ => t(min_size.max(u(UNIT)) + rng.log_u128(hi)),
        }
    }

    fn gen_increase(&mut self, rng: &mut Rng, cx: &mut Cx) {
        let empty: Vec<usize> = (0..self.positions.len())
            .filter(|i| self.positions[*i].size_in_usd == 0)
            .collect();
        let i = if !empty.is_empty() && rng.chance(2, 3) {
            *rng.pick(&empty)
        } else {
            rng.below(self.positions.len() as u64) as usize
        };
        let p = self.positions[i];
        let cp = self.collateral_price(p.is_collateral_token_long);
        let mode = rng.weighted(&[80, 6, 8, 6]);
        let size = match mode {
            2 => 0,
            _ => self.gen_size(rng),
        };
        let lev = 1 + rng.log_u128(60);
        let min_cv = u(*self.market.config.position_params.min_collateral_value());
        let coll_value = match mode {
            1 => 0,
            2 => u(UNIT) / 2 + rng.log_u128(u(usd(self.pool_usd / 50 + 1))),
            3 => u(size) / 200, // beyond max leverage
            _ => {
                let v = u(size) / lev;
                if p.size_in_usd == 0 && rng.chance(9, 10) {
                    // opening: respect the min collateral value most of the time
                    v.max(min_cv + min_cv / 4 * rng.range_u128(1, 8) + u(size) / 500)
                } else {
                    v
                }
            }
        };
        let collateral = t(coll_value / u(cp.min).max(1) + rng.below_u128(2));
        let acceptable = if rng.chance(1, 14) {
            let ip = u(self.prices.index_token_price.max);
            Some(t(ip - ip / 100 + rng.below_u128(ip / 50 + 1)))
        } else {
            None
        };
        self.op_increase(cx, i, collateral, size, acceptable);
    }

    fn pick_open(&self, rng: &mut Rng, prefer_open_pct: u64) -> usize {
        let open = self.open_indices();
        if !open.is_empty() && rng.chance(prefer_open_pct, 100) {
            *rng.pick(&open)
        } else {
            rng.below(self.positions.len() as u64) as usize
        }
    }

    fn gen_decrease(&mut self, rng: &mut Rng, cx: &mut Cx) {
        let i = self.pick_open(rng, 93);
        let p = self.positions[i];
        let size = u(p.size_in_usd);
        let idx = u(self.prices.index_token_price.max);
        let kinds = ["partial", "full", "collateral_only", "capped", "oversize", "near_full", "tiny"];
        let k = rng.weighted(&[40, 9, 14, 7, 3, 14, 13]);
        let mut a = DecArgs::plain(0, 0);
        match k {
            0 => a.size_delta = t(size / 1000 * rng.range_u128(1, 999) + rng.below_u128(1000).min(size)),
            1 => a.size_delta = t(size),
            2 => a.size_delta = 0,
            3 => {
                a.cap = true;
                a.size_delta = if rng.chance(3, 4) {
                    t(size.saturating_add(1 + rng.log_u128(size + 1)))
                } else {
                    t(rng.below_u128(size + 1))
                };
            }
            4 => a.size_delta = t(size.saturating_add(1 + rng.log_u128(size + 1))),
            5 => {
                let d = match rng.below(4) {
                    0 => 1,
                    1 => 2,
                    2 => rng.below_u128(u(usd(2)) + 1),
                    _ => rng.below_u128(size / 50 + 2),
                };
                a.size_delta = t(size.saturating_sub(d.min(size)));
            }
            _ => {
                a.size_delta = t(match rng.below(4) {
                    0 => 1,
                    1 => 2,
                    2 => idx / 2 + 1,
                    _ => rng.below_u128(idx + 2),
                }
                .min(size));
            }
        }
        let coll = u(p.collateral_token_amount);
        a.withdraw = if k == 2 {
            t(coll / 100 * rng.range_u128(1, 120) + rng.below_u128(3))
        } else if rng.chance(3, 10) {
            t(coll / 100 * rng.range_u128(0, 110))
        } else {
            0
        };
        a.swap = rng.weighted(&[70, 15, 15]) as u8;
        if rng.chance(1, 25) {
            a.insolvent = true; // masked by the model unless the close is full
        }
        if rng.chance(1, 14) {
            let ip = u(self.prices.index_token_price.min);
            a.acceptable = Some(t(ip - ip / 100 + rng.below_u128(ip / 50 + 1)));
        }
        self.op_decrease(cx, i, &a, kinds[k]);
    }

    fn liquidatable_indices(&self) -> Vec<usize> {
        self.open_indices()
            .into_iter()
            .filter(|i| {
                matches!(
                    real_health(&self.market, &self.positions[*i], &self.prices, true, true),
                    Ok(h) if h.liquidatable()
                )
            })
            .collect()
    }

    fn gen_liquidation(&mut self, rng: &mut Rng, cx: &mut Cx) {
        let liq = self.liquidatable_indices();
        let i = if !liq.is_empty() && rng.chance(3, 4) {
            *rng.pick(&liq)
        } else {
            self.pick_open(rng, 95)
        };
        let p = self.positions[i];
        let mut a = DecArgs::plain(p.size_in_usd, 0);
        a.liquidation = true;
        a.insolvent = true;
        a.swap = rng.weighted(&[80, 10, 10]) as u8;
        if rng.chance(1, 12) {
            // the program requires size_delta >= size; the model rejects > size without the cap flag
            a.size_delta = p.size_in_usd.saturating_add(1);
        }
        cx.count("liquidation_attempts");
        self.op_decrease(cx, i, &a, "liquidation");
    }

    fn gen_insolvent_close(&mut self, rng: &mut Rng, cx: &mut Cx) {
        let liq = self.liquidatable_indices();
        let i = if !liq.is_empty() && rng.chance(2, 3) {
            *rng.pick(&liq)
        } else {
            self.pick_open(rng, 95)
        };
        let p = self.positions[i];
        let mut a = DecArgs::plain(p.size_in_usd, 0);
        a.insolvent = true;
        a.swap = rng.weighted(&[80, 10, 10]) as u8;
        self.op_decrease(cx, i, &a, "insolvent_close");
    }

    fn gen_move_price(&mut self, rng: &mut Rng) {
        let open = self.open_indices();
        let pct_milli: u128 = match rng.below(10) {
            0 => rng.range_u128(100, 400),
            1 | 2 => rng.range_u128(20, 100),
            _ => rng.range_u128(0, 20),
        };
        let mut up = rng.bool();
        if !open.is_empty() && rng.chance(3, 10) {
            // adverse to a random open position
            up = !self.positions[*rng.pick(&open)].is_long;
        }
        let f = |up: bool, x: u128, lo: u128, hi: u128| {
            let d = x / 1000 * pct_milli + (x % 1000) * pct_milli / 1000;
            let y = if up { x.saturating_add(d) } else { x.saturating_sub(d) };
            y.clamp(lo.max(1), hi.max(1))
        };
        let b0 = self.base0;
        self.base.index = f(up, self.base.index, b0.index / 8, b0.index.saturating_mul(8));
        if self.base.long_is_index {
            self.base.long = self.base.index;
        } else if rng.chance(1, 3) {
            up = rng.bool();
            self.base.long = f(up, self.base.long, b0.long / 8, b0.long.saturating_mul(8));
        }
        if rng.chance(1, 20) {
            // small de-peg of the short token
            let s = self.base.short;
            self.base.short = (s - s / 200 + rng.below_u128(s / 100 + 1)).max(1);
        }
        self.prices = prices_from(rng, &self.base);
    }

    pub fn step(&mut self, rng: &mut Rng, cx: &mut Cx) {
        self.step += 1;
        self.last_dec = None;
        self.last_report = None;
        let w_probe: u32 = match cx.prop {
            Prop::C09 => 8,
            Prop::C10 => 14,
            Prop::C11 => 14,
            Prop::C12 => 6,
            _ => 0,
        };
        let n_open = self.open_indices().len();
        let (w_inc, w_dec, w_liq, w_ins): (u32, u32, u32, u32) = match n_open {
            0 => (40, 2, 1, 1),
            1 => (32, 14, 3, 1),
            _ => (22, 24, 6, 2),
        };
        let op = rng.weighted(&[w_inc, w_dec, w_liq, w_ins, 3, 3, 6, 10, 10, 4, 3, w_probe]);
        let is_pos_op = op <= 3;
        if is_pos_op && rng.chance(85, 100) && !self.op_update_fees(cx, rng) {
            // as in the program: the whole instruction fails when the fee-state update fails
            self.after_op(cx, "update_fees_failed");
            return;
        }
        let site: &str = match op {
            0 => {
                self.gen_increase(rng, cx);
                "increase"
            }
            1 => {
                self.gen_decrease(rng, cx);
                "decrease"
            }
            2 => {
                self.gen_liquidation(rng, cx);
                "liquidation"
            }
            3 => {
                self.gen_insolvent_close(rng, cx);
                "insolvent_close"
            }
            4 => {
                let usd_v = u(UNIT) + rng.log_u128(u(usd(self.pool_usd / 2 + 1)));
                let long = rng.bool();
                let both = rng.chance(1, 4);
                let la = if long || both {
                    amount_for_usd(usd_v, self.prices.long_token_price.max)
                } else {
                    0
                };
                let sa = if !long || both {
                    amount_for_usd(usd_v, self.prices.short_token_price.max)
                } else {
                    0
                };
                self.op_deposit(cx, la, sa);
                "deposit"
            }
            5 => {
                let amt = t(rng.log_u128(u(self.lp_tokens)));
                self.op_withdraw(cx, amt);
                "withdraw"
            }
            6 => {
                let long_in = rng.bool();
                let usd_v = u(UNIT) / 10 + rng.log_u128(u(usd(self.pool_usd / 5 + 1)));
                let price = self.collateral_price(long_in).max;
                self.op_swap(cx, long_in, amount_for_usd(usd_v, price));
                "swap"
            }
            7 => {
                let secs = match rng.weighted(&[5, 30, 30, 25, 10]) {
                    0 => 0,
                    1 => rng.range(1, 60),
                    2 => rng.range(60, 3600),
                    3 => rng.range(3600, 86_400),
                    _ => rng.range(86_400, 30 * 86_400),
                };
                self.last_op = json!({"op": "advance_clock", "secs": secs});
                self.market.advance(secs);
                cx.count("op_advance_clock");
                "advance_clock"
            }
            8 => {
                self.gen_move_price(rng);
                self.last_op = json!({"op": "move_price"});
                cx.count("op_move_price");
                "move_price"
            }
            9 => {
                self.last_op = json!({"op": "update_fees"});
                self.op_update_fees(cx, rng);
                "update_fees"
            }
            10 => {
                self.last_op = json!({"op": "single_fee_action"});
                self.op_single_fee_action(cx, rng);
                "single_fee_action"
            }
            _ => {
                match cx.prop {
                    Prop::C09 => probe::c09_boundary(self, cx, rng),
                    Prop::C10 => probe::c10_roundtrip(self, cx, rng),
                    Prop::C11 => probe::c11_probe(self, cx, rng),
                    Prop::C12 => probe::c12_direct(self, cx, rng),
                    _ => {}
                }
                "probe"
            }
        };
        self.after_op(cx, site);
    }
}

pub fn run_shard(prop: Prop, seed: u64, shard: u64, worlds: u64, steps: u64, m: &mut Monitor) {
    let mut cx = Cx::new(m, prop, seed, shard);
    for w in 0..worlds {
        let mut rng = Rng::derive(seed, shard, w + 1);
        let Some(mut world) = World::new(&mut rng, w, &mut cx) else {
            continue;
        };
        cx.count(if is_wide() { "worlds_u128" } else { "worlds_u64" });
        cx.count(&format!("config_{}", world.info.class));
        if world.info.adaptive_funding {
            cx.count("config_adaptive_funding");
        }
        if world.info.kink {
            cx.count("config_kink_borrowing");
        }
        if world.info.vi_positions {
            cx.count("config_virtual_inventory_positions");
        }
        if world.info.impact_cap_asymmetry {
            cx.count("config_impact_cap_positive_gt_negative");
        }
        for _ in 0..steps {
            world.step(&mut rng, &mut cx);
        }
        let open = world.open_indices().len() as u64;
        cx.m.max("max_open_positions_at_end", open);
    }
}
