//! Independent exact (BigInt) oracles for the perpetual part of the model.
//!
//! Everything here is recomputed from the *state* (public fields of `MonMarket` / `MonPosition`),
//! the configuration and the prices; no function of the code under test is called, with one stated
//! exception: the price-impact *value* (fixed-point power) used by the liquidation check is an
//! input obtained from the real `position_price_impact` (its arithmetic is C03's subject).
#![allow(dead_code)]

use super::world::{bi, bs, Mkt, Pos, UNIT};
use super::T;
use gmsol_model::{pool::delta::BalanceChange, price::Prices};
use vcommon::{
    big::{div_ceil, div_floor, div_trunc},
    num_bigint::BigInt,
    num_traits::{Signed as _, Zero},
};

pub fn unit() -> BigInt {
    bi(UNIT)
}

/// `floor(value * factor / UNIT)` (the model's `apply_factor`).
pub fn apply_factor(value: &BigInt, factor: &BigInt) -> BigInt {
    div_floor(&(value * factor), &unit())
}

/// `trunc(a * num / den)` with signed numerator (the model's `checked_mul_div_with_signed_numerator`).
pub fn mul_div_signed(a: &BigInt, num: &BigInt, den: &BigInt) -> BigInt {
    div_trunc(&(a * num), den)
}

#[derive(Debug, Clone)]
pub struct PnlOut {
    /// Capped pnl for the size delta.
    pub pnl: BigInt,
    /// Uncapped pnl for the size delta.
    pub uncapped: BigInt,
    /// Size delta in tokens.
    pub dtok: BigInt,
    /// Total (capped) pnl of the whole position.
    pub total: BigInt,
    /// Total uncapped pnl of the whole position.
    pub total_uncapped: BigInt,
    /// Whether the trader cap changed the total pnl.
    pub cap_binding: bool,
}

pub fn oi_usd(m: &Mkt, is_long: bool) -> BigInt {
    let p = if is_long {
        &m.open_interest.0
    } else {
        &m.open_interest.1
    };
    bi(p.long_amount) + bi(p.short_amount)
}

pub fn oi_tokens(m: &Mkt, is_long: bool) -> BigInt {
    let p = if is_long {
        &m.open_interest_in_tokens.0
    } else {
        &m.open_interest_in_tokens.1
    };
    bi(p.long_amount) + bi(p.short_amount)
}

/// Size delta in tokens for a decrease by `size_delta` (long: ceil, short: floor, all: all).
pub fn size_delta_in_tokens(p: &Pos, size_delta: &BigInt) -> Option<BigInt> {
    let size = bi(p.size_in_usd);
    let tokens = bi(p.size_in_tokens);
    if *size_delta == size {
        return Some(tokens);
    }
    if size.is_zero() {
        return None;
    }
    Some(if p.is_long {
        div_ceil(&(&tokens * size_delta), &size)
    } else {
        div_floor(&(&tokens * size_delta), &size)
    })
}

/// Exact re-statement of `PositionExt::pnl_value`.
pub fn pnl_value(m: &Mkt, p: &Pos, prices: &Prices<T>, size_delta: &BigInt) -> Option<PnlOut> {
    let size = bi(p.size_in_usd);
    let tokens = bi(p.size_in_tokens);
    if tokens.is_zero() {
        return None;
    }
    // pick_price_for_pnl(is_long, maximize = false): long -> min, short -> max
    let exec = if p.is_long {
        bi(prices.index_token_price.min)
    } else {
        bi(prices.index_token_price.max)
    };
    let value = &tokens * &exec;
    let total_uncapped = if p.is_long {
        &value - &size
    } else {
        &size - &value
    };
    let mut total = total_uncapped.clone();
    let mut cap_binding = false;
    if total.is_positive() {
        let pool_value = if p.is_long {
            bi(m.primary.long_amount) * bi(prices.long_token_price.min)
        } else {
            bi(m.primary.short_amount) * bi(prices.short_token_price.min)
        };
        // market.pnl(index, is_long, maximize = true): long -> max, short -> min
        let oi = oi_usd(m, p.is_long);
        let oit = oi_tokens(m, p.is_long);
        let pool_pnl = if oi.is_zero() && oit.is_zero() {
            BigInt::zero()
        } else {
            let price = if p.is_long {
                bi(prices.index_token_price.max)
            } else {
                bi(prices.index_token_price.min)
            };
            let v = &oit * &price;
            if p.is_long {
                &v - &oi
            } else {
                &oi - &v
            }
        };
        let capped_pool_pnl = if pool_pnl.is_positive() {
            let max_pnl = apply_factor(&pool_value, &bi(m.config.max_pnl_factors.trader));
            if pool_pnl > max_pnl {
                max_pnl
            } else {
                pool_pnl.clone()
            }
        } else {
            pool_pnl.clone()
        };
        if capped_pool_pnl != pool_pnl && !capped_pool_pnl.is_negative() && pool_pnl.is_positive()
        {
            total = mul_div_signed(&capped_pool_pnl, &total, &pool_pnl);
            cap_binding = true;
        }
    }
    let dtok = size_delta_in_tokens(p, size_delta)?;
    let pnl = mul_div_signed(&dtok, &total, &tokens);
    let uncapped = mul_div_signed(&dtok, &total_uncapped, &tokens);
    Some(PnlOut {
        pnl,
        uncapped,
        dtok,
        total,
        total_uncapped,
        cap_binding,
    })
}

#[derive(Debug, Clone, Copy, PartialEq, Eq)]
pub enum Health {
    Sufficient,
    /// remaining collateral value <= 0 (reason "NotPositive")
    NotPositive,
    /// below min collateral value (reason "MinCollateral")
    MinCollateral,
    /// below size * min collateral factor (reason "MinCollateralForLeverage")
    MinCollateralForLeverage,
}

impl Health {
    pub fn liquidatable(&self) -> bool {
        !matches!(self, Health::Sufficient)
    }
    pub fn name(&self) -> &'static str {
        match self {
            Health::Sufficient => "sufficient",
            Health::NotPositive => "not_positive",
            Health::MinCollateral => "min_collateral",
            Health::MinCollateralForLeverage => "min_collateral_for_leverage",
        }
    }
}

#[derive(Debug, Clone)]
pub struct HealthOut {
    pub health: Health,
    pub remaining: BigInt,
    pub pnl: BigInt,
    pub cost_value: BigInt,
    pub impact: BigInt,
}

/// Pending funding fee amount of a position (payer side, rounded up); `None` if the index went backwards.
pub fn pending_funding_amount(m: &Mkt, p: &Pos) -> Option<BigInt> {
    let pool = if p.is_long {
        &m.funding_amount_per_size.0
    } else {
        &m.funding_amount_per_size.1
    };
    let latest = if p.is_collateral_token_long {
        bi(pool.long_amount)
    } else {
        bi(pool.short_amount)
    };
    let diff = latest - bi(p.funding_fee_amount_per_size);
    if diff.is_negative() {
        return None;
    }
    let adj = bi(m.funding_amount_per_size_adjustment) * unit();
    Some(div_ceil(&(bi(p.size_in_usd) * diff), &adj))
}

/// Pending claimable funding amount (receiver side, rounded down) in the given token.
pub fn pending_claimable_amount(m: &Mkt, p: &Pos, long_token: bool) -> Option<BigInt> {
    let pool = if p.is_long {
        &m.claimable_funding_amount_per_size.0
    } else {
        &m.claimable_funding_amount_per_size.1
    };
    let (latest, mine) = if long_token {
        (
            bi(pool.long_amount),
            bi(p.claimable_funding_fee_amount_per_size.0),
        )
    } else {
        (
            bi(pool.short_amount),
            bi(p.claimable_funding_fee_amount_per_size.1),
        )
    };
    let diff = latest - mine;
    if diff.is_negative() {
        return None;
    }
    let adj = bi(m.funding_amount_per_size_adjustment) * unit();
    Some(div_floor(&(bi(p.size_in_usd) * diff), &adj))
}

/// Exact re-statement of `PositionExt::check_liquidatable`.
///
/// `impact_value` / `balance_change`: result of the real `position_price_impact(-size, true)`.
pub fn check_liquidatable(
    m: &Mkt,
    p: &Pos,
    prices: &Prices<T>,
    validate_min_collateral_usd: bool,
    for_liquidation: bool,
    impact_value: &BigInt,
    balance_change: BalanceChange,
) -> Option<HealthOut> {
    let size = bi(p.size_in_usd);
    let pnl = pnl_value(m, p, prices, &size)?.pnl;
    let cprice = if p.is_collateral_token_long {
        bi(prices.long_token_price.min)
    } else {
        bi(prices.short_token_price.min)
    };
    if cprice.is_zero() {
        return None;
    }
    let collateral_value = bi(p.collateral_token_amount) * &cprice;
    let pp = &m.config.position_params;

    // price impact: only the negative part counts, capped by the liquidation factor
    let impact = if impact_value.is_negative() {
        let min_impact = -apply_factor(&size, &bi(*pp.max_position_impact_factor_for_liquidations()));
        if *impact_value < min_impact {
            min_impact
        } else {
            impact_value.clone()
        }
    } else {
        BigInt::zero()
    };

    // fees (no liquidation fee for the check)
    let fee_factor = match balance_change {
        BalanceChange::Improved => positive_fee_factor(m),
        _ => negative_fee_factor(m),
    };
    let order_fee_value = apply_factor(&size, &fee_factor);
    let order_fee_amount = div_floor(&order_fee_value, &cprice);
    let cum = if p.is_long {
        bi(m.borrowing_factor.long_amount)
    } else {
        bi(m.borrowing_factor.short_amount)
    };
    let dfac = cum - bi(p.borrowing_factor);
    if dfac.is_negative() {
        return None;
    }
    let borrowing_value = apply_factor(&size, &dfac);
    let borrowing_amount = div_floor(&borrowing_value, &cprice);
    let funding_amount = pending_funding_amount(m, p)?;
    let total_cost = order_fee_amount + borrowing_amount + funding_amount;
    let cost_value = total_cost * &cprice;

    let remaining = &collateral_value + &pnl + &impact - &cost_value;

    let factor = if for_liquidation {
        bi(*pp.min_collateral_factor_for_liquidation())
    } else {
        bi(*pp.min_collateral_factor())
    };
    let health = if remaining.is_negative() {
        if validate_min_collateral_usd {
            Health::MinCollateral
        } else {
            Health::NotPositive
        }
    } else if validate_min_collateral_usd && remaining < bi(*pp.min_collateral_value()) {
        Health::MinCollateral
    } else if remaining.is_zero() {
        Health::NotPositive
    } else if remaining < apply_factor(&size, &factor) {
        Health::MinCollateralForLeverage
    } else {
        Health::Sufficient
    };
    Some(HealthOut {
        health,
        remaining,
        pnl,
        cost_value,
        impact,
    })
}

// `FeeParams` keeps its factors private; the driver records what it configured.
fn positive_fee_factor(m: &Mkt) -> BigInt {
    super::world::order_fee_factors(m).0
}
fn negative_fee_factor(m: &Mkt) -> BigInt {
    super::world::order_fee_factors(m).1
}

/// `x^k` in the model's fixed point (`Fixed::checked_pow` for whole exponents: repeated floor(a*b/UNIT)),
/// with the model's convention `x < 1.0 -> 0`, `x == 1.0 -> 1.0`.
pub fn pow_fixed_whole(x: &BigInt, k: u32) -> BigInt {
    let u = unit();
    if *x < u {
        return BigInt::zero();
    }
    if *x == u {
        return u;
    }
    if k == 0 {
        return u;
    }
    if k == 1 {
        return x.clone();
    }
    let mut ans = u.clone();
    for _ in 0..k {
        ans = div_floor(&(&ans * x), &u);
    }
    ans
}

#[derive(Debug, Clone)]
pub struct FundingRateOut {
    /// Magnitude of the rate used for the elapsed period.
    pub rate: BigInt,
    pub longs_pay_shorts: bool,
    /// Signed rate stored for the next period.
    pub next: BigInt,
}

#[derive(Debug, Clone)]
pub struct FundingParamsBig {
    pub exponent_whole: Option<u32>,
    pub funding_factor: BigInt,
    pub increase: BigInt,
    pub decrease: BigInt,
    pub max: BigInt,
    pub min: BigInt,
    pub threshold_stable: BigInt,
    pub threshold_decrease: BigInt,
}

/// Exact re-statement of `UpdateFundingState::next_funding_factor_per_second` for whole exponents.
/// `None`: not expressible here (fractional exponent, zero total OI, min > max).
pub fn next_funding_factor_per_second(
    fp: &FundingParamsBig,
    stored: &BigInt,
    duration: u64,
    long_oi: &BigInt,
    short_oi: &BigInt,
) -> Option<FundingRateOut> {
    let diff = (long_oi - short_oi).abs();
    if diff.is_zero() && fp.increase.is_zero() {
        return Some(FundingRateOut {
            rate: BigInt::zero(),
            longs_pay_shorts: true,
            next: BigInt::zero(),
        });
    }
    let total = long_oi + short_oi;
    if total.is_zero() {
        return None;
    }
    let k = fp.exponent_whole?;
    let diff_e = pow_fixed_whole(&diff, k);
    let factor = div_floor(&(&diff_e * unit()), &total);
    if fp.increase.is_zero() {
        let mut rate = apply_factor(&factor, &fp.funding_factor);
        if rate > fp.max {
            rate = fp.max.clone();
        }
        return Some(FundingRateOut {
            rate,
            longs_pay_shorts: long_oi > short_oi,
            next: BigInt::zero(),
        });
    }
    let mag = stored.abs();
    let same_dir = (stored.is_positive() && long_oi > short_oi)
        || (stored.is_negative() && long_oi < short_oi);
    #[derive(PartialEq)]
    enum Ch {
        Inc,
        Dec,
        No,
    }
    let ch = if same_dir {
        if factor > fp.threshold_stable {
            Ch::Inc
        } else if factor < fp.threshold_decrease {
            Ch::Dec
        } else {
            Ch::No
        }
    } else {
        Ch::Inc
    };
    let dur = BigInt::from(duration);
    let next = if ch == Ch::Inc {
        let inc = apply_factor(&factor, &fp.increase) * &dur;
        if long_oi < short_oi {
            stored - inc
        } else {
            stored + inc
        }
    } else if ch == Ch::Dec && !mag.is_zero() {
        let dec = &fp.decrease * &dur;
        if mag <= dec {
            // signum
            if stored.is_negative() {
                BigInt::from(-1)
            } else {
                BigInt::from(1)
            }
        } else {
            let d = &mag - &dec;
            if stored.is_negative() {
                -d
            } else {
                d
            }
        }
    } else {
        stored.clone()
    };
    let bound = |v: &BigInt, lo: &BigInt, hi: &BigInt| -> Option<BigInt> {
        if lo > hi {
            return None;
        }
        let m = v.abs();
        let neg = v.is_negative();
        let r = if m < *lo {
            lo.clone()
        } else if m > *hi {
            hi.clone()
        } else {
            return Some(v.clone());
        };
        Some(if neg { -r } else { r })
    };
    let next_b = bound(&next, &BigInt::zero(), &fp.max)?;
    let with_min = bound(&next_b, &fp.min, &fp.max)?;
    Some(FundingRateOut {
        rate: with_min.abs(),
        longs_pay_shorts: with_min.is_positive(),
        next: next_b,
    })
}

/// `total_borrowing[side]` as it must be: sum over positions of floor(size * factor / UNIT).
pub fn expected_total_borrowing<'a>(
    positions: impl Iterator<Item = (&'a BigInt, &'a BigInt)>,
) -> BigInt {
    let mut s = BigInt::zero();
    for (size, factor) in positions {
        s += apply_factor(size, factor);
    }
    s
}

pub fn s_to_big(x: super::S) -> BigInt {
    bs(x)
}

/// Kink-model borrowing factor per second, recomputed exactly.
///
/// Inputs taken from the real market (not under test here: C06 cross-checks the pool valuation, C07
/// the open-interest pools): reserved value, pool value without pnl, reserve factor, max open
/// interest, the configured kink parameters. Returns `None` when the kink model does not apply
/// (optimal usage factor 0, nothing reserved, side skipped as the smaller one, empty pool) or an input
/// is unavailable; `Some((rate, representable))` otherwise, where `representable` says that every
/// intermediate *result* of the documented formula fits the number type (a failure of the real code
/// is then a failure to compute, not an overflow).
pub fn kink_borrowing_rate(m: &Mkt, is_long: bool, prices: &Prices<T>) -> Option<(BigInt, bool)> {
    use gmsol_model::{BaseMarket, BaseMarketExt, BorrowingFeeMarket};
    let kink = m.borrowing_fee_kink_model_params().ok()?;
    let optimal = bi(*kink.optimal_usage_factor(is_long));
    if optimal.is_zero() {
        return None;
    }
    let reserved = bi(m.reserved_value(&prices.index_token_price, is_long).ok()?);
    if reserved.is_zero() {
        return None;
    }
    let params = m.borrowing_fee_params().ok()?;
    let oi_long = oi_usd(m, true);
    let oi_short = oi_usd(m, false);
    if params.skip_borrowing_fee_for_smaller_side()
        && ((is_long && oi_long < oi_short) || (!is_long && oi_short < oi_long))
    {
        return None;
    }
    let pool_value = bi(m.pool_value_without_pnl_for_one_side(prices, is_long, false).ok()?);
    if pool_value.is_zero() {
        return None;
    }
    let max_t = bi(T::MAX);
    let mut fits = true;
    let mut chk = |v: &BigInt| {
        if *v > max_t {
            fits = false;
        }
    };
    let reserve_factor = bi(m.open_interest_reserve_factor().ok()?);
    let max_reserved = apply_factor(&pool_value, &reserve_factor);
    chk(&max_reserved);
    let reserve_usage = if max_reserved.is_zero() { BigInt::zero() } else { div_floor(&(&reserved * unit()), &max_reserved) };
    chk(&reserve_usage);
    let usage = if m.ignore_open_interest_for_usage_factor().ok()? {
        reserve_usage
    } else {
        let max_oi = bi(m.max_open_interest(is_long).ok()?);
        let oi = if is_long { oi_long } else { oi_short };
        let oi_usage = if max_oi.is_zero() { BigInt::zero() } else { div_floor(&(&oi * unit()), &max_oi) };
        chk(&oi_usage);
        if reserve_usage > oi_usage { reserve_usage } else { oi_usage }
    };
    let base = bi(*kink.base_borrowing_factor(is_long));
    let above = bi(*kink.above_optimal_usage_borrowing_factor(is_long));
    let mut rate = apply_factor(&usage, &base);
    chk(&rate);
    if usage > optimal && unit() > optimal {
        let additional = if above > base { &above - &base } else { BigInt::zero() };
        let extra = div_floor(&(&additional * (&usage - &optimal)), &(unit() - &optimal));
        chk(&extra);
        rate += extra;
        chk(&rate);
    }
    Some((rate, fits))
}
