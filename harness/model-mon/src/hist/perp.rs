//! History monitors over the perpetual (position) part of `gmsol-model`: C07–C13.
//!
//! One shared *world driver* (`perp_world.rs`): 1 market, 2–6 positions (long/short × collateral
//! long/short token), LP deposits, random position / liquidity / swap / clock / price / fee-state
//! operations executed on the real model code through `MonMarket` / `MonPosition`. Model actions
//! are not atomic, so the driver snapshots market + position before every action and restores on
//! `Err` or panic (the program's revertible-buffer contract); failed attempts stay in the history.
//!
//! The world code is written against concrete aliases `T` / `S` / `D` and is compiled twice
//! (`w64`: u64 with 9 decimals, `w128`: u128 with 20 decimals — production).
//!
//! * `perp_world.rs`  — configs, prices, operations, snapshot/restore, reference position set
//!   (C07/C13), shadow token ledger (C08), per-operation monitors (C07, C08, C09, C12, C13).
//! * `perp_oracle.rs` — independent BigInt oracles (pnl, liquidation check, funding rate, borrowing).
//! * `perp_probe.rs`  — state probes run on clones of reached states: C09 boundary bisection,
//!   C10 open-then-close, C11 pnl monotonicity, C12 direct rate probe.
#![allow(clippy::too_many_arguments)]

use vcommon::{monitor::run_shards, Args, Monitor};

#[path = "perp_w64.rs"]
pub mod w64;
#[path = "perp_w128.rs"]
pub mod w128;

/// Which property the run is deciding (selects the monitors that report; the workload is shared).
#[derive(Clone, Copy, Debug, PartialEq, Eq)]
pub enum Prop {
    C07,
    C08,
    C09,
    C10,
    C11,
    C12,
    C13,
}

impl Prop {
    fn parse(id: &str) -> Option<Prop> {
        Some(match id {
            "C07" => Prop::C07,
            "C08" => Prop::C08,
            "C09" => Prop::C09,
            "C10" => Prop::C10,
            "C11" => Prop::C11,
            "C12" => Prop::C12,
            "C13" => Prop::C13,
            _ => return None,
        })
    }
}

const WORLD_RULE: &str = "histories: per world 1 market (config drawn from production-like presets \
or adversarial mutations: zero/100%/>100% fees, adaptive funding on/off, kink borrowing on/off, tiny \
caps, impact factor positive>negative, virtual inventory on/off), 2-6 positions (long/short x \
collateral long/short), LP deposits, then a weighted random operation sequence (increase, partial / \
full / collateral-only / capped / oversize decrease, liquidation, insolvent close, deposit, \
withdraw, swap, clock advance, price move with min<max spreads, distribute+borrowing+funding \
updates as update_fees_state runs them); every action runs on the real gmsol-model code for \
u64/9 (even shards) and u128/20 (odd shards); market+position are snapshotted and restored on \
Err/panic. ";

fn rule(p: Prop) -> String {
    let tail = match p {
        Prop::C07 => "After EVERY operation (success or restored failure) the 12 totals (open interest usd, \
open interest in tokens, collateral sum; per side x collateral token) are compared exactly with sums over \
the reference set of open positions (updated from the real position after each success); should_remove => \
position size/tokens/collateral all zero. Non-trivial = a successful position operation that changed size \
or collateral; distinct = hash of (instantiation, op kind, outcome class, pre-state size/collateral, op amounts).",
        Prop::C08 => "Shadow vault per token fed only from operation reports (deposit/swap/collateral in; \
withdraw/swap/decrease outputs, claimable collateral for user/holding, claimable funding out) is compared after \
EVERY operation with liquidity+swap_impact+claimable_fee+sum(collateral): difference must equal the running \
funding residual F (funding paid per reports/events minus funding claimed) exactly; then F + reported \
shortfalls >= 0 (literal) and F + shortfalls + pending payer fees - pending claimable >= 0 (tight). \
Non-trivial = successful operation that moved tokens; distinct = hash of (instantiation, op kind, outcome \
class, amounts moved).",
        Prop::C09 => "After every successful increase / non-closing decrease the real check_liquidatable at the \
execution prices must be None (with the validation flags of the action, and literally with the liquidation \
predicate), an independent BigInt recomputation (pnl, fees, thresholds recomputed; price-impact value taken \
from the real position_price_impact) must agree with the real verdict; a liquidation that succeeds must have \
had a pre-state that is liquidatable under liquidation thresholds (real + BigInt) and must remove the whole \
position; bisection on collateral and on index price places cases at threshold +-1. Non-trivial = a verdict \
compared on an open position; distinct = hash of (instantiation, check site, verdict class, position state, prices).",
        Prop::C10 => "On clones of reached states: open a fresh position (random side, collateral token, \
collateral, leverage) and fully close it immediately at identical prices and zero elapsed time (no swap of \
outputs); received value (output + secondary output + claimable collateral for user + claimable funding) \
must not exceed the deposited collateral value beyond one base unit per operation. Non-trivial = both legs \
succeeded; distinct = hash of (instantiation, side, collateral token, collateral, size, prices, state digest).",
        Prop::C11 => "On reached states, for every open position pnl_value (and real full closes on clones) is \
evaluated at index price pairs p1<p2 (other prices fixed): uncapped pnl monotone (long non-decreasing, short \
non-increasing), capped pnl monotone, capped <= uncapped, partial close share within rounding of proportional, \
and pnl_value equals an independent BigInt recomputation. Non-trivial = a pair/probe on an open position with \
non-zero pnl; distinct = hash of (instantiation, probe kind, position state, prices).",
        Prop::C12 => "Every funding update in the histories plus a direct probe over synthetic open-interest / \
elapsed-time / parameter sets: the real next_funding_factor_per_second is compared with a BigInt oracle and with \
the bounds (adaptive: min<=|rate|<=max, |stored next|<=max; fallback: |rate|<=max, larger side pays, literal min \
bound); after EVERY operation all 8 funding indices are non-decreasing and pending_funding_fees of every open \
position computes. Non-trivial = an update/probe with open interest on both sides; distinct = hash of \
(instantiation, mode, inputs).",
        Prop::C13 => "After EVERY operation: cumulative borrowing factors non-decreasing; total_borrowing per side \
equals the sum over the reference position set of floor(size*factor_at_last_settlement/UNIT) exactly; \
total_pending_borrowing_fees is recomputed in BigInt from the real next cumulative factor and must be \
non-negative and equal to the real result. Non-trivial = check on a state with open positions on that side; \
distinct = hash of (instantiation, side, totals).",
    };
    format!("{WORLD_RULE}{tail}")
}

pub fn run(args: &Args) -> Option<i32> {
    let prop = Prop::parse(args.id.as_str())?;
    let mut mon = Monitor::new(args, &rule(prop));

    // Workload (bounded by counts): shards x worlds x steps.
    let n_shards: u64 = args.scale(256, 6144);
    let (worlds_q, worlds_t): (u64, u64) = match prop {
        Prop::C07 => (200, 200),
        Prop::C08 => (160, 160),
        Prop::C09 => (160, 160),
        Prop::C10 => (200, 200),
        Prop::C11 => (160, 160),
        Prop::C12 => (160, 160),
        Prop::C13 => (160, 160),
    };
    let mut worlds = args.scale(worlds_q, worlds_t);
    let steps = 260;
    // Development overrides (a prefix of the tier's workload: same seeds per shard / world).
    let mut n_shards = n_shards;
    if let Some(n) = args.extra.get("shards").and_then(|s| s.parse::<u64>().ok()) {
        n_shards = n.max(1);
    }
    if let Some(n) = args.extra.get("worlds").and_then(|s| s.parse::<u64>().ok()) {
        worlds = n.max(1);
    }
    let only: Option<String> = args.extra.get("inst").cloned();

    run_shards(&mut mon, args.threads, n_shards, |shard, m| {
        let use64 = match only.as_deref() {
            Some("u64") => true,
            Some("u128") => false,
            _ => shard % 2 == 0,
        };
        if use64 {
            w64::world::run_shard(prop, args.seed, shard, worlds, steps, m);
        } else {
            w128::world::run_shard(prop, args.seed, shard, worlds, steps, m);
        }
    });

    mon.assume("prices are non-zero with min<=max; token amounts and USD values stay within what the \
instantiation's integer type can represent (larger values make the model return Err, counted as failed attempts)");
    mon.assume("the driver restores the pre-action snapshot of market and position on Err/panic, as the \
program's revertible buffer does (checked separately by C21)");
    mon.assume("distinct_nontrivial is counted on the first 1500 non-trivial cases of every shard only (memory bound); counter nontrivial_cases has the total");
    mon.assume("fee-state updates (distribute position impact, borrowing, funding) run before position \
operations as in update_fees_state, and additionally on their own at random points");

    match prop {
        Prop::C08 => mon.assume("an InsufficientFundingFeePayment event reports the shortfall cost_amount - paid_in_collateral_amount in the collateral token; amounts paid in the secondary token go to the holding claimable (vault out)"),
        Prop::C09 => {
            mon.assume("generated configs keep min_collateral_factor_for_liquidation <= min_collateral_factor (or unset)");
            mon.assume("liquidation orders are submitted with size_delta_usd == position size (the program requires >= size; the model rejects > size without the cap flag), ADL / instruction-level part is checked by the store engine");
            mon.assume("the price-impact value entering the BigInt recomputation is taken from the real position_price_impact (fixed-point power is C03's subject)");
        }
        Prop::C10 => mon.assume("the close uses DecreasePositionSwapType::NoSwap; received amounts are valued at the same execution prices: other-token amounts at their max price, the collateral shortfall at the collateral min price; slack = 2 base units of the more valuable token involved"),
        Prop::C11 => mon.assume("the index token price is varied between p1 and p2 (componentwise p1.min<=p2.min, p1.max<=p2.max, not equal); the short token price is held fixed; the long token price is held fixed, or (in markets whose long token is the index token, half of the probes) set equal to the index price"),
        Prop::C12 => mon.assume("the BigInt funding-rate oracle covers whole exponents (1,2,3 x UNIT); fractional exponents are not generated"),
        Prop::C13 => mon.assume("errors of the borrowing *rate* computation (empty pool value, fixed-point power overflow) are counted (c13_rate_error_*) and not judged; the judged part is the subtraction open_interest*factor - total_borrowing"),
        _ => {}
    }

    // Minimum observations, otherwise the run is inconclusive.
    mon.require("op_increase_ok", 2_000);
    mon.require("op_decrease_ok", 2_000);
    mon.require("op_failed", 500);
    mon.require("worlds_u64", 50);
    mon.require("worlds_u128", 50);
    match prop {
        Prop::C07 => {
            mon.require("c07_checks", 100_000);
            mon.require("decrease_full_ok", 500);
            mon.require("decrease_partial_ok", 500);
            mon.require("decrease_collateral_only_ok", 100);
            mon.require("decrease_capped_ok", 50);
            mon.require("liquidation_ok", 50);
            mon.require("promoted_to_full_close", 50);
            mon.require("promoted_tokens_would_zero", 10);
            mon.require("partial_token_delta_zero", 10);
        }
        Prop::C08 => {
            mon.require("c08_checks", 100_000);
            mon.require("funding_paid_ops", 300);
            mon.require("funding_claimed_ops", 300);
            mon.require("decrease_with_secondary_output", 50);
            mon.require("claimable_for_user_ops", 10);
            mon.require("op_swap_ok", 300);
            mon.require("op_deposit_ok", 300);
            mon.require("op_withdraw_ok", 100);
        }
        Prop::C09 => {
            mon.require("c09_post_checks", 3_000);
            mon.require("c09_oracle_agree", 3_000);
            mon.require("liquidation_ok", 50);
            mon.require("liquidation_rejected_not_liquidatable", 50);
            mon.require("c09_boundary_pairs", 100);
        }
        Prop::C10 => {
            mon.require("c10_roundtrips_ok", 2_000);
        }
        Prop::C11 => {
            mon.require("c11_pairs", 5_000);
            mon.require("c11_oracle_agree", 5_000);
            mon.require("c11_capped_cases", 50);
            mon.require("c11_partial_cases", 1_000);
        }
        Prop::C12 => {
            mon.require("c12_rate_checks_adaptive", 1_000);
            mon.require("c12_rate_checks_fallback", 1_000);
            mon.require("c12_index_checks", 100_000);
            mon.require("c12_pending_fee_checks", 50_000);
        }
        Prop::C13 => {
            mon.require("c13_checks", 100_000);
            mon.require("c13_pending_ok_kink", 5_000);
            mon.require("c13_pending_ok_power", 5_000);
            mon.require("c13_factor_increased", 1_000);
        }
    }
    Some(mon.finish())
}
