//! Width-independent helpers for the liquidity-side history monitors (C04, C05, C06, C14).
#![allow(dead_code)]

use vcommon::{
    monitor::guard,
    num_bigint::BigInt,
    num_traits::{Signed, Zero},
};

/// Coarse, stable class of a model error: the variant name, plus the static message for the
/// `Computation` / `InvalidPoolValue` / `InvalidArgument` variants (those messages are `&'static
/// str` literals in the repository, never data).
pub fn err_class(e: &gmsol_model::Error) -> String {
    use gmsol_model::Error as E;
    match e {
        E::Computation(msg) => format!("computation: {msg}"),
        E::InvalidPoolValue(msg) => format!("invalid_pool_value: {msg}"),
        E::InvalidArgument(msg) => format!("invalid_argument: {msg}"),
        E::MaxPoolAmountExceeded(_) => "max_pool_amount_exceeded".into(),
        E::MaxPoolValueExceeded(_) => "max_pool_value_exceeded".into(),
        E::InsufficientReserve(_, _) => "insufficient_reserve".into(),
        E::InsufficientReserveForOpenInterest(_, _) => {
            "insufficient_reserve_for_open_interest".into()
        }
        E::PnlFactorExceeded(kind, _) => format!("pnl_factor_exceeded: {kind:?}"),
        other => {
            let s = format!("{other:?}");
            let end = s.find(['(', '{', ' ']).unwrap_or(s.len());
            s[..end].to_string()
        }
    }
}

/// Result of running one model action under a panic guard.
pub enum Outcome<R> {
    Ok(R),
    /// The action returned `Err`; the string is [`err_class`].
    Err(String),
    /// The action panicked (counted, treated as an aborted transaction).
    Panic(String),
}

impl<R> Outcome<R> {
    pub fn ok(self) -> Option<R> {
        match self {
            Outcome::Ok(r) => Some(r),
            _ => None,
        }
    }
}

/// Run `f`; a panic becomes `Outcome::Panic`.
pub fn attempt<R>(f: impl FnOnce() -> gmsol_model::Result<R>) -> Outcome<R> {
    match guard(f) {
        Ok(Ok(r)) => Outcome::Ok(r),
        Ok(Err(e)) => Outcome::Err(err_class(&e)),
        Err(p) => Outcome::Panic(p),
    }
}

/// `a/b <= c/d` for positive denominators, exactly.
pub fn ratio_le(a: &BigInt, b: &BigInt, c: &BigInt, d: &BigInt) -> bool {
    debug_assert!(b.is_positive() && d.is_positive());
    a * d <= c * b
}

/// Decimal string of a BigInt (witness files carry numbers as strings).
pub fn s(x: &BigInt) -> String {
    x.to_string()
}

/// Bucket of `num/den` on a log2 scale in `-40..=40` (for behaviour-class signatures).
pub fn log_ratio_bucket(num: &BigInt, den: &BigInt) -> i8 {
    if num.is_zero() {
        return -100;
    }
    if den.is_zero() {
        return 100;
    }
    let a = num.abs().bits() as i64;
    let b = den.abs().bits() as i64;
    (a - b).clamp(-40, 40) as i8
}

/// Spread class of a price: 0 none, 1 tiny (< 0.01 %), 2 small (< 1 %), 3 large.
pub fn spread_class(min: &BigInt, max: &BigInt) -> u8 {
    if min == max {
        return 0;
    }
    let d = max - min;
    if &d * 10_000 < *min {
        1
    } else if &d * 100 < *min {
        2
    } else {
        3
    }
}
