//! Instantiation of the perp world for `u64` with 9 decimals.
pub type T = u64;
pub type S = i64;
pub const D: u8 = 9;
pub const TAG: &str = "u64/9";
#[path = "perp_oracle.rs"]
pub mod oracle;
#[path = "perp_probe.rs"]
pub mod probe;
#[path = "perp_world.rs"]
pub mod world;
