// Included (`include!`) once per instantiation by `liq.rs`; the including module defines
// `T` (unsigned), `S` (signed), `D` (decimals) and `LABEL`.
//
// World generator, history driver (snapshot / restore = the program's revertible buffer),
// pool snapshots / diffs and the BigInt reference pool valuation shared by C04, C05, C06, C14.

use super::liq_util::*;
use crate::monmarket::{MaxPnlFactors, MonConfig, MonMarket, MonPool, MonPosition};
use gmsol_model::{
    action::decrease_position::DecreasePositionFlags,
    params::{
        fee::BorrowingFeeKinkModelParamsForOneSide, position::PositionImpactDistributionParams,
        FeeParams, PriceImpactParams,
    },
    price::{Price, Prices},
    BorrowingFeeMarketMutExt, ClockKind, LiquidityMarketExt, LiquidityMarketMutExt, MarketAction,
    PerpMarketMutExt, PnlFactorKind, PositionImpactMarketExt, PositionImpactMarketMutExt,
    PositionMutExt, SwapMarketMutExt,
};
use vcommon::{
    big::{div_floor, zero},
    json,
    num_bigint::BigInt,
    num_traits::{Signed as _, Zero as _},
    serde_json::Value,
    Args, Monitor, Rng,
};

pub type Mkt = MonMarket<T, D>;
pub type Pos = MonPosition<T, D>;
pub const UNIT: T = (10 as T).pow(D as u32);
pub const WIDE: bool = D == 20;

pub fn bi(x: T) -> BigInt {
    BigInt::from(x)
}

pub fn bs(x: S) -> BigInt {
    BigInt::from(x)
}

fn t_sat(x: u128) -> T {
    if x > T::MAX as u128 {
        T::MAX
    } else {
        x as T
    }
}

/// `UNIT * num / den`.
fn fac(num: u128, den: u128) -> T {
    t_sat((UNIT as u128).saturating_mul(num) / den)
}

fn key(k: &str) -> String {
    format!("{LABEL} {k}")
}

pub fn cnt(m: &mut Monitor, k: &str) {
    m.count(&key(k));
}

/// Log-uniform in `lo..=hi`.
fn log_range(rng: &mut Rng, lo: u128, hi: u128) -> u128 {
    let lo = lo.max(1);
    if hi <= lo {
        return lo;
    }
    let bl = 127 - lo.leading_zeros() as u64;
    let bh = 127 - hi.leading_zeros() as u64;
    let e = rng.range(bl, bh);
    let base = 1u128 << e;
    let top = if e >= 127 { u128::MAX } else { (base << 1) - 1 };
    rng.range_u128(base, top).clamp(lo, hi)
}

// ------------------------------------------------------------------------------------------------
// Magnitudes, prices, configurations
// ------------------------------------------------------------------------------------------------

#[derive(Clone, Copy, Debug)]
pub struct Mag {
    pub tok_lo: u128,
    pub tok_hi: u128,
    pub price_lo: u128,
    pub price_hi: u128,
}

fn gen_mag(rng: &mut Rng) -> Mag {
    if WIDE {
        // 9-decimal tokens, 20-decimal USD: price unit 10^11 = 1 USD per whole token.
        match rng.below(3) {
            0 => Mag { tok_lo: 1_000_000, tok_hi: 10u128.pow(11), price_lo: 10u128.pow(9), price_hi: 10u128.pow(13) },
            1 => Mag { tok_lo: 10u128.pow(9), tok_hi: 10u128.pow(14), price_lo: 10u128.pow(10), price_hi: 10u128.pow(14) },
            _ => Mag { tok_lo: 1_000, tok_hi: 10u128.pow(9), price_lo: 10u128.pow(7), price_hi: 10u128.pow(12) },
        }
    } else {
        // The repository's own u64 tests: amounts ~1e9, prices ~1..120 (USD with 9 decimals).
        match rng.below(3) {
            0 => Mag { tok_lo: 10u128.pow(7), tok_hi: 10u128.pow(10), price_lo: 1, price_hi: 300 },
            1 => Mag { tok_lo: 10u128.pow(8), tok_hi: 10u128.pow(11), price_lo: 50, price_hi: 200 },
            _ => Mag { tok_lo: 10u128.pow(4), tok_hi: 10u128.pow(8), price_lo: 1, price_hi: 5_000 },
        }
    }
}

/// A price with `min <= max`; spread classes: none, +1..3 units, <=0.1 %, <=5 %, up to 2x.
pub fn gen_price(rng: &mut Rng, lo: u128, hi: u128) -> Price<T> {
    let min = log_range(rng, lo, hi);
    let max = match rng.below(20) {
        0..=5 => min,
        6..=10 => min + rng.range(1, 3) as u128,
        11..=15 => min + rng.range_u128(0, min / 1000),
        16..=18 => min + rng.range_u128(0, min / 20),
        _ => min + rng.range_u128(0, min),
    };
    Price { min: t_sat(min), max: t_sat(max) }
}

pub fn gen_prices(rng: &mut Rng, mag: &Mag, index_is_long: bool) -> Prices<T> {
    let long = gen_price(rng, mag.price_lo, mag.price_hi);
    let short = if rng.chance(1, 2) {
        // a "stable" short token around the middle of the range
        let mid = ((mag.price_lo as f64) * (mag.price_hi as f64)).sqrt() as u128;
        gen_price(rng, mid.max(1), mid.max(1) + mid / 50)
    } else {
        gen_price(rng, mag.price_lo, mag.price_hi)
    };
    let index = if index_is_long { long } else { gen_price(rng, mag.price_lo, mag.price_hi) };
    Prices { index_token_price: index, long_token_price: long, short_token_price: short }
}

fn move_price(rng: &mut Rng, p: &Price<T>) -> Price<T> {
    let num = rng.range(80, 125) as u128;
    let mut min = (p.min as u128).saturating_mul(num) / 100;
    let mut max = (p.max as u128).saturating_mul(num) / 100;
    min = min.max(1);
    if rng.chance(1, 4) {
        // re-draw the spread
        max = min + rng.range_u128(0, (min / 200).max(2));
    }
    max = max.max(min);
    Price { min: t_sat(min), max: t_sat(max) }
}

pub fn move_prices(rng: &mut Rng, p: &Prices<T>, index_is_long: bool) -> Prices<T> {
    let long = if rng.chance(3, 4) { move_price(rng, &p.long_token_price) } else { p.long_token_price };
    let short = if rng.chance(1, 3) { move_price(rng, &p.short_token_price) } else { p.short_token_price };
    let index = if index_is_long { long } else { move_price(rng, &p.index_token_price) };
    Prices { index_token_price: index, long_token_price: long, short_token_price: short }
}

/// Swap fee parameters: production default, zero, 100 %, >100 %, random, positive > negative.
fn gen_swap_fees(rng: &mut Rng, tags: &mut Vec<&'static str>) -> FeeParams<T> {
    let d = MonConfig::<T, D>::default().swap_fee_params;
    let (pos, neg): (T, T) = match rng.below(12) {
        0..=3 => return d,
        4 | 5 => {
            tags.push("fee0");
            (0, 0)
        }
        6 => {
            tags.push("fee100");
            (UNIT, UNIT)
        }
        7 => {
            tags.push("fee>100");
            (fac(3, 2), fac(3, 2))
        }
        8 => {
            tags.push("fee_pos>neg");
            (fac(1, 100), fac(1, 1000))
        }
        9 => {
            tags.push("fee_neg_only");
            (0, fac(rng.range(1, 500) as u128, 10_000))
        }
        _ => {
            tags.push("fee_rand");
            (
                t_sat(log_range(rng, 1, (UNIT / 20) as u128)),
                t_sat(log_range(rng, 1, (UNIT / 20) as u128)),
            )
        }
    };
    let recv: T = match rng.below(8) {
        0 => 0,
        1 => UNIT,
        2 => fac(6, 5),
        3 | 4 => t_sat(rng.range_u128(0, UNIT as u128)),
        _ => *d.receiver_factor(),
    };
    FeeParams::builder()
        .fee_receiver_factor(recv)
        .positive_impact_fee_factor(pos)
        .negative_impact_fee_factor(neg)
        .build()
}

/// Price impact parameters: exponent 1/2/3 units; default, zero, positive > negative, equal,
/// scaled-up and random factors.
fn gen_impact(rng: &mut Rng, d: &PriceImpactParams<T>, tags: &mut Vec<&'static str>, what: &'static str) -> PriceImpactParams<T> {
    let exp_units = match rng.below(9) {
        0 | 1 => 1u32,
        2..=6 => 2,
        _ => 3,
    };
    let dp = *d.positive_factor() as u128;
    let dn = *d.negative_factor() as u128;
    // For exponent 1 the factor is a plain fraction of the imbalance change.
    let (pos, neg): (u128, u128) = if exp_units == 1 {
        match rng.below(5) {
            0 => (0, 0),
            1 => ((UNIT / 1000) as u128, (UNIT / 500) as u128),
            2 => ((UNIT / 200) as u128, (UNIT / 1000) as u128),
            3 => ((UNIT / 100) as u128, (UNIT / 100) as u128),
            _ => (log_range(rng, 1, (UNIT / 50) as u128), log_range(rng, 1, (UNIT / 50) as u128)),
        }
    } else {
        let up = 10u128.pow(rng.range(0, if exp_units == 2 { 5 } else { 2 }) as u32);
        match rng.below(8) {
            0 => (0, 0),
            1 | 2 => (dp, dn),
            3 => (dn.saturating_mul(up), dp.saturating_mul(up)),
            4 => (dn.saturating_mul(up), dn.saturating_mul(up)),
            5 | 6 => (dp.saturating_mul(up), dn.saturating_mul(up)),
            _ => (log_range(rng, 1, dn.saturating_mul(100_000)), log_range(rng, 1, dn.saturating_mul(100_000))),
        }
    };
    if what == "swap" {
        if pos == 0 && neg == 0 {
            tags.push("impact0");
        } else if pos > neg {
            tags.push("impact_pos>neg");
        }
        tags.push(match exp_units {
            1 => "exp1",
            2 => "exp2",
            _ => "exp3",
        });
    }
    PriceImpactParams::builder()
        .exponent(UNIT * exp_units as T)
        .positive_factor(t_sat(pos))
        .negative_factor(t_sat(neg))
        .build()
}

fn gen_limits(rng: &mut Rng, c: &mut MonConfig<T, D>, mag: &Mag, tags: &mut Vec<&'static str>) {
    let d = MonConfig::<T, D>::default();
    c.max_pool_amount = d.max_pool_amount;
    c.reserve_factor = d.reserve_factor;
    c.open_interest_reserve_factor = d.open_interest_reserve_factor;
    c.max_pool_value_for_deposit = d.max_pool_value_for_deposit;
    if rng.chance(1, 4) {
        tags.push("tiny_max_pool_amount");
        c.max_pool_amount = t_sat(log_range(rng, mag.tok_lo, mag.tok_hi.saturating_mul(4)));
    }
    if rng.chance(1, 4) {
        tags.push("tiny_reserve");
        c.reserve_factor = fac(rng.range(0, 60) as u128, 100);
    } else if rng.chance(1, 6) {
        c.reserve_factor = fac(rng.range(100, 250) as u128, 100);
    }
    if rng.chance(1, 6) {
        c.open_interest_reserve_factor = fac(rng.range(1, 100) as u128, 100);
    }
    if rng.chance(1, 8) {
        tags.push("tiny_max_pool_value");
        let v = mag.tok_hi.saturating_mul(mag.price_hi) / rng.range(1, 50) as u128;
        c.max_pool_value_for_deposit = t_sat(v);
    }
}

pub fn gen_config(rng: &mut Rng, mag: &Mag, tags: &mut Vec<&'static str>) -> MonConfig<T, D> {
    let d = MonConfig::<T, D>::default();
    let mut c = d.clone();
    if rng.chance(1, 8) {
        tags.push("preset_default");
        return c;
    }
    if rng.chance(1, 7) {
        // Frictionless swaps: zero fee and zero impact (C05 exact-conversion clause).
        tags.push("frictionless");
        c.swap_fee_params = FeeParams::builder()
            .fee_receiver_factor(*d.swap_fee_params.receiver_factor())
            .positive_impact_fee_factor(0)
            .negative_impact_fee_factor(0)
            .build();
        c.swap_impact_params = PriceImpactParams::builder()
            .exponent(UNIT * 2)
            .positive_factor(0)
            .negative_factor(0)
            .build();
    } else {
        c.swap_fee_params = gen_swap_fees(rng, tags);
        c.swap_impact_params = gen_impact(rng, &d.swap_impact_params, tags, "swap");
    }
    if rng.chance(1, 3) {
        c.position_impact_params = gen_impact(rng, &d.position_impact_params, tags, "position");
    }
    if rng.chance(1, 4) {
        c.order_fee_params = FeeParams::builder()
            .fee_receiver_factor(*d.order_fee_params.receiver_factor())
            .positive_impact_fee_factor(0)
            .negative_impact_fee_factor(0)
            .build();
    }
    gen_limits(rng, &mut c, mag, tags);
    if rng.chance(1, 3) {
        let fs = [fac(3, 10), fac(6, 10), UNIT, fac(1, 20), fac(9, 10)];
        c.max_pnl_factors = MaxPnlFactors {
            deposit: *rng.pick(&fs),
            withdrawal: *rng.pick(&fs),
            trader: *rng.pick(&fs),
            adl: d.max_pnl_factors.adl,
        };
    }
    if rng.chance(1, 3) {
        c.position_impact_distribution_params = gen_distribution(rng, mag);
    }
    if rng.chance(1, 4) {
        // Plain (non-kink) borrowing model.
        c.borrowing_fee_kink_model_params = BorrowingFeeKinkModelParamsForOneSide::builder()
            .optimal_usage_factor(0)
            .base_borrowing_factor(0)
            .above_optimal_usage_borrowing_factor(0)
            .build();
    }
    c
}

pub fn gen_distribution(rng: &mut Rng, mag: &Mag) -> PositionImpactDistributionParams<T> {
    let d = MonConfig::<T, D>::default().position_impact_distribution_params;
    let factor: T = match rng.below(8) {
        0 => 0,
        1 => *d.distribute_factor(),
        2 => 1,
        3 => UNIT - 1,
        4 => UNIT,
        5 => t_sat(log_range(rng, 1, (UNIT as u128).saturating_mul(1_000_000))),
        6 => rng.biased_u128(T::MAX as u128, UNIT as u128) as T,
        _ => t_sat(log_range(rng, 1, UNIT as u128)),
    };
    let min: T = match rng.below(6) {
        0 => 0,
        1 => *d.min_position_impact_pool_amount(),
        2 => t_sat(log_range(rng, 1, mag.tok_hi)),
        3 => rng.biased_u128(T::MAX as u128, UNIT as u128) as T,
        _ => t_sat(log_range(rng, 1, mag.tok_lo.max(2))),
    };
    PositionImpactDistributionParams::builder()
        .distribute_factor(factor)
        .min_position_impact_pool_amount(min)
        .build()
}

// ------------------------------------------------------------------------------------------------
// World + history driver
// ------------------------------------------------------------------------------------------------

pub struct World {
    pub m: Mkt,
    pub pos: [Pos; 4],
    pub p: Prices<T>,
    pub mag: Mag,
    pub index_is_long: bool,
    pub tags: Vec<&'static str>,
}

impl World {
    pub fn new(rng: &mut Rng) -> Self {
        let mag = gen_mag(rng);
        let mut tags = vec![];
        let cfg = gen_config(rng, &mag, &mut tags);
        let mut m = Mkt::with_config(cfg);
        // The program initialises every clock when the market is created.
        for k in [ClockKind::PriceImpactDistribution, ClockKind::Borrowing, ClockKind::Funding] {
            m.clocks.insert(k, m.now);
        }
        if rng.chance(1, 4) {
            tags.push("vi_swaps");
            m.vi_swaps = Some(MonPool {
                long_amount: t_sat(log_range(rng, 1, mag.tok_hi.saturating_mul(4))),
                short_amount: t_sat(log_range(rng, 1, mag.tok_hi.saturating_mul(400))),
            });
        }
        if rng.chance(1, 6) {
            m.vi_positions = Some(MonPool {
                long_amount: t_sat(log_range(rng, 1, mag.tok_hi.saturating_mul(mag.price_hi))),
                short_amount: t_sat(log_range(rng, 1, mag.tok_hi.saturating_mul(mag.price_hi))),
            });
        }
        let index_is_long = rng.chance(2, 3);
        let p = gen_prices(rng, &mag, index_is_long);
        World {
            m,
            pos: [Pos::long(true), Pos::long(false), Pos::short(true), Pos::short(false)],
            p,
            mag,
            index_is_long,
            tags,
        }
    }

    /// A token amount: mostly log-uniform in the world's magnitude, sometimes tiny, sometimes
    /// relative to the pool, sometimes huge.
    pub fn amount(&self, rng: &mut Rng, is_long: bool) -> T {
        let pool = if is_long { self.m.primary.long_amount } else { self.m.primary.short_amount } as u128;
        let v = match rng.below(20) {
            0 | 1 => rng.range(1, 1000) as u128,
            2 => pool / rng.range(1, 8) as u128,
            3 => pool.saturating_add(rng.range(0, 2) as u128).saturating_sub(1),
            4 => pool.saturating_mul(rng.range(2, 5) as u128),
            5 => rng.biased_u128(S::MAX as u128, UNIT as u128),
            6 => log_range(rng, self.mag.tok_hi, self.mag.tok_hi.saturating_mul(1000)),
            _ => log_range(rng, self.mag.tok_lo, self.mag.tok_hi),
        };
        t_sat(v)
    }

    /// A moderate amount (no extremes) — used for the seeding deposits so that histories get
    /// going.
    pub fn seed_amount(&self, rng: &mut Rng) -> T {
        t_sat(log_range(rng, self.mag.tok_hi / 10, self.mag.tok_hi))
    }

    pub fn reconfigure(&mut self, rng: &mut Rng) {
        let d = MonConfig::<T, D>::default();
        let mut tags = vec![];
        match rng.below(4) {
            0 => self.m.config.swap_impact_params = gen_impact(rng, &d.swap_impact_params, &mut tags, "position"),
            1 => self.m.config.swap_fee_params = gen_swap_fees(rng, &mut tags),
            2 => {
                let mag = self.mag;
                gen_limits(rng, &mut self.m.config, &mag, &mut tags)
            }
            _ => self.m.config.position_impact_distribution_params = gen_distribution(rng, &self.mag),
        }
    }
}

/// The program's pre-execute (`RevertibleMarket::update_fees_state`): distribute position impact,
/// update borrowing state, update funding state.
pub fn pre_ops(m: &mut Mkt, p: &Prices<T>) -> gmsol_model::Result<()> {
    m.distribute_position_impact()?.execute()?;
    m.update_borrowing(p)?.execute()?;
    m.update_funding(p)?.execute()?;
    Ok(())
}

/// Run a market action with the revertible-buffer contract: snapshot, restore on `Err` / panic.
pub fn atomic<R>(m: &mut Mkt, f: impl FnOnce(&mut Mkt) -> gmsol_model::Result<R>) -> Outcome<R> {
    let snap = m.clone();
    let out = attempt(|| f(m));
    if !matches!(out, Outcome::Ok(_)) {
        *m = snap;
    }
    m.events.clear();
    out
}

pub fn atomic_pos<R>(
    m: &mut Mkt,
    pos: &mut Pos,
    f: impl FnOnce(&mut Mkt, &mut Pos) -> gmsol_model::Result<R>,
) -> Outcome<R> {
    let snap = m.clone();
    let psnap = *pos;
    let out = attempt(|| f(m, pos));
    if !matches!(out, Outcome::Ok(_)) {
        *m = snap;
        *pos = psnap;
    }
    m.events.clear();
    out
}

pub fn note<R>(mon: &mut Monitor, what: &str, out: &Outcome<R>) {
    match out {
        Outcome::Ok(_) => cnt(mon, &format!("{what}_ok")),
        Outcome::Err(c) => {
            cnt(mon, &format!("{what}_fail"));
            cnt(mon, &format!("{what}_fail: {c}"));
        }
        Outcome::Panic(_) => {
            cnt(mon, "panics");
            cnt(mon, &format!("{what}_panic"));
        }
    }
}

/// Background operations shared by the swap and LP histories.
#[derive(Clone, Copy, Debug, PartialEq, Eq)]
pub enum Bg {
    Deposit,
    Withdraw,
    Swap,
    Increase,
    Decrease,
    Advance,
    MovePrices,
    Reconfigure,
}

impl World {
    pub fn bg_deposit(&mut self, rng: &mut Rng, mon: &mut Monitor, seeding: bool) {
        let (a, b) = if seeding {
            match rng.below(4) {
                0 => (self.seed_amount(rng), 0),
                1 => (0, self.seed_amount(rng)),
                _ => {
                    // roughly balanced in USD
                    let a = self.seed_amount(rng);
                    let usd = (a as u128).saturating_mul(self.p.long_token_price.min as u128);
                    let b = usd / (self.p.short_token_price.max as u128).max(1);
                    (a, t_sat(b.max(1)))
                }
            }
        } else {
            match rng.below(3) {
                0 => (self.amount(rng, true), 0),
                1 => (0, self.amount(rng, false)),
                _ => (self.amount(rng, true), self.amount(rng, false)),
            }
        };
        let p = self.p;
        let out = atomic(&mut self.m, |m| {
            pre_ops(m, &p)?;
            m.deposit(a, b, p)?.execute()
        });
        note(mon, "bg_deposit", &out);
    }

    pub fn bg_withdraw(&mut self, rng: &mut Rng, mon: &mut Monitor) {
        let supply = self.m.total_supply as u128;
        let amt = match rng.below(10) {
            0 => supply,
            1 => supply.saturating_add(1),
            2 => rng.range(1, 1000) as u128,
            _ => supply / rng.range(2, 50) as u128,
        };
        let p = self.p;
        let out = atomic(&mut self.m, |m| {
            pre_ops(m, &p)?;
            m.withdraw(t_sat(amt), p)?.execute()
        });
        note(mon, "bg_withdraw", &out);
    }

    pub fn bg_swap(&mut self, rng: &mut Rng, mon: &mut Monitor) {
        let is_long_in = rng.bool();
        let a = self.amount(rng, is_long_in);
        let p = self.p;
        let out = atomic(&mut self.m, |m| {
            m.update_borrowing(&p)?.execute()?;
            m.swap(is_long_in, a, p)?.execute()
        });
        note(mon, "bg_swap", &out);
    }

    pub fn bg_increase(&mut self, rng: &mut Rng, mon: &mut Monitor) {
        let i = rng.below(4) as usize;
        let coll_long = self.pos[i].is_collateral_token_long;
        let c = t_sat(log_range(rng, self.mag.tok_lo, (self.mag.tok_hi / 4).max(self.mag.tok_lo)));
        let price = if coll_long { self.p.long_token_price.min } else { self.p.short_token_price.min };
        let lev = rng.range(1, 12) as u128;
        let size = t_sat((c as u128).saturating_mul(price as u128).saturating_mul(lev));
        let p = self.p;
        let (m, pos) = (&mut self.m, &mut self.pos[i]);
        let out = atomic_pos(m, pos, |m, pos| {
            pre_ops(m, &p)?;
            pos.ops(m).increase(p, c, size, None)?.execute()
        });
        note(mon, "bg_increase", &out);
    }

    pub fn bg_decrease(&mut self, rng: &mut Rng, mon: &mut Monitor) {
        let i = rng.below(4) as usize;
        let size = self.pos[i].size_in_usd;
        if size == 0 {
            return;
        }
        let delta = match rng.below(3) {
            0 => size,
            1 => size / 2,
            _ => t_sat(rng.range_u128(1, size as u128)),
        };
        let p = self.p;
        let (m, pos) = (&mut self.m, &mut self.pos[i]);
        let out = atomic_pos(m, pos, |m, pos| {
            pre_ops(m, &p)?;
            let flags = DecreasePositionFlags {
                is_insolvent_close_allowed: false,
                is_liquidation_order: false,
                is_cap_size_delta_usd_allowed: true,
            };
            pos.ops(m).decrease(p, delta, None, 0, flags)?.execute()
        });
        if let Outcome::Ok(r) = &out {
            if r.should_remove() {
                let (l, c) = (self.pos[i].is_long, self.pos[i].is_collateral_token_long);
                self.pos[i] = if l { Pos::long(c) } else { Pos::short(c) };
            }
        }
        note(mon, "bg_decrease", &out);
    }

    pub fn bg_advance(&mut self, rng: &mut Rng, mon: &mut Monitor) {
        let secs = match rng.below(6) {
            0 => 0,
            1 => 1,
            2 => rng.range(2, 600),
            3 => rng.range(600, 86_400),
            4 => rng.range(86_400, 30 * 86_400),
            _ => rng.range(1, 3600),
        };
        self.m.advance(secs);
        cnt(mon, "bg_advance");
    }

    pub fn bg(&mut self, op: Bg, rng: &mut Rng, mon: &mut Monitor) {
        match op {
            Bg::Deposit => self.bg_deposit(rng, mon, false),
            Bg::Withdraw => self.bg_withdraw(rng, mon),
            Bg::Swap => self.bg_swap(rng, mon),
            Bg::Increase => self.bg_increase(rng, mon),
            Bg::Decrease => self.bg_decrease(rng, mon),
            Bg::Advance => self.bg_advance(rng, mon),
            Bg::MovePrices => {
                self.p = move_prices(rng, &self.p, self.index_is_long);
                cnt(mon, "bg_move_prices");
            }
            Bg::Reconfigure => {
                self.reconfigure(rng);
                cnt(mon, "bg_reconfigure");
            }
        }
    }
}

// ------------------------------------------------------------------------------------------------
// Snapshots, diffs, witnesses
// ------------------------------------------------------------------------------------------------

fn pool_json(p: &MonPool<T>) -> Value {
    json!([p.long_amount.to_string(), p.short_amount.to_string()])
}

/// Every pool / scalar of the market state by name (long, short).
pub fn pool_list(m: &Mkt) -> Vec<(&'static str, MonPool<T>)> {
    let none = MonPool { long_amount: T::MAX, short_amount: T::MAX };
    vec![
        ("liquidity", m.primary),
        ("swap_impact", m.swap_impact),
        ("claimable_fee", m.fee),
        ("open_interest_long", m.open_interest.0),
        ("open_interest_short", m.open_interest.1),
        ("open_interest_in_tokens_long", m.open_interest_in_tokens.0),
        ("open_interest_in_tokens_short", m.open_interest_in_tokens.1),
        ("position_impact", m.position_impact),
        ("borrowing_factor", m.borrowing_factor),
        ("funding_amount_per_size_long", m.funding_amount_per_size.0),
        ("funding_amount_per_size_short", m.funding_amount_per_size.1),
        ("claimable_funding_amount_per_size_long", m.claimable_funding_amount_per_size.0),
        ("claimable_funding_amount_per_size_short", m.claimable_funding_amount_per_size.1),
        ("collateral_sum_long", m.collateral_sum.0),
        ("collateral_sum_short", m.collateral_sum.1),
        ("total_borrowing", m.total_borrowing),
        ("virtual_inventory_for_swaps", m.vi_swaps.unwrap_or(none)),
        ("virtual_inventory_for_positions", m.vi_positions.unwrap_or(none)),
    ]
}

/// Names of the pools / scalars that differ between two states, except those in `skip`.
pub fn diff_state(a: &Mkt, b: &Mkt, skip: &[&str]) -> Vec<&'static str> {
    let mut out = vec![];
    for ((n, x), (_, y)) in pool_list(a).into_iter().zip(pool_list(b)) {
        if x != y && !skip.contains(&n) {
            out.push(n);
        }
    }
    if a.vi_swaps.is_some() != b.vi_swaps.is_some() {
        out.push("virtual_inventory_for_swaps(presence)");
    }
    if a.vi_positions.is_some() != b.vi_positions.is_some() {
        out.push("virtual_inventory_for_positions(presence)");
    }
    if a.total_supply != b.total_supply && !skip.contains(&"total_supply") {
        out.push("total_supply");
    }
    if a.funding_factor_per_second != b.funding_factor_per_second {
        out.push("funding_factor_per_second");
    }
    if a.clocks != b.clocks && !skip.contains(&"clocks") {
        out.push("clocks");
    }
    if a.now != b.now {
        out.push("now");
    }
    out
}

pub fn price_json(p: &Price<T>) -> Value {
    json!({"min": p.min.to_string(), "max": p.max.to_string()})
}

pub fn prices_json(p: &Prices<T>) -> Value {
    json!({
        "index": price_json(&p.index_token_price),
        "long": price_json(&p.long_token_price),
        "short": price_json(&p.short_token_price),
    })
}

/// Full replayable dump of a market state (numbers as decimal strings, config as its `Debug`).
pub fn market_json(m: &Mkt) -> Value {
    let mut pools = vcommon::serde_json::Map::new();
    for (n, p) in pool_list(m) {
        let absent = (n == "virtual_inventory_for_swaps" && m.vi_swaps.is_none())
            || (n == "virtual_inventory_for_positions" && m.vi_positions.is_none());
        pools.insert(n.to_string(), if absent { Value::Null } else { pool_json(&p) });
    }
    json!({
        "width": LABEL,
        "total_supply": m.total_supply.to_string(),
        "usd_to_amount_divisor": m.value_to_amount_divisor.to_string(),
        "funding_factor_per_second": m.funding_factor_per_second.to_string(),
        "now": m.now,
        "clocks": format!("{:?}", m.clocks),
        "pools_long_short": Value::Object(pools),
        "config": format!("{:?}", m.config),
    })
}

fn side(p: &MonPool<T>, is_long: bool) -> T {
    if is_long {
        p.long_amount
    } else {
        p.short_amount
    }
}

/// liquidity + swap impact + claimable fee of one token side (the property's "holdings").
pub fn holdings(m: &Mkt, is_long: bool) -> BigInt {
    bi(side(&m.primary, is_long)) + bi(side(&m.swap_impact, is_long)) + bi(side(&m.fee, is_long))
}

fn pick(p: &Price<T>, maximize: bool) -> BigInt {
    bi(if maximize { p.max } else { p.min })
}

// ------------------------------------------------------------------------------------------------
// BigInt reference pool valuation (C06)
// ------------------------------------------------------------------------------------------------

pub struct RefPoolValue {
    pub value: BigInt,
    /// The pnl cap was binding on at least one side (pnl > max_pnl_factor * side value).
    pub cap_binding: bool,
    pub pending_borrowing: BigInt,
    pub net_pnl: BigInt,
    pub impact_value: BigInt,
}

fn clock_age(m: &Mkt, k: ClockKind) -> u64 {
    m.now.saturating_sub(*m.clocks.get(&k).unwrap_or(&m.now))
}

/// Exact pool value as documented by `LiquidityMarketExt::pool_value`:
/// tokens at the picked price + the pool's share of accrued, unpaid borrowing fees − capped net
/// pnl − position impact pool at the opposite price. Only defined for states whose borrowing and
/// distribution clocks are current (which the program's pre-execute guarantees): then the pending
/// parts do not depend on rates. Returns `None` outside that domain or where the model itself
/// must fail (negative pending borrowing, receiver factor > 100 %).
pub fn ref_pool_value(m: &Mkt, p: &Prices<T>, kind: PnlFactorKind, maximize: bool) -> Option<RefPoolValue> {
    if clock_age(m, ClockKind::Borrowing) != 0 || clock_age(m, ClockKind::PriceImpactDistribution) != 0 {
        return None;
    }
    let unit = bi(UNIT);
    let lv = bi(m.primary.long_amount) * pick(&p.long_token_price, maximize);
    let sv = bi(m.primary.short_amount) * pick(&p.short_token_price, maximize);
    let oi = |is_long: bool| {
        let q = if is_long { &m.open_interest.0 } else { &m.open_interest.1 };
        bi(q.long_amount) + bi(q.short_amount)
    };
    let oit = |is_long: bool| {
        let q = if is_long { &m.open_interest_in_tokens.0 } else { &m.open_interest_in_tokens.1 };
        bi(q.long_amount) + bi(q.short_amount)
    };
    let mut pending = zero();
    for is_long in [true, false] {
        let cum = bi(side(&m.borrowing_factor, is_long));
        let total = div_floor(&(oi(is_long) * cum), &unit) - bi(side(&m.total_borrowing, is_long));
        if total.is_negative() {
            return None;
        }
        pending += total;
    }
    let recv = bi(*m.config.borrowing_fee_params.receiver_factor());
    if recv > unit {
        return None;
    }
    let pending_for_pool = div_floor(&(&pending * (&unit - recv)), &unit);
    let factor = bi(match kind {
        PnlFactorKind::MaxAfterDeposit => m.config.max_pnl_factors.deposit,
        PnlFactorKind::MaxAfterWithdrawal => m.config.max_pnl_factors.withdrawal,
        PnlFactorKind::MaxForTrader => m.config.max_pnl_factors.trader,
        _ => return None,
    });
    let mut net_pnl = zero();
    let mut cap_binding = false;
    for is_long in [true, false] {
        let (o, ot) = (oi(is_long), oit(is_long));
        if o.is_zero() && ot.is_zero() {
            continue;
        }
        // pnl is evaluated with `!maximize`; `pick_price_for_pnl(is_long, x)` is min iff is_long ^ x.
        let pnl_max = !maximize;
        let price = if is_long ^ pnl_max { bi(p.index_token_price.min) } else { bi(p.index_token_price.max) };
        let pnl = if is_long { ot * price - o } else { o - ot * price };
        let side_value = if is_long { &lv } else { &sv };
        let capped = if pnl.is_positive() {
            let max_pnl = div_floor(&(side_value * &factor), &unit);
            if pnl > max_pnl {
                cap_binding = true;
                max_pnl
            } else {
                pnl
            }
        } else {
            pnl
        };
        net_pnl += capped;
    }
    let impact_value = bi(m.position_impact.long_amount) * pick(&p.index_token_price, !maximize);
    let value = lv + sv + &pending_for_pool - &net_pnl - &impact_value;
    Some(RefPoolValue { value, cap_binding, pending_borrowing: pending, net_pnl, impact_value })
}

/// Cross-check of the real `pool_value` against the reference; `Some(true/false)` when both are
/// defined.
pub fn pool_value_agrees(m: &Mkt, p: &Prices<T>, kind: PnlFactorKind, maximize: bool, r: &RefPoolValue) -> Option<(bool, BigInt)> {
    match attempt(|| m.pool_value(p, kind, maximize)) {
        Outcome::Ok(v) => Some((bs(v) == r.value, bs(v))),
        _ => None,
    }
}
