//! Liquidity-side history monitors over `MonMarket` (both instantiations, `u64`/9 and `u128`/20):
//!
//! * C04 — a swap moves exactly the traded tokens and is all-or-nothing,
//! * C05 — a swap never pays out more value than it takes in, beyond funded positive impact,
//! * C06 — LP deposit / withdraw round trip, no dilution of the other LPs, first deposit at 1 USD,
//! * C14 — position impact distribution respects the floor.
//!
//! The width-specific code lives in `liq_inst.rs` (world generator, driver, snapshots, reference
//! valuation), `liq_swap.rs` (C04/C05), `liq_lp.rs` (C06) and `liq_dist.rs` (C14); those files are
//! `include!`d once per instantiation below, with `T`/`S`/`D` bound to the concrete types, so that
//! exactly the same monitor source runs over both number widths.
use vcommon::{monitor::run_shards, Args, Monitor, Rng};

#[path = "liq_util.rs"]
mod liq_util;

macro_rules! instantiate {
    ($name:ident, $t:ty, $s:ty, $d:expr, $label:expr) => {
        #[allow(dead_code, unused_imports, clippy::all)]
        mod $name {
            pub type T = $t;
            pub type S = $s;
            pub const D: u8 = $d;
            pub const LABEL: &str = $label;
            include!("liq_inst.rs");
            include!("liq_swap.rs");
            include!("liq_lp.rs");
            include!("liq_dist.rs");
        }
    };
}

instantiate!(w64, u64, i64, 9, "u64/9");
instantiate!(w128, u128, i128, 20, "u128/20");

const WIDTHS: [&str; 2] = ["u64/9", "u128/20"];

pub fn run(args: &Args) -> Option<i32> {
    match args.id.as_str() {
        "C04" => Some(run_swap(args, true)),
        "C05" => Some(run_swap(args, false)),
        "C06" => Some(run_lp(args)),
        "C14" => Some(run_dist(args)),
        _ => None,
    }
}

/// Quick-tier workloads run at QUICK_PCT % of the sizes the `require` minimums were calibrated for;
/// the minimums are scaled with them (a little lower, so that rare classes stay above the bar).
const QUICK_PCT: u64 = 60;
static REQUIRE_PCT: std::sync::atomic::AtomicU64 = std::sync::atomic::AtomicU64::new(100);

fn require_both(mon: &mut Monitor, key: &str, min: u64) {
    let pct = REQUIRE_PCT.load(std::sync::atomic::Ordering::Relaxed);
    for w in WIDTHS {
        mon.require(&format!("{w} {key}"), (min.saturating_mul(pct) / 100).max(1));
    }
}

const N_SHARDS: u64 = 64;

/// Workload size by tier; `--workload-pct N` scales it (development / mutation experiments only —
/// the `require` minimums are calibrated for 100 %).
fn workload(args: &Args, quick: u64, thorough: u64) -> u64 {
    let pct = args
        .extra
        .get("workload-pct")
        .and_then(|v| v.parse::<u64>().ok())
        .unwrap_or(100);
    let tier_pct = if args.is_thorough() { 100 } else { QUICK_PCT };
    if !args.is_thorough() {
        REQUIRE_PCT.store(QUICK_PCT * 85 / 100, std::sync::atomic::Ordering::Relaxed);
    }
    (args.scale(quick, thorough).saturating_mul(pct).saturating_mul(tier_pct) / 10_000).max(1)
}

const ASSUME_SCALE: &str = "token amounts and prices are generated at the magnitudes of the repository's own tests (u64/9: amounts up to ~1e11 base units at prices 1..5000; u128/20: 9-decimal tokens at 1e7..1e14 price units), plus boundary / oversized amounts that the model must refuse; prices always satisfy 0 < min <= max";
const ASSUME_ATOMIC: &str = "model actions other than Swap are driven with the program's revertible-buffer contract: the driver snapshots the market before the action and restores it on Err or panic";
const ASSUME_EXP: &str = "price impact exponents are whole units (1, 2 or 3); non-unit exponents are documented as unsupported in crates/model/src/fixed.rs";

fn run_swap(args: &Args, is_c04: bool) -> i32 {
    let rule = if is_c04 {
        "C04. Cases: every swap().execute() inside random histories (seed deposits, then swaps in both directions mixed with deposits, withdrawals, position increases/decreases, clock advances, price moves with min<=max spreads, keeper re-configuration) over production-like and adversarial configurations (zero / 100 % / >100 % fees, positive impact factor > negative, exponent 1/2/3 units, tiny max_pool_amount / reserve factor, optional virtual inventory), both number widths. The swap is executed WITHOUT driver snapshot/restore. Oracle: success => (liquidity+swap_impact+claimable_fee) of token_in grows by exactly amount_in and of token_out shrinks by exactly report.token_out_amount, total supply / every other pool / clocks untouched, virtual inventory (if configured) moves by exactly the liquidity pool's deltas; Err => every pool, supply and clock bit-identical to the pre-state. Non-trivial = a successful swap, or a failure decided after the pool computations (not EmptySwap / invalid prices). distinct_nontrivial counts distinct behaviour classes: (width, direction, impact sign, capped, second-pool top-up, zero fee, virtual inventory, spread classes, 4-bit-wide log2 buckets of in/pool and out/pool) for successes and (width, failure reason, direction, virtual inventory, log2 bucket of in/pool) for failures."
    } else {
        "C05. Cases: the same swap histories as C04 (random histories over production-like and adversarial configurations, min<=max price spreads, both number widths). Oracle (exact BigInt, no rounding slack): for every successful swap out*P_out.max <= in*P_in.min + F where F = min(positive price impact value reported for the swap, (token_out-side swap-impact pool decrease)*P_out.max + (token_in-side swap-impact pool decrease)*P_in.min), both decreases read from the pool state before/after (the in-side decrease is the second-pool top-up of a capped positive impact, converted by the code at P_in.min like the input itself); when the charged fee is zero and the price impact is zero (and the impact pools did not move) out == floor(in*P_in.min / P_out.max). Non-trivial = a successful swap. distinct_nontrivial counts distinct behaviour classes (width, direction, impact sign, capped, top-up, zero fee, virtual inventory, spread classes, log2 buckets of in/pool and out/pool, frictionless)."
    };
    let mut mon = Monitor::new(args, rule);
    mon.assume(ASSUME_SCALE);
    mon.assume(ASSUME_ATOMIC);
    mon.assume(ASSUME_EXP);
    let histories = workload(args, 30_000, 330_000);
    let steps = 60;
    let tag = if is_c04 { 0xC04 } else { 0xC05 };
    run_shards(&mut mon, args.threads, N_SHARDS, |shard, m| {
        let mut rng = Rng::derive(args.seed, shard, tag);
        for h in 0..histories {
            if shard % 2 == 0 {
                let prop = if is_c04 { w64::SwapProp::C04 } else { w64::SwapProp::C05 };
                w64::swap_history(prop, &mut rng, m, steps, (shard, h));
            } else {
                let prop = if is_c04 { w128::SwapProp::C04 } else { w128::SwapProp::C05 };
                w128::swap_history(prop, &mut rng, m, steps, (shard, h));
            }
        }
    });
    require_both(&mut mon, "swap_ok", 2_000_000);
    require_both(&mut mon, "swap_fail", 1_000_000);
    require_both(&mut mon, "swap_ok_positive_impact", 400_000);
    require_both(&mut mon, "swap_ok_negative_impact", 400_000);
    require_both(&mut mon, "capped_positive_impact_seen", 40_000);
    require_both(&mut mon, "second_pool_topup_seen", 10_000);
    require_both(&mut mon, "swap_ok_with_spread", 1_000_000);
    if is_c04 {
        require_both(&mut mon, "swap_fail: max_pool_amount_exceeded", 50_000);
        require_both(&mut mon, "swap_fail: insufficient_reserve", 5_000);
        require_both(&mut mon, "virtual_inventory_delta_checked", 400_000);
    } else {
        require_both(&mut mon, "exact_conversion_checked", 400_000);
        require_both(&mut mon, "exact_conversion_checked_with_spread", 300_000);
        require_both(&mut mon, "bound_checked_with_funded_positive_impact", 300_000);
    }
    mon.finish()
}

fn run_lp(args: &Args) -> i32 {
    let rule = "C06. Cases: random histories (deposits on one or both sides, withdrawals incl. the whole supply, swaps, position increases/decreases creating pnl / position impact pool / accrued borrowing fees, clock advances, price moves with spreads, re-configuration) over production-like and adversarial configurations, both number widths. Every deposit and withdrawal is preceded by the program's pre-execute (distribute position impact, update borrowing, update funding) at the same timestamp, exactly as programs/store/src/ops/market.rs does. (a) round trip, on a copy of the reached state: deposit, then immediately withdraw all minted tokens at the same prices: value_out (outputs at MAX prices) <= value_in (inputs at MIN prices); a gain is classified by where it comes from (no positive impact / within the positive swap impact the deposit was funded with / beyond it / ownerless pool value at zero supply) and each class is a distinct violation signature. (b) every deposit and withdrawal leg (probes and history ops): with pool value V recomputed exactly in BigInt (tokens at picked price + pool share of accrued unpaid borrowing fees - capped net pnl - position impact pool) and cross-checked against the real pool_value, the aggregate value of the other LPs' tokens (others*V/supply as an exact rational) must not drop by more than the explicit rounding allowance: deposit leg, maximised/MaxAfterDeposit valuation (the one the deposit prices with): 4 market-token base units at the post-deposit token value (one per usd_to_market_token_amount rounding); withdrawal leg, minimised/MaxAfterWithdrawal and maximised/MaxAfterDeposit valuations: 1 base unit of each output token at its max price + 3 USD base units (the two price divisions, the market-token value and the two value splits). On the unchanged code every rounding favours the remaining LPs, so even drops inside the allowance are counted separately (expected 0). (c) a deposit at zero supply into an empty liquidity pool: sum over sides of floor(net_side*P_side.min/divisor) <= minted <= floor(sum(net_side*P_side.min)/divisor), net_side = tokens that entered the liquidity pool minus the pool's fee share. Non-trivial = a completed round trip or a first deposit that minted > 0. distinct_nontrivial counts behaviour classes (width, one/two-sided, impact sign, funded impact, open interest present, impact pool present, zero supply, spread classes, log2 bucket of the round-trip loss).";
    let mut mon = Monitor::new(args, rule);
    mon.assume(ASSUME_SCALE);
    mon.assume(ASSUME_ATOMIC);
    mon.assume(ASSUME_EXP);
    mon.assume("deposit and withdrawal legs run right after the program's pre-execute (update_fees_state) at the same timestamp; the reference pool valuation is only defined for such states (borrowing and distribution clocks current)");
    mon.assume("the deposit leg is not asserted under the minimised/MaxAfterWithdrawal valuation: with max_pnl_factor_for_withdrawals < max_pnl_factor_for_deposits that valuation legitimately moves against existing LPs when pending pnl is between the two caps");
    let histories = workload(args, 22_000, 160_000);
    let steps = 50;
    run_shards(&mut mon, args.threads, N_SHARDS, |shard, m| {
        let mut rng = Rng::derive(args.seed, shard, 0xC06);
        for h in 0..histories {
            if shard % 2 == 0 {
                w64::lp_history(&mut rng, m, steps, (shard, h));
            } else {
                w128::lp_history(&mut rng, m, steps, (shard, h));
            }
        }
    });
    require_both(&mut mon, "round_trip_completed", 500_000);
    require_both(&mut mon, "round_trip_with_funded_positive_impact", 50_000);
    require_both(&mut mon, "first_deposit_seen", 90_000);
    require_both(&mut mon, "first_deposit_two_sided_seen", 30_000);
    require_both(&mut mon, "others_value_checked deposit max/deposit", 800_000);
    require_both(&mut mon, "others_value_checked withdraw min/withdrawal", 700_000);
    require_both(&mut mon, "others_value_checked withdraw max/deposit", 700_000);
    require_both(&mut mon, "leg_with_open_pnl", 200_000);
    require_both(&mut mon, "leg_with_pending_borrowing", 100_000);
    require_both(&mut mon, "leg_with_position_impact_pool", 200_000);
    require_both(&mut mon, "pool_value_cross_checked", 4_000_000);
    mon.finish()
}

fn run_dist(args: &Args) -> i32 {
    let rule = "C14. Part 1 (site `pending`): PositionImpactMarketExt::pending_position_impact_pool_distribution_amount(dt) on directly constructed states: pool amount in {0, floor-1, floor, floor+1, floor+small, type max, biased, log-uniform}, floor and distribute factor in {0, default, 1, UNIT-1, UNIT, log-uniform, type-biased}, dt in {0, 1, seconds..years, u64::MAX, MAX-k, uniform, biased, log-uniform}. Part 2 (site `distribute`): histories of the real DistributePositionImpact action on a virtual clock (advance by 0 / small / huge, distribute repeatedly, pool moved by real position increases/decreases and by direct injection, parameters changed, deposits running the pre-execute). Oracle (exact BigInt): distributed == min(floor(dt*distribute_factor/UNIT), max(0, pool-floor)) (0 when the factor is 0), next == pool - distributed <= pool, pool >= floor => next >= floor, pool < floor => nothing distributed; for the action additionally: reported duration == now - last distribution, stored pool == reported next == old - distributed, short side and every other pool untouched, clock advanced; Err is accepted only when floor(dt*factor/UNIT) does not fit the number type (the documented intermediate), and is then restored by the driver. Non-trivial = any decided Ok case; distinct_nontrivial counts classes (width, site, pool vs floor relation, factor zero, dt zero, capped, distributed zero, log2 buckets of dt, factor/UNIT, pool/floor).";
    let mut mon = Monitor::new(args, rule);
    mon.assume(ASSUME_ATOMIC);
    mon.assume("rate*elapsed is read as the code documents it: apply_factor(duration_in_seconds, distribute_factor) = floor(dt*factor/UNIT)");
    let pure_cases = workload(args, 3_000_000, 27_000_000);
    let histories = workload(args, 4_000, 36_000);
    let steps = 60;
    run_shards(&mut mon, args.threads, N_SHARDS, |shard, m| {
        let mut rng = Rng::derive(args.seed, shard, 0xC14);
        if shard % 2 == 0 {
            w64::dist_pure_cases(&mut rng, m, pure_cases, shard);
        } else {
            w128::dist_pure_cases(&mut rng, m, pure_cases, shard);
        }
        for h in 0..histories {
            if shard % 2 == 0 {
                w64::dist_history(&mut rng, m, steps, (shard, h));
            } else {
                w128::dist_history(&mut rng, m, steps, (shard, h));
            }
        }
    });
    require_both(&mut mon, "pending_ok", 9_000_000);
    require_both(&mut mon, "distribute_ok", 300_000);
    require_both(&mut mon, "distribute_repeated_immediately", 100_000);
    require_both(&mut mon, "capped_at_excess_over_floor", 1_000_000);
    require_both(&mut mon, "rate_limited", 1_000_000);
    require_both(&mut mon, "started_below_floor", 2_000_000);
    require_both(&mut mon, "zero_elapsed", 1_800_000);
    require_both(&mut mon, "huge_elapsed", 3_000_000);
    require_both(&mut mon, "pool_moved_by_position_action", 10_000);
    mon.finish()
}
