use vcommon::Args;

pub fn run(_args: &Args) -> Option<i32> {
    None
}
