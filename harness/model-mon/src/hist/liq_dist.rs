// Included per instantiation (see liq.rs). C14: position impact distribution respects the floor.

/// Expected `(distributed, next)` for pool amount `pool`, floor `min`, `factor`
/// (tokens per second scaled by UNIT — `apply_factor(duration, distribute_factor)` is how the code
/// documents "rate · elapsed seconds") and `dt` seconds; plus whether the uncapped product fits `T`.
fn expected_distribution(pool: T, min: T, factor: T, dt: u64) -> (BigInt, BigInt, bool) {
    let raw = div_floor(&(BigInt::from(dt) * bi(factor)), &bi(UNIT));
    let fits = raw <= bi(T::MAX);
    let excess = (bi(pool) - bi(min)).max(zero());
    let d = if factor == 0 { zero() } else { raw.min(excess) };
    let next = bi(pool) - &d;
    (d, next, fits)
}

fn gen_dt(rng: &mut Rng) -> u64 {
    match rng.below(12) {
        0 | 1 => 0,
        2 => 1,
        3 => rng.range(2, 120),
        4 => rng.range(120, 86_400),
        5 => rng.range(86_400, 400 * 86_400),
        6 => u64::MAX,
        7 => u64::MAX - rng.range(0, 3),
        8 => rng.next_u64(),
        9 => rng.biased_u64(u64::MAX, 1_000_000_000),
        _ => rng.log_u64(u64::MAX),
    }
}

fn gen_pool_amount(rng: &mut Rng, min: T) -> T {
    match rng.below(10) {
        0 => 0,
        1 => min,
        2 => min.saturating_add(1),
        3 => min.saturating_sub(1),
        4 => min.saturating_add(rng.range(2, 1000) as T),
        5 => T::MAX,
        6 => rng.biased_u128(T::MAX as u128, UNIT as u128) as T,
        7 => t_sat(rng.log_u128(S::MAX as u128)),
        _ => t_sat(rng.log_u128(S::MAX as u128 >> 20)),
    }
}

fn dist_witness(loc: (u64, u64, u64), site: &str, pool: T, min: T, factor: T, dt: u64, extra: Value) -> Value {
    json!({
        "shard": loc.0, "history": loc.1, "step": loc.2, "width": LABEL, "site": site,
        "position_impact_pool_amount": pool.to_string(),
        "min_position_impact_pool_amount": min.to_string(),
        "distribute_factor": factor.to_string(),
        "duration_in_seconds": dt,
        "observed": extra,
    })
}

fn dist_class_sig(site: &str, pool: T, min: T, factor: T, dt: u64, d: &BigInt) -> Vec<u8> {
    let rel = if pool < min { 0u8 } else if pool == min { 1 } else { 2 };
    let capped = *d == bi(pool) - bi(min) && rel == 2;
    let mut sig = format!("{LABEL}|{site}|rel{rel}|f0{}|dt0{}|cap{capped}|d0{}|", factor == 0, dt == 0, d.is_zero()).into_bytes();
    sig.push((log_ratio_bucket(&BigInt::from(dt), &BigInt::from(1u8)) / 4) as u8);
    sig.push((log_ratio_bucket(&bi(factor), &bi(UNIT)) / 4) as u8);
    sig.push((log_ratio_bucket(&bi(pool), &bi(min.max(1))) / 4) as u8);
    sig
}

/// Decide one observed `(distributed, next)` (or failure) against the oracle. Returns the
/// expected distributed amount when the observation was `Ok`.
#[allow(clippy::too_many_arguments)]
fn judge_distribution(
    mon: &mut Monitor,
    site: &'static str,
    loc: (u64, u64, u64),
    pool: T,
    min: T,
    factor: T,
    dt: u64,
    observed: &Outcome<(T, T)>,
) {
    mon.eval();
    let (d, next, fits) = expected_distribution(pool, min, factor, dt);
    match observed {
        Outcome::Panic(msg) => {
            cnt(mon, "panics");
            if mon.wants_sample() {
                mon.sample(json!({"kind": "panic", "site": site, "message": msg}));
            }
        }
        Outcome::Err(class) => {
            cnt(mon, &format!("{site}_fail: {class}"));
            // The only documented reason to refuse: the uncapped `duration·factor/UNIT` does not
            // fit the number type (and the early-return cases did not apply).
            let early_return = factor == 0 || pool <= min;
            // The action (not the pure function) applies the amount as a signed delta: an amount
            // above the signed range is refused with a conversion error.
            let exceeds_signed = site == "distribute" && d > bs(S::MAX);
            if exceeds_signed {
                cnt(mon, "refused_amount_exceeds_signed_range");
            } else if fits || early_return {
                mon.violation(
                    &format!("C14:{site}:fails_although_amount_is_representable"),
                    dist_witness(loc, site, pool, min, factor, dt, json!({"error_class": class, "expected_distributed": s(&d)})),
                );
            } else {
                cnt(mon, "refused_uncapped_amount_overflow");
            }
        }
        Outcome::Ok((got_d, got_next)) => {
            cnt(mon, &format!("{site}_ok"));
            let (gd, gn) = (bi(*got_d), bi(*got_next));
            if gd != d {
                mon.violation(
                    &format!("C14:{site}:distributed_differs_from_min_of_rate_times_dt_and_excess"),
                    dist_witness(loc, site, pool, min, factor, dt, json!({"distributed": s(&gd), "next": s(&gn), "expected_distributed": s(&d)})),
                );
            }
            if gn != next || gn > bi(pool) {
                mon.violation(
                    &format!("C14:{site}:next_amount_is_not_pool_minus_distributed"),
                    dist_witness(loc, site, pool, min, factor, dt, json!({"distributed": s(&gd), "next": s(&gn), "expected_next": s(&next)})),
                );
            }
            if pool >= min && gn < bi(min) {
                mon.violation(
                    &format!("C14:{site}:crossed_the_floor_from_above"),
                    dist_witness(loc, site, pool, min, factor, dt, json!({"distributed": s(&gd), "next": s(&gn)})),
                );
            }
            if pool > min && !d.is_zero() {
                cnt(mon, "distributed_nonzero");
                if d == bi(pool) - bi(min) {
                    cnt(mon, "capped_at_excess_over_floor");
                } else {
                    cnt(mon, "rate_limited");
                }
            }
            if pool < min {
                cnt(mon, "started_below_floor");
            }
            if dt == 0 {
                cnt(mon, "zero_elapsed");
            }
            if dt > 100 * 365 * 86_400 {
                cnt(mon, "huge_elapsed");
            }
            mon.nontrivial(&dist_class_sig(site, pool, min, factor, dt, &d));
            if mon.wants_sample() && mon.counter(&key("distributed_nonzero")) % 50_000 == 1 && !d.is_zero() {
                mon.sample(dist_witness(loc, site, pool, min, factor, dt, json!({"distributed": s(&gd), "next": s(&gn)})));
            }
        }
    }
}

/// Part 1: the pure function `pending_position_impact_pool_distribution_amount(dt)` on directly
/// constructed states.
pub fn dist_pure_cases(rng: &mut Rng, mon: &mut Monitor, n: u64, shard: u64) {
    let mag = gen_mag(rng);
    let mut m = Mkt::with_config(Default::default());
    for i in 0..n {
        if i % 4 == 0 {
            m.config.position_impact_distribution_params = gen_distribution(rng, &mag);
        }
        let params = m.config.position_impact_distribution_params;
        let (min, factor) = (*params.min_position_impact_pool_amount(), *params.distribute_factor());
        let pool = gen_pool_amount(rng, min);
        m.position_impact.long_amount = pool;
        m.position_impact.short_amount = 0;
        let dt = gen_dt(rng);
        let out = {
            let m = &m;
            attempt(|| m.pending_position_impact_pool_distribution_amount(dt))
        };
        judge_distribution(mon, "pending", (shard, 0, i), pool, min, factor, dt, &out);
    }
}

/// Part 2: histories of the real `DistributePositionImpact` action with a virtual clock, pool
/// changes through real position actions and through direct injection, parameter changes.
pub fn dist_history(rng: &mut Rng, mon: &mut Monitor, steps: u64, loc: (u64, u64)) {
    let mut w = World::new(rng);
    cnt(mon, "histories");
    w.m.config.position_impact_distribution_params = gen_distribution(rng, &w.mag);
    // Liquidity so that positions can be opened.
    w.bg_deposit(rng, mon, true);
    w.bg_deposit(rng, mon, true);
    // weights: distribute, advance, inject pool amount, new params, increase, decrease, move prices,
    // deposit (runs the pre-execute, i.e. another distribution)
    let weights = [40u32, 22, 8, 5, 10, 6, 6, 3];
    let mut since_activity = true;
    for step in 1..=steps {
        let l = (loc.0, loc.1, step);
        match rng.weighted(&weights) {
            0 => {
                distribute_checked(&mut w, mon, l, since_activity);
                since_activity = false;
            }
            1 => {
                // Mostly realistic steps; a huge jump saturates the virtual clock for the rest of
                // the history, so keep those rare here (the pure part covers huge `dt` densely).
                let dt = match rng.below(20) {
                    0..=2 => 0,
                    3..=12 => rng.range(1, 7200),
                    13..=17 => rng.range(7200, 3 * 365 * 86_400),
                    _ => gen_dt(rng),
                };
                w.m.advance(dt);
                cnt(mon, "bg_advance");
                since_activity = true;
            }
            2 => {
                let min = *w.m.config.position_impact_distribution_params.min_position_impact_pool_amount();
                w.m.position_impact.long_amount = gen_pool_amount(rng, min);
                cnt(mon, "pool_amount_injected");
                since_activity = true;
            }
            3 => {
                w.m.config.position_impact_distribution_params = gen_distribution(rng, &w.mag);
                cnt(mon, "params_changed");
                since_activity = true;
            }
            4 => {
                let before = w.m.position_impact.long_amount;
                w.bg(Bg::Increase, rng, mon);
                if w.m.position_impact.long_amount != before {
                    cnt(mon, "pool_moved_by_position_action");
                }
                since_activity = true;
            }
            5 => {
                let before = w.m.position_impact.long_amount;
                w.bg(Bg::Decrease, rng, mon);
                if w.m.position_impact.long_amount != before {
                    cnt(mon, "pool_moved_by_position_action");
                }
                since_activity = true;
            }
            6 => w.bg(Bg::MovePrices, rng, mon),
            _ => {
                w.bg(Bg::Deposit, rng, mon);
                since_activity = true;
            }
        }
    }
}

fn distribute_checked(w: &mut World, mon: &mut Monitor, loc: (u64, u64, u64), since_activity: bool) {
    let pre = w.m.clone();
    let params = pre.config.position_impact_distribution_params;
    let (min, factor) = (*params.min_position_impact_pool_amount(), *params.distribute_factor());
    let pool = pre.position_impact.long_amount;
    let dt = clock_age(&pre, ClockKind::PriceImpactDistribution);
    let out = atomic(&mut w.m, |m| {
        let r = m.distribute_position_impact()?.execute()?;
        Ok((r.duration_in_seconds(), *r.distribution_amount(), *r.next_position_impact_pool_amount()))
    });
    cnt(mon, "distribute_calls");
    if !since_activity {
        cnt(mon, "distribute_repeated_immediately");
    }
    let judged: Outcome<(T, T)> = match &out {
        Outcome::Ok((_, d, n)) => Outcome::Ok((*d, *n)),
        Outcome::Err(c) => Outcome::Err(c.clone()),
        Outcome::Panic(p) => Outcome::Panic(p.clone()),
    };
    judge_distribution(mon, "distribute", loc, pool, min, factor, dt, &judged);
    if let Outcome::Ok((rep_dt, d, n)) = out {
        let post = &w.m;
        let mut problems = vec![];
        if rep_dt != dt {
            problems.push("reported duration differs from the clock");
        }
        if post.position_impact.long_amount != n {
            problems.push("stored pool amount differs from the reported next amount");
        }
        if bi(post.position_impact.long_amount) != bi(pool) - bi(d) {
            problems.push("stored pool amount is not the old amount minus the distributed amount");
        }
        if post.position_impact.long_amount > pool {
            problems.push("pool amount increased");
        }
        if post.position_impact.short_amount != pre.position_impact.short_amount {
            problems.push("short side of the position impact pool changed");
        }
        if !diff_state(&pre, post, &["position_impact", "clocks"]).is_empty() {
            problems.push("another pool changed");
        }
        if clock_age(post, ClockKind::PriceImpactDistribution) != 0 {
            problems.push("distribution clock not advanced");
        }
        if !problems.is_empty() {
            mon.violation(
                "C14:distribute:state_after_distribution_inconsistent",
                dist_witness(loc, "distribute", pool, min, factor, dt, json!({
                    "problems": problems, "distributed": d.to_string(), "next": n.to_string(),
                    "pre_state": market_json(&pre), "post_state": market_json(post)})),
            );
        }
    }
}
