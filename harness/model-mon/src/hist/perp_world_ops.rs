// Included into `perp_world.rs` (same module, same imports).

use gmsol_model::action::{
    decrease_position::DecreasePositionReport, increase_position::IncreasePositionReport,
};
use std::collections::BTreeSet;

pub type IncReport = IncreasePositionReport<T, S>;
pub type DecReport = Box<DecreasePositionReport<T, S>>;

// ---------------------------------------------------------------------------------------------
// Atomic execution helpers (snapshot / restore on Err or panic)
// ---------------------------------------------------------------------------------------------

#[derive(Debug)]
pub enum Fail {
    Err(gmsol_model::Error),
    Panic(String),
}

impl Fail {
    pub fn class(&self) -> String {
        match self {
            Fail::Panic(_) => "panic".to_string(),
            Fail::Err(e) => err_class(e),
        }
    }
    pub fn is_not_liquidatable(&self) -> bool {
        matches!(self, Fail::Err(gmsol_model::Error::NotLiquidatable))
    }
}

pub fn err_class(e: &gmsol_model::Error) -> String {
    use gmsol_model::Error as E;
    fn slug(s: &str) -> String {
        s.chars()
            .map(|c| if c.is_ascii_alphanumeric() { c } else { '_' })
            .take(48)
            .collect()
    }
    match e {
        E::InvalidArgument(s) => format!("InvalidArgument_{}", slug(s)),
        E::Computation(s) => format!("Computation_{}", slug(s)),
        E::InvalidPosition(s) => format!("InvalidPosition_{}", slug(s)),
        E::Liquidatable(r) => format!("Liquidatable_{}", slug(&format!("{r:?}"))),
        E::InsufficientFundsToPayForCosts(s) => format!("InsufficientFunds_{s:?}"),
        other => {
            let d = format!("{other:?}");
            d.split(['(', ' ', '{']).next().unwrap_or("Error").to_string()
        }
    }
}

fn settle<R>(
    r: Result<gmsol_model::Result<R>, String>,
    m: &mut Mkt,
    sm: Mkt,
    p: Option<(&mut Pos, Pos)>,
) -> Result<R, Fail> {
    match r {
        Ok(Ok(rep)) => Ok(rep),
        other => {
            *m = sm;
            if let Some((p, sp)) = p {
                *p = sp;
            }
            Err(match other {
                Ok(Err(e)) => Fail::Err(e),
                Err(s) => Fail::Panic(s),
                Ok(Ok(_)) => unreachable!(),
            })
        }
    }
}

pub fn do_increase(
    m: &mut Mkt,
    p: &mut Pos,
    prices: Prices<T>,
    collateral: T,
    size: T,
    acceptable: Option<T>,
) -> Result<IncReport, Fail> {
    let (sm, sp) = (m.clone(), *p);
    let r = guard(|| {
        p.ops(m)
            .increase(prices, collateral, size, acceptable)
            .and_then(|a| a.execute())
    });
    settle(r, m, sm, Some((p, sp)))
}

#[derive(Debug, Clone, Copy)]
pub struct DecArgs {
    pub size_delta: T,
    pub withdraw: T,
    pub acceptable: Option<T>,
    pub insolvent: bool,
    pub liquidation: bool,
    pub cap: bool,
    pub swap: u8,
}

impl DecArgs {
    pub fn plain(size_delta: T, withdraw: T) -> Self {
        DecArgs {
            size_delta,
            withdraw,
            acceptable: None,
            insolvent: false,
            liquidation: false,
            cap: false,
            swap: 0,
        }
    }
    pub fn swap_type(&self) -> DecreasePositionSwapType {
        match self.swap {
            1 => DecreasePositionSwapType::PnlTokenToCollateralToken,
            2 => DecreasePositionSwapType::CollateralToPnlToken,
            _ => DecreasePositionSwapType::NoSwap,
        }
    }
    pub fn json(&self) -> Value {
        json!({
            "size_delta_usd": self.size_delta.to_string(),
            "collateral_withdrawal_amount": self.withdraw.to_string(),
            "acceptable_price": self.acceptable.map(|x| x.to_string()),
            "is_insolvent_close_allowed": self.insolvent,
            "is_liquidation_order": self.liquidation,
            "is_cap_size_delta_usd_allowed": self.cap,
            "swap": format!("{:?}", self.swap_type()),
        })
    }
}

pub fn do_decrease(
    m: &mut Mkt,
    p: &mut Pos,
    prices: Prices<T>,
    a: &DecArgs,
) -> Result<DecReport, Fail> {
    let (sm, sp) = (m.clone(), *p);
    let flags = DecreasePositionFlags {
        is_insolvent_close_allowed: a.insolvent,
        is_liquidation_order: a.liquidation,
        is_cap_size_delta_usd_allowed: a.cap,
    };
    let swap = a.swap_type();
    let r = guard(|| {
        p.ops(m)
            .decrease(prices, a.size_delta, a.acceptable, a.withdraw, flags)
            .map(|x| x.set_swap(swap))
            .and_then(|x| x.execute())
    });
    settle(r, m, sm, Some((p, sp)))
}

/// distribute position impact + update borrowing + update funding, as `update_fees_state`.
pub fn do_update_fees(m: &mut Mkt, prices: &Prices<T>) -> Result<(), Fail> {
    let sm = m.clone();
    let r = guard(|| {
        m.distribute_position_impact()?.execute()?;
        m.update_borrowing(prices)?.execute()?;
        m.update_funding(prices)?.execute()?;
        Ok(())
    });
    settle(r, m, sm, None)
}

// ---------------------------------------------------------------------------------------------
// Real / oracle health comparison (C09)
// ---------------------------------------------------------------------------------------------

/// Real `check_liquidatable`; `Ok(Health)` or the error class.
pub fn real_health(
    m: &Mkt,
    p: &Pos,
    prices: &Prices<T>,
    validate: bool,
    for_liq: bool,
) -> Result<Health, String> {
    use gmsol_model::position::LiquidatableReason as R;
    let mut mm = m.clone();
    let mut pp = *p;
    let r = guard(|| pp.ops(&mut mm).check_liquidatable(prices, validate, for_liq));
    match r {
        Ok(Ok(None)) => Ok(Health::Sufficient),
        Ok(Ok(Some(R::MinCollateral))) => Ok(Health::MinCollateral),
        Ok(Ok(Some(R::NotPositive))) => Ok(Health::NotPositive),
        Ok(Ok(Some(R::MinCollateralForLeverage))) => Ok(Health::MinCollateralForLeverage),
        Ok(Err(e)) => Err(err_class(&e)),
        Err(_) => Err("panic".into()),
    }
}

/// BigInt recomputation (price-impact value taken from the real `position_price_impact`).
pub fn oracle_health(
    m: &Mkt,
    p: &Pos,
    prices: &Prices<T>,
    validate: bool,
    for_liq: bool,
) -> Option<oracle::HealthOut> {
    if p.size_in_usd > (S::MAX as T) {
        return None;
    }
    let delta: S = -(p.size_in_usd as S);
    let mut mm = m.clone();
    let mut pp = *p;
    let imp = guard(|| pp.ops(&mut mm).position_price_impact(&delta, true))
        .ok()?
        .ok()?;
    oracle::check_liquidatable(
        m,
        p,
        prices,
        validate,
        for_liq,
        &bs(imp.value),
        imp.balance_change,
    )
}

// ---------------------------------------------------------------------------------------------
// Reporting context
// ---------------------------------------------------------------------------------------------

pub struct Cx<'a> {
    pub m: &'a mut Monitor,
    pub prop: Prop,
    pub seed: u64,
    pub shard: u64,
    emitted: BTreeSet<String>,
    nontrivial_seen: u64,
}

/// Distinct-counting is done on the first `NONTRIVIAL_PER_SHARD` non-trivial cases of a shard
/// (bounds memory; the count reported is therefore a lower bound).
const NONTRIVIAL_PER_SHARD: u64 = 1500;

impl<'a> Cx<'a> {
    pub fn nontrivial(&mut self, sig: &[u8]) {
        self.nontrivial_seen += 1;
        self.m.count("nontrivial_cases");
        if self.nontrivial_seen <= NONTRIVIAL_PER_SHARD {
            self.m.nontrivial(sig);
        }
    }
    pub fn new(m: &'a mut Monitor, prop: Prop, seed: u64, shard: u64) -> Self {
        Cx {
            m,
            prop,
            seed,
            shard,
            emitted: BTreeSet::new(),
            nontrivial_seen: 0,
        }
    }
    /// Report a violation; the (expensive) witness is only built for the first hit of a signature.
    pub fn violation(&mut self, sig: &str, witness: impl FnOnce() -> Value) {
        if self.emitted.insert(sig.to_string()) {
            let mut w = witness();
            if let Some(o) = w.as_object_mut() {
                o.insert("instantiation".into(), json!(TAG));
                o.insert("shard".into(), json!(self.shard));
                o.insert("seed".into(), json!(self.seed));
            }
            self.m.violation(sig, w);
        } else {
            self.m.violation(sig, Value::Null);
        }
    }
    pub fn count(&mut self, k: &str) {
        self.m.count(k);
    }
    pub fn is(&self, p: Prop) -> bool {
        self.prop == p
    }
}

// ---------------------------------------------------------------------------------------------
// World
// ---------------------------------------------------------------------------------------------

#[derive(Debug, Clone, Copy, PartialEq, Eq)]
pub struct RefPos {
    pub size: T,
    pub tokens: T,
    pub collateral: T,
    pub bf: T,
}

#[derive(Debug, Clone, Default)]
pub struct Ledger {
    /// Shadow vault per token (0 = long token, 1 = short token), fed from reports only.
    pub vault: [BigInt; 2],
    /// Funding collected (per reports / events) minus funding claimed.
    pub fund: [BigInt; 2],
    /// Sum of reported shortfalls (cost - paid in collateral token) per collateral token.
    pub shortfall: [BigInt; 2],
}

fn tok(is_long_token: bool) -> usize {
    if is_long_token {
        0
    } else {
        1
    }
}

#[derive(Clone)]
pub struct World {
    pub market: Mkt,
    pub positions: Vec<Pos>,
    pub refs: Vec<Option<RefPos>>,
    pub prices: Prices<T>,
    pub base: PriceBase,
    pub base0: PriceBase,
    pub info: CfgInfo,
    pub ledger: Ledger,
    pub lp_tokens: T,
    pub pool_usd: u128,
    pub world_idx: u64,
    pub step: u64,
    /// Description of the last operation (inputs + outcome summary), for witnesses.
    pub last_op: Value,
    /// Successful decrease of the current step: (collateral is long token, output token != secondary
    /// token, fee cost excluding funding as reported).
    pub last_dec: Option<(bool, bool, BigInt)>,
    /// Report of the successful decrease of the current step (formatted lazily for witnesses).
    pub last_report: Option<DecReport>,
    prev_idx: [T; 8],
    prev_bf: [T; 2],
}

fn fresh(is_long: bool, collateral_long: bool) -> Pos {
    if is_long {
        Pos::long(collateral_long)
    } else {
        Pos::short(collateral_long)
    }
}

fn amount_for_usd(usd_value: u128, price: T) -> T {
    t(usd_value / u(price).max(1))
}

impl World {
    pub fn new(rng: &mut Rng, world_idx: u64, cx: &mut Cx) -> Option<World> {
        let (cfg, info) = gen_config(rng);
        let mut market = Mkt::with_config(cfg);
        if info.vi_positions {
            market.vi_positions = Some(MonPool::default());
        }
        if info.vi_swaps {
            market.vi_swaps = Some(MonPool::default());
        }
        market.now = 1_000_000 + rng.below(1_000_000);
        let base = gen_price_base(rng);
        let prices = prices_from(rng, &base);
        // LP funding: USD value per side.
        let (lo, hi): (u128, u128) = if is_wide() {
            (100_000, 100_000_000)
        } else {
            (10_000, 300_000)
        };
        let pool_usd = lo + rng.log_u128(hi - lo);
        let n = rng.range(2, 6) as usize;
        let mut combos = [(true, true), (true, false), (false, true), (false, false)];
        rng.shuffle(&mut combos);
        let mut positions = vec![];
        for i in 0..n {
            let (l, c) = if i < 4 {
                combos[i]
            } else {
                (rng.bool(), rng.bool())
            };
            positions.push(fresh(l, c));
        }
        let mut w = World {
            market,
            refs: vec![None; positions.len()],
            positions,
            prices,
            base,
            base0: base,
            info,
            ledger: Ledger::default(),
            lp_tokens: 0,
            pool_usd,
            world_idx,
            step: 0,
            last_op: Value::Null,
            last_dec: None,
            last_report: None,
            prev_idx: [0; 8],
            prev_bf: [0; 2],
        };
        let long_amt = amount_for_usd(u(usd(pool_usd)), w.prices.long_token_price.max);
        let short_amt = amount_for_usd(u(usd(pool_usd)), w.prices.short_token_price.max);
        let ok1 = w.op_deposit(cx, long_amt, 0);
        let ok2 = w.op_deposit(cx, 0, short_amt);
        if !(ok1 && ok2) {
            cx.count("world_setup_failed");
            return None;
        }
        w.after_op(cx, "setup");
        Some(w)
    }

    // ----- helpers -------------------------------------------------------------------------

    fn witness(&self, what: Value) -> Value {
        json!({
            "world": self.world_idx,
            "step": self.step,
            "last_operation": self.last_op,
            "last_decrease_report": self.last_report.as_ref().map(|r| format!("{r:?}")),
            "config_class": self.info.class,
            "config_notes": self.info.notes,
            "prices": prices_json(&self.prices),
            "positions": self.positions.iter().map(pos_json).collect::<Vec<_>>(),
            "market": market_json(&self.market),
            "detail": what,
        })
    }

    pub fn holdings(&self, is_long_token: bool) -> BigInt {
        let m = &self.market;
        let pick = |p: &MonPool<T>| {
            if is_long_token {
                bi(p.long_amount)
            } else {
                bi(p.short_amount)
            }
        };
        pick(&m.primary)
            + pick(&m.swap_impact)
            + pick(&m.fee)
            + pick(&m.collateral_sum.0)
            + pick(&m.collateral_sum.1)
    }

    fn open_indices(&self) -> Vec<usize> {
        (0..self.positions.len())
            .filter(|i| self.positions[*i].size_in_usd != 0)
            .collect()
    }

    fn sync_ref(&mut self, i: usize) {
        let p = &self.positions[i];
        if p.size_in_usd == 0 && p.size_in_tokens == 0 && p.collateral_token_amount == 0 {
            self.refs[i] = None;
        } else {
            self.refs[i] = Some(RefPos {
                size: p.size_in_usd,
                tokens: p.size_in_tokens,
                collateral: p.collateral_token_amount,
                bf: p.borrowing_factor,
            });
        }
    }

    fn take_events(&mut self) -> Vec<MonEvent<T>> {
        std::mem::take(&mut self.market.events)
    }

    // ----- liquidity / swap ops --------------------------------------------------------------

    pub fn op_deposit(&mut self, cx: &mut Cx, long: T, short: T) -> bool {
        self.last_op = json!({"op": "deposit", "long": long.to_string(), "short": short.to_string()});
        let sm = self.market.clone();
        let prices = self.prices;
        let m = &mut self.market;
        let r = guard(|| m.deposit(long, short, prices).and_then(|a| a.execute()));
        match settle(r, &mut self.market, sm, None) {
            Ok(rep) => {
                cx.count("op_deposit_ok");
                self.ledger.vault[0] += bi(long);
                self.ledger.vault[1] += bi(short);
                self.lp_tokens = self.lp_tokens.saturating_add(*rep.minted());
                if cx.is(Prop::C08) {
                    cx.nontrivial(
                        format!("{TAG}|deposit|{long}|{short}|{}", rep.minted()).as_bytes(),
                    );
                }
                true
            }
            Err(f) => {
                cx.count("op_failed");
                cx.count(&format!("deposit_fail_{}", f.class()));
                false
            }
        }
    }

    fn op_withdraw(&mut self, cx: &mut Cx, amount: T) {
        self.last_op = json!({"op": "withdraw", "market_token_amount": amount.to_string()});
        let sm = self.market.clone();
        let prices = self.prices;
        let m = &mut self.market;
        let r = guard(|| m.withdraw(amount, prices).and_then(|a| a.execute()));
        match settle(r, &mut self.market, sm, None) {
            Ok(rep) => {
                cx.count("op_withdraw_ok");
                self.ledger.vault[0] -= bi(*rep.long_token_output());
                self.ledger.vault[1] -= bi(*rep.short_token_output());
                self.lp_tokens = self.lp_tokens.saturating_sub(amount);
                if cx.is(Prop::C08) {
                    cx.nontrivial(
                        format!(
                            "{TAG}|withdraw|{amount}|{}|{}",
                            rep.long_token_output(),
                            rep.short_token_output()
                        )
                        .as_bytes(),
                    );
                }
            }
            Err(f) => {
                cx.count("op_failed");
                cx.count(&format!("withdraw_fail_{}", f.class()));
            }
        }
    }

    fn op_swap(&mut self, cx: &mut Cx, long_in: bool, amount: T) {
        self.last_op = json!({"op": "swap", "is_token_in_long": long_in, "amount": amount.to_string()});
        let sm = self.market.clone();
        let prices = self.prices;
        let m = &mut self.market;
        let r = guard(|| m.swap(long_in, amount, prices).and_then(|a| a.execute()));
        match settle(r, &mut self.market, sm, None) {
            Ok(rep) => {
                cx.count("op_swap_ok");
                self.ledger.vault[tok(long_in)] += bi(amount);
                self.ledger.vault[tok(!long_in)] -= bi(*rep.token_out_amount());
                if cx.is(Prop::C08) {
                    cx.nontrivial(
                        format!("{TAG}|swap|{long_in}|{amount}|{}", rep.token_out_amount())
                            .as_bytes(),
                    );
                }
            }
            Err(f) => {
                cx.count("op_failed");
                cx.count(&format!("swap_fail_{}", f.class()));
            }
        }
    }

    // ----- fee state ------------------------------------------------------------------------

    fn op_update_fees(&mut self, cx: &mut Cx, rng: &mut Rng) -> bool {
        if cx.is(Prop::C12) {
            probe::c12_observe_update(self, cx, rng);
        }
        match do_update_fees(&mut self.market, &self.prices) {
            Ok(()) => {
                cx.count("op_update_fees_ok");
                true
            }
            Err(f) => {
                cx.count("op_failed");
                cx.count(&format!("update_fees_fail_{}", f.class()));
                false
            }
        }
    }

    fn op_single_fee_action(&mut self, cx: &mut Cx, rng: &mut Rng) {
        let sm = self.market.clone();
        let prices = self.prices;
        let which = rng.below(3);
        if which == 2 && cx.is(Prop::C12) {
            probe::c12_observe_update(self, cx, rng);
        }
        let m = &mut self.market;
        let r = guard(|| -> gmsol_model::Result<()> {
            match which {
                0 => {
                    m.distribute_position_impact()?.execute()?;
                }
                1 => {
                    m.update_borrowing(&prices)?.execute()?;
                }
                _ => {
                    m.update_funding(&prices)?.execute()?;
                }
            }
            Ok(())
        });
        match settle(r, &mut self.market, sm, None) {
            Ok(()) => cx.count(match which {
                0 => "op_distribute_ok",
                1 => "op_update_borrowing_ok",
                _ => "op_update_funding_ok",
            }),
            Err(f) => {
                cx.count("op_failed");
                cx.count(&format!("fee_action_fail_{}", f.class()));
            }
        }
    }

    // ----- position ops ---------------------------------------------------------------------

    fn apply_funding_to_ledger(
        &mut self,
        collateral_long: bool,
        funding_amount: T,
        claim_long: T,
        claim_short: T,
        events: &[MonEvent<T>],
        cx: &mut Cx,
    ) {
        let mut paid = bi(funding_amount);
        for e in events {
            if let MonEvent::InsufficientFundingFeePayment {
                cost_amount,
                paid_in_collateral_amount,
                is_collateral_token_long,
                ..
            } = e
            {
                paid = bi(*paid_in_collateral_amount);
                self.ledger.shortfall[tok(*is_collateral_token_long)] +=
                    bi(*cost_amount) - bi(*paid_in_collateral_amount);
                cx.count("insufficient_funding_fee_events");
            }
        }
        if !paid.is_zero() {
            cx.count("funding_paid_ops");
        }
        if claim_long != 0 || claim_short != 0 {
            cx.count("funding_claimed_ops");
        }
        self.ledger.fund[tok(collateral_long)] += &paid;
        self.ledger.fund[0] -= bi(claim_long);
        self.ledger.fund[1] -= bi(claim_short);
        self.ledger.vault[0] -= bi(claim_long);
        self.ledger.vault[1] -= bi(claim_short);
    }

    pub fn op_increase(
        &mut self,
        cx: &mut Cx,
        i: usize,
        collateral: T,
        size: T,
        acceptable: Option<T>,
    ) -> bool {
        let prices = self.prices;
        let pre = self.positions[i];
        self.last_op = json!({"op": "increase", "position": i, "position_before": pos_json(&pre),
            "collateral_increment_amount": collateral.to_string(), "size_delta_usd": size.to_string(),
            "acceptable_price": acceptable.map(|x| x.to_string())});
        let res = do_increase(
            &mut self.market,
            &mut self.positions[i],
            prices,
            collateral,
            size,
            acceptable,
        );
        match res {
            Ok(rep) => {
                cx.count("op_increase_ok");
                if pre.size_in_usd == 0 {
                    cx.count("increase_opened");
                }
                if size == 0 {
                    cx.count("increase_collateral_only_ok");
                }
                let events = self.take_events();
                let (cl, cs) = rep.claimable_funding_amounts();
                let (cl, cs) = (*cl, *cs);
                self.ledger.vault[tok(pre.is_collateral_token_long)] += bi(collateral);
                self.apply_funding_to_ledger(
                    pre.is_collateral_token_long,
                    *rep.fees().funding_fees().amount(),
                    cl,
                    cs,
                    &events,
                    cx,
                );
                self.sync_ref(i);
                let sig = format!(
                    "{TAG}|inc|{}|{}|{}|{}|{}|{}",
                    pre.is_long,
                    pre.is_collateral_token_long,
                    pre.size_in_usd,
                    pre.collateral_token_amount,
                    collateral,
                    size
                );
                if cx.is(Prop::C07) || cx.is(Prop::C08) {
                    cx.nontrivial(sig.as_bytes());
                }
                if cx.m.wants_sample() && self.step % 17 == 3 {
                    cx.m.sample(json!({
                        "instantiation": TAG, "op": "increase", "position_before": pos_json(&pre),
                        "collateral_increment": collateral.to_string(), "size_delta_usd": size.to_string(),
                        "prices": prices_json(&prices),
                        "position_after": pos_json(&self.positions[i]),
                        "size_delta_in_tokens": rep.execution().size_delta_in_tokens().to_string(),
                        "price_impact_value": rep.execution().price_impact_value().to_string(),
                    }));
                }
                if cx.is(Prop::C09) {
                    self.c09_after_success(cx, i, "increase", true);
                }
                true
            }
            Err(f) => {
                cx.count("op_failed");
                cx.count(&format!("increase_fail_{}", f.class()));
                if matches!(f, Fail::Panic(_)) {
                    cx.count("panics");
                }
                false
            }
        }
    }

    /// Returns `Some(should_remove)` on success.
    pub fn op_decrease(&mut self, cx: &mut Cx, i: usize, a: &DecArgs, kind: &'static str) -> Option<bool> {
        let prices = self.prices;
        let pre = self.positions[i];
        let pre_market = if cx.is(Prop::C09) && a.liquidation {
            Some(self.market.clone())
        } else {
            None
        };
        self.last_op = json!({"op": format!("decrease/{kind}"), "position": i,
            "position_before": pos_json(&pre), "args": a.json()});
        let res = do_decrease(&mut self.market, &mut self.positions[i], prices, a);
        match res {
            Ok(rep) => {
                self.last_report = Some(rep.clone());
                cx.count("op_decrease_ok");
                cx.count(&format!("decrease_{kind}_ok"));
                let events = self.take_events();
                let removed = rep.should_remove();
                let post = self.positions[i];

                // --- observation classes
                let promoted = a.size_delta < pre.size_in_usd
                    && a.size_delta != 0
                    && *rep.size_delta_usd() == pre.size_in_usd;
                if promoted {
                    cx.count("promoted_to_full_close");
                    if let Some(dt) = oracle::size_delta_in_tokens(&pre, &bi(a.size_delta)) {
                        if dt >= bi(pre.size_in_tokens) {
                            cx.count("promoted_tokens_would_zero");
                        }
                    }
                }
                if a.size_delta == 0 && *rep.size_delta_usd() == pre.size_in_usd && pre.size_in_usd != 0 {
                    cx.count("promoted_collateral_only_to_full_close");
                }
                if !removed && *rep.size_delta_usd() != 0 && *rep.size_delta_in_tokens() == 0 {
                    cx.count("partial_token_delta_zero");
                }
                if a.cap && a.size_delta > pre.size_in_usd {
                    cx.count("decrease_capped_oversize_ok");
                }
                if let Some(step) = rep.insolvent_close_step() {
                    cx.count(&format!("insolvent_close_step_{step:?}"));
                }
                if *rep.secondary_output_amount() != 0 {
                    cx.count("decrease_with_secondary_output");
                }
                for e in &events {
                    match e {
                        MonEvent::Swapped { .. } => cx.count("decrease_swapped"),
                        MonEvent::SwapError { .. } => cx.count("decrease_swap_error"),
                        _ => {}
                    }
                }

                // --- C07: removed => empty
                if removed {
                    if cx.is(Prop::C07)
                        && (post.size_in_usd != 0
                            || post.size_in_tokens != 0
                            || post.collateral_token_amount != 0)
                    {
                        let w = self.witness(json!({"op": a.json(), "position_before": pos_json(&pre)}));
                        cx.violation("C07:decrease:removed_position_not_empty", || w);
                    }
                    // the program closes the account: start from a fresh position
                    self.positions[i] = fresh(pre.is_long, pre.is_collateral_token_long);
                }

                // --- C08 ledger
                self.last_dec = Some((
                    pre.is_collateral_token_long,
                    rep.is_output_token_long() != rep.is_secondary_output_token_long(),
                    rep.fees().total_cost_excluding_funding().map(bi).unwrap_or_default(),
                ));
                let out_long = rep.is_output_token_long();
                let sec_long = rep.is_secondary_output_token_long();
                let fh = rep.claimable_collateral_for_holding();
                let fu = rep.claimable_collateral_for_user();
                self.ledger.vault[tok(out_long)] -= bi(*rep.output_amount())
                    + bi(*fh.output_token_amount())
                    + bi(*fu.output_token_amount());
                self.ledger.vault[tok(sec_long)] -= bi(*rep.secondary_output_amount())
                    + bi(*fh.secondary_output_token_amount())
                    + bi(*fu.secondary_output_token_amount());
                if *fu.output_token_amount() != 0 || *fu.secondary_output_token_amount() != 0 {
                    cx.count("claimable_for_user_ops");
                }
                if *fh.output_token_amount() != 0 || *fh.secondary_output_token_amount() != 0 {
                    cx.count("claimable_for_holding_ops");
                }
                let (cl, cs) = rep.claimable_funding_amounts();
                let (cl, cs) = (*cl, *cs);
                self.apply_funding_to_ledger(
                    pre.is_collateral_token_long,
                    *rep.fees().funding_fees().amount(),
                    cl,
                    cs,
                    &events,
                    cx,
                );
                self.sync_ref(i);

                if cx.is(Prop::C07) || cx.is(Prop::C08) {
                    let sig = format!(
                        "{TAG}|dec|{kind}|{}|{}|{}|{}|{}|{}|{}|{removed}|{promoted}",
                        pre.is_long,
                        pre.is_collateral_token_long,
                        pre.size_in_usd,
                        pre.collateral_token_amount,
                        a.size_delta,
                        a.withdraw,
                        a.swap
                    );
                    cx.nontrivial(sig.as_bytes());
                }
                if cx.m.wants_sample() && self.step % 19 == 5 {
                    cx.m.sample(json!({
                        "instantiation": TAG, "op": format!("decrease/{kind}"), "args": a.json(),
                        "position_before": pos_json(&pre), "prices": prices_json(&prices),
                        "should_remove": removed,
                        "executed_size_delta_usd": rep.size_delta_usd().to_string(),
                        "size_delta_in_tokens": rep.size_delta_in_tokens().to_string(),
                        "output_amount": rep.output_amount().to_string(),
                        "secondary_output_amount": rep.secondary_output_amount().to_string(),
                        "pnl": rep.pnl().pnl().to_string(),
                    }));
                }

                // --- C09
                if cx.is(Prop::C09) {
                    if a.liquidation {
                        cx.count("liquidation_ok");
                        let pm = pre_market.as_ref().expect("pre market kept for liquidation");
                        self.c09_liquidation_succeeded(cx, pm, &pre, a, removed);
                    } else if !removed {
                        self.c09_after_success(cx, i, "decrease", false);
                    }
                } else if a.liquidation {
                    cx.count("liquidation_ok");
                }
                Some(removed)
            }
            Err(f) => {
                cx.count("op_failed");
                cx.count(&format!("decrease_fail_{}", f.class()));
                if matches!(f, Fail::Panic(_)) {
                    cx.count("panics");
                }
                if a.liquidation && f.is_not_liquidatable() {
                    cx.count("liquidation_rejected_not_liquidatable");
                    if cx.is(Prop::C09) {
                        self.c09_liquidation_rejected(cx, &pre);
                    }
                }
                None
            }
        }
    }

    // ----- C09 hooks ------------------------------------------------------------------------

    /// After a successful increase / non-closing decrease.
    fn c09_after_success(&mut self, cx: &mut Cx, i: usize, site: &'static str, validate: bool) {
        let p = self.positions[i];
        let prices = self.prices;
        cx.m.eval();
        cx.count("c09_post_checks");
        // (A) the check the action itself promises (same flags as its validation)
        let real_a = real_health(&self.market, &p, &prices, validate, false);
        match &real_a {
            Ok(h) if h.liquidatable() => {
                let name = h.name();
                let w = self.witness(json!({"site": site, "position": i, "reason": name}));
                cx.violation(&format!("C09:{site}:liquidatable_after_success"), || w);
            }
            Ok(_) => {}
            Err(e) => cx.count(&format!("c09_real_check_err_{e}")),
        }
        self.c09_compare_oracle(cx, &p, site, validate, false, real_a.clone());
        // (B) literally: the predicate a liquidation order would use
        let real_b = real_health(&self.market, &p, &prices, true, true);
        if let Ok(h) = &real_b {
            if h.liquidatable() {
                let only_min_collateral = *h == Health::MinCollateral
                    && matches!(
                        real_health(&self.market, &p, &prices, false, true),
                        Ok(Health::Sufficient)
                    );
                let sig = if site == "decrease" && only_min_collateral {
                    "C09:decrease:min_collateral_usd_not_revalidated".to_string()
                } else {
                    format!("C09:{site}:liquidatable_under_liquidation_predicate")
                };
                cx.count("c09_literal_liquidatable_after_success");
                let name = h.name();
                let w = self.witness(json!({"site": site, "position": i, "reason": name,
                    "note": "check_liquidatable(prices, true, true) is Some right after the successful action"}));
                cx.violation(&sig, || w);
            }
        }
        self.c09_compare_oracle(cx, &p, site, true, true, real_b);
        cx.nontrivial(
            format!(
                "{TAG}|{site}|{}|{}|{}|{}|{:?}",
                p.size_in_usd, p.size_in_tokens, p.collateral_token_amount, p.is_long, prices.index_token_price
            )
            .as_bytes(),
        );
    }

    /// Compare a real verdict with the BigInt recomputation on the current market state.
    pub fn c09_compare_oracle(
        &mut self,
        cx: &mut Cx,
        p: &Pos,
        site: &'static str,
        validate: bool,
        for_liq: bool,
        real: Result<Health, String>,
    ) {
        let Ok(real) = real else {
            cx.count("c09_oracle_skipped_real_err");
            return;
        };
        let Some(o) = oracle_health(&self.market, p, &self.prices, validate, for_liq) else {
            cx.count("c09_oracle_skipped_not_expressible");
            return;
        };
        if o.health == real {
            cx.count("c09_oracle_agree");
            cx.count(&format!("c09_verdict_{}", real.name()));
        } else {
            let w = self.witness(json!({
                "site": site, "position_checked": pos_json(p),
                "validate_min_collateral_usd": validate, "for_liquidation": for_liq,
                "real": real.name(), "oracle": o.health.name(),
                "oracle_remaining_collateral_value": o.remaining.to_string(),
                "oracle_pnl": o.pnl.to_string(), "oracle_cost_value": o.cost_value.to_string(),
                "oracle_impact": o.impact.to_string(),
            }));
            cx.violation(&format!("C09:{site}:check_liquidatable_disagrees_with_recomputation"), || w);
        }
    }

    fn c09_liquidation_succeeded(&mut self, cx: &mut Cx, pm: &Mkt, pre: &Pos, a: &DecArgs, removed: bool) {
        cx.m.eval();
        let prices = self.prices;
        let real = real_health(pm, pre, &prices, true, true);
        let orc = {
            let keep = std::mem::replace(&mut self.market, pm.clone());
            let o = oracle_health(&self.market, pre, &prices, true, true);
            self.market = keep;
            o
        };
        let real_liq = matches!(&real, Ok(h) if h.liquidatable());
        let orc_liq = orc.as_ref().map(|o| o.health.liquidatable());
        if !real_liq || orc_liq == Some(false) {
            let w = self.witness(json!({
                "args": a.json(), "position_before": pos_json(pre), "market_before": market_json(pm),
                "real_pre_state": format!("{real:?}"),
                "oracle_pre_state": orc.as_ref().map(|o| o.health.name()),
                "oracle_remaining": orc.as_ref().map(|o| o.remaining.to_string()),
            }));
            cx.violation("C09:liquidation:succeeded_on_healthy_position", || w);
        } else {
            cx.count("c09_liquidation_pre_state_liquidatable");
            if orc_liq == Some(true) {
                cx.count("c09_oracle_agree");
            }
        }
        if !removed {
            let w = self.witness(json!({"args": a.json(), "position_before": pos_json(pre)}));
            cx.violation("C09:liquidation:position_not_fully_closed", || w);
        }
        cx.nontrivial(
            format!("{TAG}|liq_ok|{}|{}|{}", pre.size_in_usd, pre.collateral_token_amount, pre.is_long)
                .as_bytes(),
        );
    }

    fn c09_liquidation_rejected(&mut self, cx: &mut Cx, pre: &Pos) {
        // state was restored, so the current market is the pre-state
        cx.m.eval();
        let prices = self.prices;
        if let Some(o) = oracle_health(&self.market, pre, &prices, true, true) {
            if o.health.liquidatable() {
                let w = self.witness(json!({
                    "position": pos_json(pre), "oracle": o.health.name(),
                    "oracle_remaining": o.remaining.to_string(),
                }));
                cx.violation("C09:liquidation:check_liquidatable_disagrees_with_recomputation", || w);
            } else {
                cx.count("c09_oracle_agree");
            }
        }
        cx.nontrivial(
            format!("{TAG}|liq_rej|{}|{}|{}", pre.size_in_usd, pre.collateral_token_amount, pre.is_long)
                .as_bytes(),
        );
    }
}

include!("perp_world_step.rs");
