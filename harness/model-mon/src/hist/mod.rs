//! History monitors over `MonMarket`: C04–C14.
use vcommon::Args;

pub fn run(_args: &Args) -> Option<i32> {
    None
}
