//! History monitors over `MonMarket`: C04–C14.
mod liq;
mod perp;

use vcommon::Args;

pub fn run(args: &Args) -> Option<i32> {
    match args.id.as_str() {
        "C04" | "C05" | "C06" | "C14" => liq::run(args),
        "C07" | "C08" | "C09" | "C10" | "C11" | "C12" | "C13" => perp::run(args),
        _ => None,
    }
}
