// Included per instantiation (see liq.rs). C04 (swap moves exactly the traded tokens, all or
// nothing) and C05 (swap value bound) over the same swap histories.

#[derive(Clone, Copy, PartialEq, Eq)]
pub enum SwapProp {
    C04,
    C05,
}

/// One history: seed liquidity, then a random mix of monitored swaps and background operations.
pub fn swap_history(prop: SwapProp, rng: &mut Rng, mon: &mut Monitor, steps: u64, loc: (u64, u64)) {
    let mut w = World::new(rng);
    for t in &w.tags.clone() {
        cnt(mon, &format!("cfg {t}"));
    }
    cnt(mon, "histories");
    // Seed: one to three deposits so that swaps have something to trade against.
    for _ in 0..rng.range(1, 3) {
        w.bg_deposit(rng, mon, true);
    }
    // weights: monitored swap, deposit, withdraw, increase, decrease, advance, move prices, reconfigure
    let weights = [60u32, 8, 5, 5, 3, 3, 12, 4];
    for step in 0..steps {
        match rng.weighted(&weights) {
            0 => monitored_swap(prop, &mut w, rng, mon, (loc.0, loc.1, step)),
            1 => w.bg(Bg::Deposit, rng, mon),
            2 => w.bg(Bg::Withdraw, rng, mon),
            3 => w.bg(Bg::Increase, rng, mon),
            4 => w.bg(Bg::Decrease, rng, mon),
            5 => w.bg(Bg::Advance, rng, mon),
            6 => w.bg(Bg::MovePrices, rng, mon),
            _ => w.bg(Bg::Reconfigure, rng, mon),
        }
    }
}

fn swap_witness(
    w: &World,
    pre: &Mkt,
    is_long_in: bool,
    amount: T,
    loc: (u64, u64, u64),
    extra: Value,
) -> Value {
    json!({
        "shard": loc.0, "history": loc.1, "step": loc.2,
        "width": LABEL,
        "is_token_in_long": is_long_in,
        "token_in_amount": amount.to_string(),
        "prices": prices_json(&w.p),
        "pre_state": market_json(pre),
        "post_state": market_json(&w.m),
        "observed": extra,
    })
}

fn monitored_swap(prop: SwapProp, w: &mut World, rng: &mut Rng, mon: &mut Monitor, loc: (u64, u64, u64)) {
    let is_long_in = rng.bool();
    let mut amount: T = if rng.chance(1, 40) { 0 } else { w.amount(rng, is_long_in) };
    let p = w.p;
    {
        // Most requests are sized so that the output side can pay (otherwise the bulk of the
        // workload dies in the first impact computation); the rest stays arbitrary.
        let (pi, po) = if is_long_in { (p.long_token_price.min, p.short_token_price.max) } else { (p.short_token_price.min, p.long_token_price.max) };
        let out_pool = side(&w.m.primary, !is_long_in) as u128;
        let max_in = out_pool.saturating_mul(po as u128) / (pi as u128).max(1);
        if amount as u128 > max_in && max_in > 0 && rng.chance(3, 4) {
            amount = t_sat(rng.range_u128(1, max_in.saturating_add(max_in / 8)));
        }
    }
    let pre = w.m.clone();
    // NOTE: no snapshot/restore around the swap — atomicity of the action itself is the property.
    let out = {
        let m = &mut w.m;
        attempt(|| m.swap(is_long_in, amount, p)?.execute())
    };
    w.m.events.clear();
    mon.eval();
    cnt(mon, "swaps");

    let (p_in, p_out) = if is_long_in {
        (&p.long_token_price, &p.short_token_price)
    } else {
        (&p.short_token_price, &p.long_token_price)
    };
    let is_long_out = !is_long_in;

    match out {
        Outcome::Panic(msg) => {
            // An abort, not a reported failure: the transaction would be rolled back.
            cnt(mon, "panics");
            cnt(mon, "swap_panic");
            if mon.wants_sample() && mon.counter(&key("swap_panic")) <= 1 {
                mon.sample(json!({"kind": "swap_panic", "message": msg, "width": LABEL}));
            }
            w.m = pre;
        }
        Outcome::Err(class) => {
            cnt(mon, "swap_fail");
            cnt(mon, &format!("swap_fail: {class}"));
            if prop == SwapProp::C04 {
                let diff = diff_state(&pre, &w.m, &[]);
                if !diff.is_empty() {
                    mon.violation(
                        "C04:swap:failed_swap_changed_pools",
                        swap_witness(w, &pre, is_long_in, amount, loc, json!({"error_class": class, "changed": diff})),
                    );
                    w.m = pre.clone();
                }
                // Non-trivial failure: one that was decided after the pool computations.
                if class != "EmptySwap" && !class.starts_with("invalid_argument") {
                    let mut sig = format!("{LABEL}|fail|{class}|{is_long_in}|vi{}", pre.vi_swaps.is_some()).into_bytes();
                    sig.push((log_ratio_bucket(&bi(amount), &bi(side(&pre.primary, is_long_in))) / 4) as u8);
                    mon.nontrivial(&sig);
                }
            }
        }
        Outcome::Ok(report) => {
            cnt(mon, "swap_ok");
            let post = &w.m;
            let out_amount = bi(*report.token_out_amount());
            let impact_value = bs(*report.price_impact());
            let fee_total = bi(*report.token_in_fees().fee_amount_for_pool())
                + bi(*report.token_in_fees().fee_amount_for_receiver());

            // What the swap-impact pools actually paid / received, from the state itself.
            let imp_in_pre = bi(side(&pre.swap_impact, is_long_in));
            let imp_in_post = bi(side(&post.swap_impact, is_long_in));
            let imp_out_pre = bi(side(&pre.swap_impact, is_long_out));
            let imp_out_post = bi(side(&post.swap_impact, is_long_out));
            let paid_out_side = (&imp_out_pre - &imp_out_post).max(zero());
            let paid_in_side = (&imp_in_pre - &imp_in_post).max(zero());

            let positive = impact_value.is_positive();
            let negative = impact_value.is_negative();
            let wanted_out_side = if positive { div_floor(&impact_value, &bi(p_out.max)) } else { zero() };
            let capped = positive && wanted_out_side > imp_out_pre;
            let topup = paid_in_side.is_positive();
            cnt(mon, if positive { "swap_ok_positive_impact" } else if negative { "swap_ok_negative_impact" } else { "swap_ok_zero_impact" });
            if capped {
                cnt(mon, "capped_positive_impact_seen");
                if imp_out_pre.is_zero() {
                    cnt(mon, "positive_impact_with_empty_impact_pool_seen");
                }
            }
            if topup {
                cnt(mon, "second_pool_topup_seen");
            }
            if pre.vi_swaps.is_some() {
                cnt(mon, "swap_ok_with_virtual_inventory");
            }
            if fee_total.is_zero() {
                cnt(mon, "swap_ok_zero_fee");
            }
            if p_in.min != p_in.max || p_out.min != p_out.max {
                cnt(mon, "swap_ok_with_spread");
            }

            let observed = json!({
                "token_out_amount": s(&out_amount),
                "price_impact_value": s(&impact_value),
                "price_impact_amount": report.price_impact_amount().to_string(),
                "fee_for_pool": report.token_in_fees().fee_amount_for_pool().to_string(),
                "fee_for_receiver": report.token_in_fees().fee_amount_for_receiver().to_string(),
                "impact_pool_paid_out_side": s(&paid_out_side),
                "impact_pool_paid_in_side": s(&paid_in_side),
                "capped": capped, "second_pool_topup": topup,
            });

            let mut class_sig = format!(
                "{LABEL}|ok|{is_long_in}|imp{}|cap{capped}|top{topup}|fee0{}|vi{}|sp{}{}|",
                if positive { '+' } else if negative { '-' } else { '0' },
                fee_total.is_zero(),
                pre.vi_swaps.is_some(),
                spread_class(&bi(p_in.min), &bi(p_in.max)),
                spread_class(&bi(p_out.min), &bi(p_out.max)),
            )
            .into_bytes();
            class_sig.push((log_ratio_bucket(&bi(amount), &bi(side(&pre.primary, is_long_in))) / 4) as u8);
            class_sig.push((log_ratio_bucket(&out_amount, &bi(side(&pre.primary, is_long_out))) / 4) as u8);

            match prop {
                SwapProp::C04 => {
                    let d_in = holdings(post, is_long_in) - holdings(&pre, is_long_in);
                    let d_out = holdings(post, is_long_out) - holdings(&pre, is_long_out);
                    if d_in != bi(amount) {
                        mon.violation(
                            "C04:swap:input_holdings_delta_differs_from_amount_in",
                            swap_witness(w, &pre, is_long_in, amount, loc, json!({"delta_in": s(&d_in), "report": observed})),
                        );
                    }
                    if d_out != -&out_amount {
                        mon.violation(
                            "C04:swap:output_holdings_delta_differs_from_amount_out",
                            swap_witness(w, &pre, is_long_in, amount, loc, json!({"delta_out": s(&d_out), "report": observed})),
                        );
                    }
                    let touched = diff_state(
                        &pre,
                        post,
                        &["liquidity", "swap_impact", "claimable_fee", "virtual_inventory_for_swaps"],
                    );
                    if !touched.is_empty() {
                        mon.violation(
                            "C04:swap:other_pools_or_supply_touched",
                            swap_witness(w, &pre, is_long_in, amount, loc, json!({"changed": touched, "report": observed})),
                        );
                    }
                    if let (Some(a), Some(b)) = (&pre.vi_swaps, &post.vi_swaps) {
                        // The virtual inventory must move by exactly the liquidity pool's deltas.
                        let ok = bi(b.long_amount) - bi(a.long_amount)
                            == bi(post.primary.long_amount) - bi(pre.primary.long_amount)
                            && bi(b.short_amount) - bi(a.short_amount)
                                == bi(post.primary.short_amount) - bi(pre.primary.short_amount);
                        cnt(mon, "virtual_inventory_delta_checked");
                        if !ok {
                            mon.violation(
                                "C04:swap:virtual_inventory_delta_differs_from_liquidity_delta",
                                swap_witness(w, &pre, is_long_in, amount, loc, json!({"report": observed})),
                            );
                        }
                    }
                    mon.nontrivial(&class_sig);
                }
                SwapProp::C05 => {
                    // out·P_out.max ≤ in·P_in.min + (out-side impact tokens paid)·P_out.max
                    //                              + (in-side impact tokens paid)·P_in.min
                    let out_value = &out_amount * bi(p_out.max);
                    let in_value = bi(amount) * bi(p_in.min);
                    let funded_tokens = &paid_out_side * bi(p_out.max) + &paid_in_side * bi(p_in.min);
                    // "the positive price impact actually funded": never more than the positive
                    // price impact itself (on the unchanged code the token value is always below it).
                    let positive_impact = impact_value.clone().max(zero());
                    if funded_tokens > positive_impact {
                        cnt(mon, "impact_pools_paid_more_than_the_positive_impact_value");
                    }
                    let funded = funded_tokens.min(positive_impact);
                    if out_value > &in_value + &funded {
                        mon.violation(
                            "C05:swap:out_value_exceeds_in_value_plus_funded_impact",
                            swap_witness(w, &pre, is_long_in, amount, loc, json!({
                                "out_value_at_max": s(&out_value), "in_value_at_min": s(&in_value),
                                "funded_impact_value": s(&funded), "report": observed})),
                        );
                    }
                    if positive && !funded.is_zero() {
                        cnt(mon, "bound_checked_with_funded_positive_impact");
                    }
                    // Zero fee and zero impact: exact conversion at the least favourable prices.
                    let frictionless = fee_total.is_zero()
                        && impact_value.is_zero()
                        && imp_in_pre == imp_in_post
                        && imp_out_pre == imp_out_post;
                    if frictionless {
                        cnt(mon, "exact_conversion_checked");
                        let expect = div_floor(&in_value, &bi(p_out.max));
                        if out_amount != expect {
                            mon.violation(
                                "C05:swap:frictionless_output_is_not_floor_conversion",
                                swap_witness(w, &pre, is_long_in, amount, loc, json!({"expected_out": s(&expect), "report": observed})),
                            );
                        }
                        if p_in.min != p_in.max || p_out.min != p_out.max {
                            cnt(mon, "exact_conversion_checked_with_spread");
                        }
                    }
                    class_sig.push(frictionless as u8);
                    mon.nontrivial(&class_sig);
                }
            }
            if mon.wants_sample() && (capped || topup || mon.counter(&key("swap_ok")) % 5000 == 1) {
                mon.sample(json!({
                    "width": LABEL, "is_token_in_long": is_long_in, "token_in_amount": amount.to_string(),
                    "prices": prices_json(&p), "observed": observed,
                    "liquidity_before": pool_json(&pre.primary), "swap_impact_before": pool_json(&pre.swap_impact),
                }));
            }
        }
    }
}
