// Included per instantiation (see liq.rs). C06: LP deposit / withdraw round trip, no dilution of
// the other LPs, first deposit priced at 1 USD per market token.

/// Market-token roundings of one deposit: up to two `usd_to_market_token_amount` calls per side.
const DEPOSIT_MINT_ROUNDINGS: u32 = 4;
/// USD-unit roundings of one withdrawal besides the two token-amount divisions: the market token
/// value and the two long/short value splits.
const WITHDRAW_USD_ROUNDINGS: u32 = 3;

pub fn lp_history(rng: &mut Rng, mon: &mut Monitor, steps: u64, loc: (u64, u64)) {
    let mut w = World::new(rng);
    for t in &w.tags.clone() {
        cnt(mon, &format!("cfg {t}"));
    }
    cnt(mon, "histories");
    // The first deposit of the history goes into an empty pool: clause (c).
    monitored_deposit(&mut w, rng, mon, true, (loc.0, loc.1, 0));
    if rng.chance(2, 3) {
        monitored_deposit(&mut w, rng, mon, true, (loc.0, loc.1, 0));
    }
    // weights: round-trip probe, deposit leg, withdraw leg, swap, increase, decrease, advance,
    // move prices, reconfigure
    let weights = [24u32, 12, 10, 12, 12, 5, 8, 12, 3];
    for step in 1..=steps {
        let l = (loc.0, loc.1, step);
        match rng.weighted(&weights) {
            0 => round_trip_probe(&w, rng, mon, l),
            1 => monitored_deposit(&mut w, rng, mon, false, l),
            2 => monitored_withdraw(&mut w, rng, mon, l),
            3 => w.bg(Bg::Swap, rng, mon),
            4 => w.bg(Bg::Increase, rng, mon),
            5 => w.bg(Bg::Decrease, rng, mon),
            6 => w.bg(Bg::Advance, rng, mon),
            7 => w.bg(Bg::MovePrices, rng, mon),
            _ => w.bg(Bg::Reconfigure, rng, mon),
        }
    }
}

fn deposit_amounts(w: &World, rng: &mut Rng, seeding: bool) -> (T, T) {
    if seeding {
        match rng.below(4) {
            0 => (w.seed_amount(rng), 0),
            1 => (0, w.seed_amount(rng)),
            _ => {
                let a = w.seed_amount(rng);
                let usd = (a as u128).saturating_mul(w.p.long_token_price.min as u128);
                let b = usd / (w.p.short_token_price.max as u128).max(1);
                (a, t_sat(b.max(1)))
            }
        }
    } else {
        match rng.below(3) {
            0 => (w.amount(rng, true), 0),
            1 => (0, w.amount(rng, false)),
            _ => (w.amount(rng, true), w.amount(rng, false)),
        }
    }
}

/// The program's pre-execute, committed on its own (it is also a stand-alone instruction).
fn run_pre_ops(m: &mut Mkt, p: &Prices<T>, mon: &mut Monitor) -> bool {
    let out = atomic(m, |m| pre_ops(m, p));
    note(mon, "pre_execute", &out);
    matches!(out, Outcome::Ok(_))
}

struct LegCtx<'a> {
    p: &'a Prices<T>,
    loc: (u64, u64, u64),
    what: &'static str,
}

fn leg_witness(c: &LegCtx, s0: &Mkt, s1: &Mkt, extra: Value) -> Value {
    json!({
        "shard": c.loc.0, "history": c.loc.1, "step": c.loc.2, "width": LABEL, "leg": c.what,
        "prices": prices_json(c.p),
        "state_before_leg": market_json(s0),
        "state_after_leg": market_json(s1),
        "observed": extra,
    })
}

/// Reference valuation of a state + cross-check against the real `pool_value`.
fn valued(m: &Mkt, c: &LegCtx, kind: PnlFactorKind, maximize: bool, mon: &mut Monitor) -> Option<RefPoolValue> {
    let r = ref_pool_value(m, c.p, kind, maximize)?;
    if let Some((same, real)) = pool_value_agrees(m, c.p, kind, maximize, &r) {
        cnt(mon, "pool_value_cross_checked");
        if !same {
            mon.violation(
                "C06:pool_value:differs_from_reference_valuation",
                json!({
                    "shard": c.loc.0, "history": c.loc.1, "step": c.loc.2, "width": LABEL,
                    "kind": format!("{kind:?}"), "maximize": maximize,
                    "prices": prices_json(c.p), "state": market_json(m),
                    "real_pool_value": s(&real), "reference_pool_value": s(&r.value),
                    "reference_parts": {"pending_borrowing": s(&r.pending_borrowing), "net_pnl": s(&r.net_pnl), "impact_value": s(&r.impact_value)},
                }),
            );
        }
    }
    Some(r)
}

/// Clause (b) for one leg under one valuation. `others` = market tokens held by the LPs that are
/// not acting in this leg (all of the old supply for a deposit, the remaining supply for a
/// withdrawal). Their aggregate value before is `v0·others/s0`, after `v1·others/s1`.
/// `allowance_num/allowance_den` is the explicit rounding allowance in USD units.
#[allow(clippy::too_many_arguments)]
fn check_others(
    c: &LegCtx,
    variant: &'static str,
    s0m: &Mkt,
    s1m: &Mkt,
    v0: &RefPoolValue,
    v1: &RefPoolValue,
    others: &BigInt,
    allowance_num: &BigInt,
    allowance_den: &BigInt,
    mon: &mut Monitor,
) {
    let s0 = bi(s0m.total_supply);
    let s1 = bi(s1m.total_supply);
    if !others.is_positive() || !s0.is_positive() || !s1.is_positive() {
        return;
    }
    cnt(mon, &format!("others_value_checked {} {}", c.what, variant));
    // drop = v0·others/s0 − v1·others/s1 = others·(v0·s1 − v1·s0)/(s0·s1)
    let drop_num = others * (&v0.value * &s1 - &v1.value * &s0);
    let drop_den = &s0 * &s1;
    if !drop_num.is_positive() {
        return;
    }
    // drop > 0
    if ratio_le(&drop_num, &drop_den, allowance_num, allowance_den) {
        cnt(mon, &format!("others_value_decrease_within_rounding {} {}", c.what, variant));
        return;
    }
    let class = if v0.cap_binding || v1.cap_binding { "with_binding_pnl_cap" } else { "beyond_rounding" };
    mon.violation(
        &format!("C06:{}:other_lps_token_value_decreased_{}:{}", c.what, class, variant),
        leg_witness(c, s0m, s1m, json!({
            "variant": variant,
            "pool_value_before": s(&v0.value), "supply_before": s(&s0),
            "pool_value_after": s(&v1.value), "supply_after": s(&s1),
            "others_tokens": s(others),
            "drop_numerator": s(&drop_num), "drop_denominator": s(&drop_den),
            "allowance": format!("{}/{}", allowance_num, allowance_den),
        })),
    );
}

struct DepositObs {
    minted: BigInt,
    minted_native: T,
    value_in_min: BigInt,
    /// Tokens the swap-impact pools paid out during the deposit, valued at the max price of
    /// their token (that is how the deposit credits them).
    funded_impact: BigInt,
    two_sided: bool,
    impact_sign: i8,
}

/// Deposit leg on `m` (pre-execute already done, `s0` = state right before the deposit).
/// Checks (b) under the deposit valuation and (c). Returns what the round trip needs.
fn checked_deposit(m: &mut Mkt, a: T, b: T, c: &LegCtx, mon: &mut Monitor) -> Option<DepositObs> {
    let s0 = m.clone();
    let p = *c.p;
    let out = atomic(m, |m| m.deposit(a, b, p)?.execute());
    note(mon, "deposit", &out);
    mon.eval();
    let report = out.ok()?;
    let s1 = &*m;
    let minted = bi(*report.minted());
    let supply0 = bi(s0.total_supply);
    let impact = bs(*report.price_impact());

    let mut funded = zero();
    for is_long in [true, false] {
        let paid = bi(side(&s0.swap_impact, is_long)) - bi(side(&s1.swap_impact, is_long));
        if paid.is_positive() {
            let price = if is_long { p.long_token_price.max } else { p.short_token_price.max };
            funded += paid * bi(price);
        }
    }
    if !funded.is_zero() {
        cnt(mon, "deposit_with_funded_positive_impact");
    }
    if impact.is_negative() {
        cnt(mon, "deposit_with_negative_impact");
    }

    // (b) — maximised / MaxAfterDeposit valuation (the one the deposit itself prices with).
    if supply0.is_positive() {
        let kind = PnlFactorKind::MaxAfterDeposit;
        if let (Some(v0), Some(v1)) = (valued(&s0, c, kind, true, mon), valued(s1, c, kind, true, mon)) {
            if !v0.pending_borrowing.is_zero() {
                cnt(mon, "leg_with_pending_borrowing");
            }
            if !v0.net_pnl.is_zero() {
                cnt(mon, "leg_with_open_pnl");
            }
            if !v0.impact_value.is_zero() {
                cnt(mon, "leg_with_position_impact_pool");
            }
            // Allowance: DEPOSIT_MINT_ROUNDINGS market-token units at the post-deposit token value.
            let allowance_num = &v1.value * DEPOSIT_MINT_ROUNDINGS;
            let allowance_den = bi(s1.total_supply);
            check_others(c, "max/deposit", &s0, s1, &v0, &v1, &supply0, &allowance_num.max(zero()), &allowance_den, mon);
        } else {
            cnt(mon, "deposit_leg_not_valued");
        }
    }

    // (c) — first deposit into an empty pool.
    if supply0.is_zero() {
        // "Empty pool": no liquidity and (where the reference valuation is defined) zero pool value.
        let empty = s0.primary.long_amount == 0
            && s0.primary.short_amount == 0
            && ref_pool_value(&s0, &p, PnlFactorKind::MaxAfterDeposit, true).map(|v| v.value.is_zero()).unwrap_or(true);
        if empty {
            cnt(mon, "first_deposit_seen");
            let divisor = bi(s0.value_to_amount_divisor);
            let mut sum_floor = zero();
            let mut sum_usd = zero();
            for (is_long, amount, fees, price) in [
                (true, a, report.long_token_fees(), &p.long_token_price),
                (false, b, report.short_token_fees(), &p.short_token_price),
            ] {
                if amount == 0 {
                    continue;
                }
                // Net tokens credited = what entered the liquidity pool minus the pool's fee
                // share (which is not credited to the depositor).
                let entered = bi(side(&s1.primary, is_long)) - bi(side(&s0.primary, is_long));
                let net = entered - bi(*fees.fee_amount_for_pool());
                let usd = net * bi(price.min);
                sum_floor += div_floor(&usd, &divisor);
                sum_usd += usd;
            }
            let upper = div_floor(&sum_usd, &divisor);
            if a != 0 && b != 0 {
                cnt(mon, "first_deposit_two_sided_seen");
            }
            if minted < sum_floor || minted > upper {
                mon.violation(
                    "C06:first_deposit:not_priced_at_one_usd_per_market_token",
                    leg_witness(c, &s0, s1, json!({
                        "long_amount": a.to_string(), "short_amount": b.to_string(),
                        "minted": s(&minted), "expected_min": s(&sum_floor), "expected_max": s(&upper),
                        "usd_after_fees_and_impact_at_min_price": s(&sum_usd), "divisor": s(&divisor),
                    })),
                );
            }
            if minted.is_positive() {
                let sig = format!("{LABEL}|first|{}|{}|{}", a != 0, b != 0, impact.is_negative()).into_bytes();
                mon.nontrivial(&sig);
            }
        } else {
            cnt(mon, "deposit_at_zero_supply_into_nonempty_pool_seen");
        }
    }

    let value_in_min = bi(a) * bi(p.long_token_price.min) + bi(b) * bi(p.short_token_price.min);
    Some(DepositObs {
        minted,
        minted_native: *report.minted(),
        value_in_min,
        funded_impact: funded,
        two_sided: a != 0 && b != 0,
        impact_sign: if impact.is_positive() { 1 } else if impact.is_negative() { -1 } else { 0 },
    })
}

/// Withdrawal leg on `m` (pre-execute already done). Checks (b) under the withdrawal valuation
/// and under the deposit valuation. Returns the USD value paid out at max prices.
fn checked_withdraw(m: &mut Mkt, amount: T, c: &LegCtx, mon: &mut Monitor) -> Option<BigInt> {
    let s0 = m.clone();
    let p = *c.p;
    let out = atomic(m, |m| m.withdraw(amount, p)?.execute());
    note(mon, "withdraw", &out);
    mon.eval();
    let report = out.ok()?;
    let s1 = &*m;
    let others = bi(s1.total_supply);
    if others.is_positive() {
        // Allowance: one base unit of each output token (the two price divisions) plus
        // WITHDRAW_USD_ROUNDINGS USD units, all at max prices.
        let allowance = bi(p.long_token_price.max) + bi(p.short_token_price.max) + WITHDRAW_USD_ROUNDINGS;
        let one = BigInt::from(1u8);
        for (variant, kind, maximize) in [
            ("min/withdrawal", PnlFactorKind::MaxAfterWithdrawal, false),
            ("max/deposit", PnlFactorKind::MaxAfterDeposit, true),
        ] {
            if let (Some(v0), Some(v1)) = (valued(&s0, c, kind, maximize, mon), valued(s1, c, kind, maximize, mon)) {
                check_others(c, variant, &s0, s1, &v0, &v1, &others, &allowance, &one, mon);
            } else {
                cnt(mon, "withdraw_leg_not_valued");
            }
        }
    } else {
        cnt(mon, "withdraw_all_supply_seen");
    }
    Some(
        bi(*report.long_token_output()) * bi(p.long_token_price.max)
            + bi(*report.short_token_output()) * bi(p.short_token_price.max),
    )
}

/// A deposit by "another LP" in the history: a checked deposit leg that stays.
fn monitored_deposit(w: &mut World, rng: &mut Rng, mon: &mut Monitor, seeding: bool, loc: (u64, u64, u64)) {
    let (a, b) = deposit_amounts(w, rng, seeding);
    let p = w.p;
    if !run_pre_ops(&mut w.m, &p, mon) {
        return;
    }
    let c = LegCtx { p: &p, loc, what: "deposit" };
    let _ = checked_deposit(&mut w.m, a, b, &c, mon);
}

/// A withdrawal by "another LP" in the history.
fn monitored_withdraw(w: &mut World, rng: &mut Rng, mon: &mut Monitor, loc: (u64, u64, u64)) {
    let supply = w.m.total_supply as u128;
    let amt = match rng.below(12) {
        0 => supply,
        1 => supply.saturating_add(1),
        2 => rng.range(1, 1000) as u128,
        3 => supply.saturating_sub(rng.range(1, 1000) as u128),
        _ => supply / rng.range(2, 50) as u128,
    };
    let p = w.p;
    if !run_pre_ops(&mut w.m, &p, mon) {
        return;
    }
    let c = LegCtx { p: &p, loc, what: "withdraw" };
    let _ = checked_withdraw(&mut w.m, t_sat(amt), &c, mon);
}

/// Clause (a): on a copy of the current state, deposit and immediately withdraw everything that
/// was minted, at the same prices and the same timestamp.
fn round_trip_probe(w: &World, rng: &mut Rng, mon: &mut Monitor, loc: (u64, u64, u64)) {
    let mut m = w.m.clone();
    let p = w.p;
    let (a, b) = deposit_amounts(w, rng, false);
    cnt(mon, "round_trip_attempts");
    if !run_pre_ops(&mut m, &p, mon) {
        return;
    }
    let s0 = m.clone();
    let c = LegCtx { p: &p, loc, what: "deposit" };
    let Some(dep) = checked_deposit(&mut m, a, b, &c, mon) else {
        return;
    };
    if dep.minted.is_zero() {
        // Nothing to withdraw: the round trip returns nothing for a non-empty input.
        cnt(mon, "round_trip_minted_zero");
        return;
    }
    // The withdrawal instruction runs its own pre-execute (a no-op at the same timestamp).
    if !run_pre_ops(&mut m, &p, mon) {
        return;
    }
    let minted_native: T = dep.minted_native;
    let s1 = m.clone();
    let c2 = LegCtx { p: &p, loc, what: "withdraw" };
    let Some(value_out_max) = checked_withdraw(&mut m, minted_native, &c2, mon) else {
        cnt(mon, "round_trip_withdraw_failed");
        return;
    };
    mon.eval();
    cnt(mon, "round_trip_completed");
    let gain = &value_out_max - &dep.value_in_min;
    let supply0 = bi(s0.total_supply);
    let ownerless = supply0.is_zero() && (s0.primary.long_amount != 0 || s0.primary.short_amount != 0);
    if !dep.funded_impact.is_zero() {
        cnt(mon, "round_trip_with_funded_positive_impact");
    }
    if gain.is_positive() {
        // Tight residual bound for the zero-supply case: the depositor is credited the whole
        // (ownerless) pool value, and nothing more.
        let ownerless_value = ref_pool_value(&s0, &p, PnlFactorKind::MaxAfterDeposit, true).map(|v| v.value);
        let class = if ownerless {
            match &ownerless_value {
                Some(v) if gain > v + &dep.funded_impact => "gain_exceeds_ownerless_pool_value_at_zero_supply",
                _ => "gain_from_ownerless_pool_value_at_zero_supply",
            }
        } else if dep.funded_impact.is_zero() {
            "gain_without_positive_impact"
        } else if gain <= dep.funded_impact {
            "gain_within_funded_positive_swap_impact"
        } else {
            "gain_exceeds_funded_positive_swap_impact"
        };
        mon.violation(
            &format!("C06:round_trip:{class}"),
            json!({
                "shard": loc.0, "history": loc.1, "step": loc.2, "width": LABEL,
                "deposit_long_amount": a.to_string(), "deposit_short_amount": b.to_string(),
                "prices": prices_json(&p),
                "minted": s(&dep.minted),
                "value_in_at_min_prices": s(&dep.value_in_min),
                "value_out_at_max_prices": s(&value_out_max),
                "gain": s(&gain),
                "funded_positive_impact_value": s(&dep.funded_impact),
                "state_before_deposit": market_json(&s0),
                "state_after_deposit": market_json(&s1),
                "state_after_withdrawal": market_json(&m),
            }),
        );
    }
    let sig = format!(
        "{LABEL}|rt|two{}|imp{}|funded{}|oi{}|ipool{}|supply0{}|sp{}{}|fee{:?}",
        dep.two_sided,
        dep.impact_sign,
        !dep.funded_impact.is_zero(),
        s0.open_interest.0 != MonPool::default() || s0.open_interest.1 != MonPool::default(),
        s0.position_impact.long_amount != 0,
        supply0.is_zero(),
        spread_class(&bi(p.long_token_price.min), &bi(p.long_token_price.max)),
        spread_class(&bi(p.short_token_price.min), &bi(p.short_token_price.max)),
        log_ratio_bucket(&(-&gain).max(zero()), &dep.value_in_min),
    )
    .into_bytes();
    mon.nontrivial(&sig);
    if mon.wants_sample() && mon.counter(&key("round_trip_completed")) % 2000 == 1 {
        mon.sample(json!({
            "width": LABEL, "deposit_long_amount": a.to_string(), "deposit_short_amount": b.to_string(),
            "prices": prices_json(&p), "minted": s(&dep.minted),
            "value_in_at_min_prices": s(&dep.value_in_min), "value_out_at_max_prices": s(&value_out_max),
            "supply_before": s(&supply0),
            "liquidity_before": pool_json(&s0.primary),
        }));
    }
}
