//! Shared world driver for C07–C13 (compiled once per instantiation, see `perp.rs`).
#![allow(dead_code)]

use super::oracle::{self, Health};
use super::probe;
use super::{D, S, T, TAG};
use crate::hist::perp::Prop;
use crate::monmarket::{MaxPnlFactors, MonConfig, MonEvent, MonMarket, MonPool, MonPosition};
use gmsol_model::{
    action::decrease_position::{DecreasePositionFlags, DecreasePositionSwapType},
    fixed::FixedPointOps,
    params::{
        fee::{
            BorrowingFeeKinkModelParamsForOneSide, BorrowingFeeParams, FundingFeeParams,
            LiquidationFeeParams,
        },
        position::PositionImpactDistributionParams,
        FeeParams, PositionParams, PriceImpactParams,
    },
    pool::delta::BalanceChange,
    price::{Price, Prices},
    BorrowingFeeMarketExt, BorrowingFeeMarketMutExt, LiquidityMarketMutExt, MarketAction,
    PerpMarketMutExt, PositionExt, PositionImpactMarketMutExt, PositionMutExt, SwapMarketMutExt,
};
use vcommon::{
    json,
    monitor::guard,
    num_bigint::BigInt,
    num_traits::{Signed as _, Zero},
    serde_json::Value,
    Monitor, Rng,
};

pub type Mkt = MonMarket<T, D>;
pub type Pos = MonPosition<T, D>;
pub type Cfg = MonConfig<T, D>;
pub const UNIT: T = <T as FixedPointOps<D>>::UNIT;

pub fn bi(x: T) -> BigInt {
    BigInt::from(x)
}
pub fn bs(x: S) -> BigInt {
    BigInt::from(x)
}
/// Saturating conversion from u128.
pub fn t(x: u128) -> T {
    T::try_from(x).unwrap_or(T::MAX)
}
#[allow(clippy::unnecessary_cast)]
pub fn u(x: T) -> u128 {
    x as u128
}
/// `UNIT * num / den` (a factor given as a fraction).
pub fn frac(num: u128, den: u128) -> T {
    t(u(UNIT) / den * num + (u(UNIT) % den) * num / den)
}
/// `usd` whole dollars in the instantiation's value unit.
pub fn usd(x: u128) -> T {
    t(u(UNIT).saturating_mul(x))
}
pub fn is_wide() -> bool {
    D == 20
}

/// The order fee factors (positive-impact, negative-impact) as configured. `FeeParams` keeps them
/// private; `fee(UNIT)` with no discount returns exactly the factor.
pub fn order_fee_factors(m: &Mkt) -> (BigInt, BigInt) {
    let p = &m.config.order_fee_params;
    let a = p
        .fee::<D>(BalanceChange::Improved, &UNIT)
        .map(bi)
        .unwrap_or_else(|| bi(T::MAX));
    let b = p
        .fee::<D>(BalanceChange::Worsened, &UNIT)
        .map(bi)
        .unwrap_or_else(|| bi(T::MAX));
    (a, b)
}

// ---------------------------------------------------------------------------------------------
// Configuration generation
// ---------------------------------------------------------------------------------------------

#[derive(Debug, Clone, Default)]
pub struct CfgInfo {
    pub class: &'static str,
    pub adaptive_funding: bool,
    pub kink: bool,
    pub vi_positions: bool,
    pub vi_swaps: bool,
    /// max positive position impact cap factor > max negative cap factor
    pub impact_cap_asymmetry: bool,
    pub funding_min_gt_max: bool,
    pub borrowing_exponent_unit: bool,
    pub notes: Vec<&'static str>,
}

fn pick_frac(rng: &mut Rng, opts: &[(u128, u128)]) -> T {
    let (n, d) = *rng.pick(opts);
    frac(n, d)
}

/// Per-second factor `per_year_fraction / seconds_per_year`.
fn per_second(rng: &mut Rng, yearly_pct_lo: u128, yearly_pct_hi: u128) -> T {
    let pct = rng.range_u128(yearly_pct_lo, yearly_pct_hi);
    t(u(UNIT) / 100 * pct / (365 * 24 * 3600))
}

pub fn gen_config(rng: &mut Rng) -> (Cfg, CfgInfo) {
    let mut c = Cfg::default();
    let mut info = CfgInfo {
        class: "preset",
        adaptive_funding: true,
        kink: true,
        borrowing_exponent_unit: true,
        ..Default::default()
    };
    let class = rng.weighted(&[25, 35, 40]);
    let p_mut: u64 = match class {
        0 => 0,
        1 => 25,
        _ => 60,
    };
    info.class = match class {
        0 => "preset",
        1 => "tweaked",
        _ => "adversarial",
    };
    let adv = class == 2;

    // Order fees.
    if rng.chance(p_mut, 100) {
        let opts: &[(u128, u128)] = if adv {
            &[(0, 1), (5, 10_000), (7, 10_000), (1, 100), (10, 100), (1, 1), (3, 2)]
        } else {
            &[(0, 1), (5, 10_000), (7, 10_000), (1, 1000), (1, 100)]
        };
        let pos = pick_frac(rng, opts);
        let neg = pick_frac(rng, opts);
        let recv_opts: &[(u128, u128)] = if adv {
            &[(0, 1), (37, 100), (1, 1), (1, 2), (11, 10)]
        } else {
            &[(0, 1), (37, 100), (1, 2)]
        };
        c.order_fee_params = FeeParams::builder()
            .fee_receiver_factor(pick_frac(rng, recv_opts))
            .positive_impact_fee_factor(pos)
            .negative_impact_fee_factor(neg)
            .build();
        info.notes.push("order_fee");
    }
    // Swap fees / impact.
    if rng.chance(p_mut, 100) {
        let opts: &[(u128, u128)] = &[(0, 1), (5, 10_000), (1, 100), (5, 100)];
        c.swap_fee_params = FeeParams::builder()
            .fee_receiver_factor(pick_frac(rng, &[(0, 1), (37, 100), (1, 1)]))
            .positive_impact_fee_factor(pick_frac(rng, opts))
            .negative_impact_fee_factor(pick_frac(rng, opts))
            .build();
        let sf: &[u128] = &[0, 1, 4, 8, 100, 10_000];
        let scale = if is_wide() { 100_000_000_000u128 } else { 1 };
        c.swap_impact_params = PriceImpactParams::builder()
            .exponent(t(u(UNIT) * *rng.pick(&[1u128, 2, 2, 2])))
            .positive_factor(t(*rng.pick(sf) * scale))
            .negative_factor(t(*rng.pick(sf) * scale))
            .build();
        info.notes.push("swap_params");
    }
    // Liquidation fee.
    if rng.chance(p_mut, 100) {
        let opts: &[(u128, u128)] = if adv {
            &[(0, 1), (2, 1000), (5, 100), (1, 1)]
        } else {
            &[(0, 1), (2, 1000), (1, 100)]
        };
        c.liquidation_fee_params = LiquidationFeeParams::builder()
            .factor(pick_frac(rng, opts))
            .receiver_factor(pick_frac(rng, &[(0, 1), (37, 100), (1, 1)]))
            .build();
        info.notes.push("liquidation_fee");
    }
    // Position impact params.
    if rng.chance(p_mut.max(30), 100) {
        // factors are "per USD of imbalance"; scale relative to the presets
        let scale = if is_wide() { 100_000_000_000u128 } else { 1 };
        let f: &[u128] = if adv {
            &[0, 1, 2, 5, 50, 1000, 100_000]
        } else {
            &[0, 1, 2, 4, 20]
        };
        let exp = *rng.pick(if adv { &[1u128, 2, 2, 3][..] } else { &[2u128, 2, 1][..] });
        c.position_impact_params = PriceImpactParams::builder()
            .exponent(t(u(UNIT) * exp))
            .positive_factor(t(*rng.pick(f) * scale))
            .negative_factor(t(*rng.pick(f) * scale))
            .build();
        info.notes.push("position_impact");
    }
    // Position params.
    {
        let mut min_size = usd(1);
        let mut min_coll_value = usd(1);
        let mut min_coll_factor = frac(1, 100);
        let mut liq_factor: Option<T> = None;
        let mut max_pos = frac(5, 1000);
        let mut max_neg = frac(5, 1000);
        let mut max_liq = frac(25, 10_000);
        if rng.chance(p_mut, 100) {
            min_size = *rng.pick(&[usd(0), usd(1), usd(10), usd(100)]);
            min_coll_value = *rng.pick(&[usd(0), usd(1), usd(1), usd(10)]);
            min_coll_factor = pick_frac(rng, &[(0, 1), (5, 1000), (1, 100), (2, 100), (10, 100)]);
            if rng.chance(1, 2) {
                // <= normal factor (see assumption in C09)
                let d = *rng.pick(&[1u128, 2, 4]);
                liq_factor = Some(t(u(min_coll_factor) / d));
            }
            info.notes.push("position_params");
        }
        if rng.chance(p_mut, 100) {
            let o: &[(u128, u128)] = &[(0, 1), (25, 10_000), (5, 1000), (5, 100), (1, 1)];
            max_pos = pick_frac(rng, o);
            max_neg = pick_frac(rng, o);
            max_liq = pick_frac(rng, o);
            // keep the deliberate asymmetry (positive cap above negative cap) rare and only adversarial
            if max_pos > max_neg && !(adv && rng.chance(1, 3)) {
                std::mem::swap(&mut max_pos, &mut max_neg);
            }
            info.notes.push("impact_caps");
        }
        info.impact_cap_asymmetry = max_pos > max_neg;
        c.position_params = PositionParams::builder()
            .min_position_size_usd(min_size)
            .min_collateral_value(min_coll_value)
            .min_collateral_factor(min_coll_factor)
            .min_collateral_factor_for_liquidation(liq_factor)
            .max_positive_position_impact_factor(max_pos)
            .max_negative_position_impact_factor(max_neg)
            .max_position_impact_factor_for_liquidations(max_liq)
            .build();
    }
    // Funding.
    {
        let adaptive = rng.chance(1, 2);
        info.adaptive_funding = adaptive;
        let base = FundingFeeParams::builder();
        if class == 0 {
            // preset, but toggle adaptive mode
            let d = Cfg::default().funding_fee_params;
            c.funding_fee_params = base
                .exponent(*d.exponent())
                .funding_factor(*d.factor())
                .max_factor_per_second(*d.max_factor_per_second())
                .min_factor_per_second(*d.min_factor_per_second())
                .increase_factor_per_second(if adaptive {
                    *d.increase_factor_per_second()
                } else {
                    0
                })
                .decrease_factor_per_second(*d.decrease_factor_per_second())
                .threshold_for_stable_funding(*d.threshold_for_stable_funding())
                .threshold_for_decrease_funding(*d.threshold_for_decrease_funding())
                .build();
        } else {
            let max = per_second(rng, 1, 400).max(2);
            let mut min = match rng.below(4) {
                0 => 0,
                1 => 1,
                2 => t(u(max) / 30),
                _ => t(u(max) / 2),
            };
            if adv && rng.chance(1, 25) {
                min = max + 1;
                info.funding_min_gt_max = true;
            }
            let inc = if adaptive {
                t(rng.log_u128(u(max)).max(1))
            } else {
                0
            };
            let dec = if rng.chance(1, 2) {
                0
            } else {
                t(rng.log_u128(u(max) / 10))
            };
            let thr_stable = pick_frac(rng, &[(0, 1), (5, 100), (20, 100), (1, 1)]);
            let thr_dec = if rng.chance(1, 2) {
                0
            } else {
                t(rng.below_u128(u(thr_stable) + 1))
            };
            c.funding_fee_params = base
                .exponent(t(u(UNIT) * *rng.pick(&[1u128, 1, 2])))
                .funding_factor(per_second(rng, 0, 2000))
                .max_factor_per_second(max)
                .min_factor_per_second(min)
                .increase_factor_per_second(inc)
                .decrease_factor_per_second(dec)
                .threshold_for_stable_funding(thr_stable)
                .threshold_for_decrease_funding(thr_dec)
                .build();
            info.notes.push("funding");
        }
    }
    // Borrowing.
    {
        let kink = rng.chance(1, 2);
        info.kink = kink;
        let d = Cfg::default();
        let (factor, exp, recv, skip) = if class == 0 {
            (
                *d.borrowing_fee_params.factor(true),
                *d.borrowing_fee_params.exponent(true),
                *d.borrowing_fee_params.receiver_factor(),
                true,
            )
        } else {
            let e = *rng.pick(&[1u128, 1, 1, 2]);
            (
                per_second(rng, 0, 300),
                t(u(UNIT) * e),
                pick_frac(rng, &[(0, 1), (37, 100), (1, 1)]),
                rng.chance(2, 3),
            )
        };
        info.borrowing_exponent_unit = exp == UNIT;
        c.borrowing_fee_params = BorrowingFeeParams::builder()
            .receiver_factor(recv)
            .factor_for_long(factor)
            .factor_for_short(if class == 0 { factor } else { per_second(rng, 0, 300) })
            .exponent_for_long(exp)
            .exponent_for_short(exp)
            .skip_borrowing_fee_for_smaller_side(skip)
            .build();
        let optimal = if kink {
            if class == 0 {
                frac(75, 100)
            } else {
                pick_frac(rng, &[(1, 100), (50, 100), (75, 100), (1, 1), (3, 2)])
            }
        } else {
            0
        };
        c.borrowing_fee_kink_model_params = BorrowingFeeKinkModelParamsForOneSide::builder()
            .optimal_usage_factor(optimal)
            .base_borrowing_factor(if class == 0 {
                t(u(UNIT) * 60 / 100 / (365 * 24 * 3600))
            } else {
                per_second(rng, 0, 200)
            })
            .above_optimal_usage_borrowing_factor(if class == 0 {
                t(u(UNIT) * 150 / 100 / (365 * 24 * 3600))
            } else {
                per_second(rng, 0, 600)
            })
            .build();
    }
    // Reserves / caps / pnl factors.
    if rng.chance(p_mut, 100) {
        c.reserve_factor = pick_frac(rng, &[(2, 10), (5, 10), (1, 1), (2, 1)]);
        c.open_interest_reserve_factor = pick_frac(rng, &[(2, 10), (5, 10), (1, 1), (2, 1)]);
        info.notes.push("reserve");
    }
    if rng.chance(p_mut, 100) {
        let o: &[(u128, u128)] = &[(0, 1), (1, 100), (10, 100), (50, 100), (1, 1), (100, 1)];
        c.max_pnl_factors = MaxPnlFactors {
            deposit: pick_frac(rng, &[(60, 100), (1, 1), (10, 1)]),
            withdrawal: pick_frac(rng, &[(30, 100), (1, 1), (10, 1)]),
            trader: pick_frac(rng, o),
            adl: pick_frac(rng, &[(50, 100), (1, 1)]),
        };
        info.notes.push("max_pnl");
    }
    if adv && rng.chance(1, 6) {
        // tiny open interest cap
        c.max_open_interest = usd(rng.range_u128(1, 5_000));
        info.notes.push("tiny_max_oi");
    }
    if rng.chance(p_mut, 100) {
        c.min_collateral_factor_for_oi = if rng.chance(1, 2) {
            0
        } else {
            t(rng.log_u128(u(c.min_collateral_factor_for_oi) * 100 + 1))
        };
        c.ignore_open_interest_for_usage_factor = rng.bool();
        info.notes.push("oi_multiplier");
    }
    if rng.chance(p_mut, 100) {
        c.position_impact_distribution_params = PositionImpactDistributionParams::builder()
            .distribute_factor(if rng.bool() { 0 } else { t(rng.log_u128(u(UNIT) * 10)) })
            .min_position_impact_pool_amount(t(rng.log_u128(1_000_000_000)))
            .build();
        info.notes.push("impact_distribution");
    }
    info.vi_positions = rng.chance(1, 3);
    info.vi_swaps = rng.chance(1, 4);
    (c, info)
}

// ---------------------------------------------------------------------------------------------
// Prices
// ---------------------------------------------------------------------------------------------

#[derive(Debug, Clone, Copy)]
pub struct PriceBase {
    pub index: u128,
    pub long: u128,
    pub short: u128,
    pub long_is_index: bool,
}

fn gen_token_price(rng: &mut Rng, regime: u64) -> u128 {
    let unit = u(UNIT);
    match regime {
        // fine-grained token (many decimals): 1e-8 .. 2e-6 of a USD per base unit
        0 => rng.range_u128(unit / 100_000_000, unit / 500_000),
        // medium
        1 => rng.range_u128(unit / 10_000, unit / 100),
        // coarse token: one base unit is worth $0.2 .. $50 (sizes in tokens round to 0 / all)
        _ => rng.range_u128(unit / 5, unit * 50),
    }
    .max(1)
}

pub fn gen_price_base(rng: &mut Rng) -> PriceBase {
    let regime = rng.weighted(&[45, 25, 30]) as u64;
    let index = gen_token_price(rng, regime);
    let long_is_index = rng.chance(3, 4);
    let long = if long_is_index {
        index
    } else {
        let r = rng.weighted(&[60, 30, 10]) as u64;
        gen_token_price(rng, r)
    };
    let unit = u(UNIT);
    let short = (*rng.pick(&[unit / 1_000_000_000, unit / 1_000_000, unit / 1_000_000])).max(1);
    PriceBase {
        index,
        long,
        short,
        long_is_index,
    }
}

fn spread(rng: &mut Rng, mid: u128) -> Price<T> {
    let s = match rng.below(5) {
        0 => 0,
        1 => 1,
        2 => mid / 10_000,
        3 => mid / 1000,
        _ => rng.below_u128(mid / 200 + 1),
    };
    let min = mid.saturating_sub(s / 2).max(1);
    let max = min + s;
    Price {
        min: t(min),
        max: t(max),
    }
}

pub fn prices_from(rng: &mut Rng, b: &PriceBase) -> Prices<T> {
    let index = spread(rng, b.index);
    let long = if b.long_is_index && rng.chance(4, 5) {
        index
    } else {
        spread(rng, b.long)
    };
    Prices {
        index_token_price: index,
        long_token_price: long,
        short_token_price: spread(rng, b.short),
    }
}

pub fn prices_json(p: &Prices<T>) -> Value {
    json!({
        "index": [p.index_token_price.min.to_string(), p.index_token_price.max.to_string()],
        "long": [p.long_token_price.min.to_string(), p.long_token_price.max.to_string()],
        "short": [p.short_token_price.min.to_string(), p.short_token_price.max.to_string()],
    })
}

pub fn pos_json(p: &Pos) -> Value {
    json!({
        "is_long": p.is_long,
        "is_collateral_token_long": p.is_collateral_token_long,
        "collateral": p.collateral_token_amount.to_string(),
        "size_in_usd": p.size_in_usd.to_string(),
        "size_in_tokens": p.size_in_tokens.to_string(),
        "borrowing_factor": p.borrowing_factor.to_string(),
        "funding_fee_amount_per_size": p.funding_fee_amount_per_size.to_string(),
        "claimable_funding_per_size": [
            p.claimable_funding_fee_amount_per_size.0.to_string(),
            p.claimable_funding_fee_amount_per_size.1.to_string()
        ],
    })
}

pub fn market_json(m: &Mkt) -> Value {
    // Debug print: all pools, clocks and the complete configuration (everything needed to rebuild).
    json!(format!("{m:?}"))
}

include!("perp_world_ops.rs");
