//! Probes run on clones of states reached by the world histories: C09 boundary bisection,
//! C10 open-then-close, C11 pnl monotonicity, C12 funding-rate checks (history + direct).
#![allow(dead_code)]

use super::oracle::{self, FundingParamsBig, Health};
use super::world::{
    bi, bs, do_decrease, do_increase, do_update_fees, market_json, oracle_health, pos_json,
    prices_json, real_health, t, u, usd, Cx, DecArgs, Mkt, Pos, World, UNIT,
};
use super::{S, T, TAG};
use gmsol_model::{
    price::{Price, Prices},
    ClockKind, MarketAction, PerpMarketMutExt, PositionExt,
};
use vcommon::{
    json,
    monitor::guard,
    num_bigint::BigInt,
    num_traits::{Signed as _, Zero},
    serde_json::Value,
    Rng,
};

// ---------------------------------------------------------------------------------------------
// C12
// ---------------------------------------------------------------------------------------------

fn funding_params_big(m: &Mkt) -> FundingParamsBig {
    let p = &m.config.funding_fee_params;
    let e = *p.exponent();
    FundingParamsBig {
        exponent_whole: if e % UNIT == 0 {
            Some((e / UNIT) as u32)
        } else {
            None
        },
        funding_factor: bi(*p.factor()),
        increase: bi(*p.increase_factor_per_second()),
        decrease: bi(*p.decrease_factor_per_second()),
        max: bi(*p.max_factor_per_second()),
        min: bi(*p.min_factor_per_second()),
        threshold_stable: bi(*p.threshold_for_stable_funding()),
        threshold_decrease: bi(*p.threshold_for_decrease_funding()),
    }
}

fn oi_totals(m: &Mkt) -> (T, T) {
    let l = m
        .open_interest
        .0
        .long_amount
        .saturating_add(m.open_interest.0.short_amount);
    let s = m
        .open_interest
        .1
        .long_amount
        .saturating_add(m.open_interest.1.short_amount);
    (l, s)
}

/// Check one evaluation of the real `next_funding_factor_per_second` on market `m`.
pub fn c12_check_rate(cx: &mut Cx, m: &Mkt, prices: &Prices<T>, dur: u64, site: &'static str) {
    let (long, short) = oi_totals(m);
    if long == 0 || short == 0 {
        cx.count("c12_update_one_side_empty");
        return;
    }
    cx.m.eval();
    let mut mm = m.clone();
    let r = guard(|| {
        let a = mm.update_funding(prices)?;
        a.next_funding_factor_per_second(dur, &long, &short)
    });
    let fp = funding_params_big(m);
    let stored = bs(m.funding_factor_per_second);
    let adaptive = !fp.increase.is_zero();
    let wit = |extra: Value| {
        json!({
            "site": site, "duration_in_seconds": dur,
            "long_open_interest": long.to_string(), "short_open_interest": short.to_string(),
            "stored_funding_factor_per_second": stored.to_string(),
            "funding_fee_params": format!("{:?}", m.config.funding_fee_params),
            "detail": extra,
        })
    };
    let (rate, lps, next) = match r {
        Ok(Ok(x)) => x,
        Ok(Err(e)) => {
            cx.count(&format!("c12_rate_err_{}", super::world::err_class(&e)));
            return;
        }
        Err(_) => {
            cx.count("c12_rate_panic");
            return;
        }
    };
    let (rate_b, next_b) = (bi(rate), bs(next));
    cx.nontrivial(
        format!("{TAG}|{adaptive}|{long}|{short}|{stored}|{dur}|{rate}|{lps}|{next}").as_bytes(),
    );
    if adaptive {
        cx.count("c12_rate_checks_adaptive");
        if rate_b < fp.min || rate_b > fp.max {
            let w = wit(json!({"rate": rate.to_string(), "longs_pay_shorts": lps}));
            cx.violation("C12:adaptive_mode:rate_out_of_bounds", || w);
        }
        if next_b.abs() > fp.max {
            let w = wit(json!({"next": next.to_string()}));
            cx.violation("C12:adaptive_mode:stored_rate_above_max", || w);
        }
        if rate_b == fp.min && !fp.min.is_zero() {
            cx.count("c12_adaptive_rate_at_min");
        }
        if rate_b == fp.max {
            cx.count("c12_adaptive_rate_at_max");
        }
    } else {
        cx.count("c12_rate_checks_fallback");
        if rate_b > fp.max {
            let w = wit(json!({"rate": rate.to_string()}));
            cx.violation("C12:fallback_mode:rate_above_max", || w);
        }
        if long != short {
            if lps != (long > short) {
                let w = wit(json!({"rate": rate.to_string(), "longs_pay_shorts": lps}));
                cx.violation("C12:fallback_mode:smaller_side_pays", || w);
            }
        } else if !rate_b.is_zero() {
            let w = wit(json!({"rate": rate.to_string()}));
            cx.violation("C12:fallback_mode:nonzero_rate_when_balanced", || w);
        }
        if rate_b == fp.max {
            cx.count("c12_fallback_rate_at_max");
        }
        // Literal reading of "within the configured minimum and maximum whenever both sides
        // have open interest": the fallback branch never applies min_factor_per_second.
        if rate_b < fp.min {
            cx.count("c12_fallback_rate_below_min");
            let w = wit(json!({"rate": rate.to_string(), "min_factor_per_second": fp.min.to_string(),
                "note": "fallback (non-adaptive) mode does not apply min_factor_per_second"}));
            cx.violation("C12:fallback_mode:rate_below_min", || w);
        }
    }
    match oracle::next_funding_factor_per_second(&fp, &stored, dur, &bi(long), &bi(short)) {
        Some(o) => {
            if o.rate != rate_b || o.next != next_b || o.longs_pay_shorts != lps {
                let w = wit(json!({
                    "real": {"rate": rate.to_string(), "longs_pay_shorts": lps, "next": next.to_string()},
                    "recomputed": {"rate": o.rate.to_string(), "longs_pay_shorts": o.longs_pay_shorts, "next": o.next.to_string()},
                }));
                cx.violation("C12:next_funding_factor_per_second:differs_from_recomputation", || w);
            } else {
                cx.count("c12_oracle_agree");
            }
        }
        None => cx.count("c12_oracle_not_expressible"),
    }
}

/// Called right before a funding update of the history executes.
pub fn c12_observe_update(w: &mut World, cx: &mut Cx, _rng: &mut Rng) {
    let m = &w.market;
    let dur = m
        .now
        .saturating_sub(*m.clocks.get(&ClockKind::Funding).unwrap_or(&m.now));
    c12_check_rate(cx, m, &w.prices, dur, "history_update");
}

/// Synthetic open-interest / stored-rate / elapsed-time configurations on a clone.
pub fn c12_direct(w: &mut World, cx: &mut Cx, rng: &mut Rng) {
    for _ in 0..6 {
        let mut m = w.market.clone();
        if rng.chance(1, 2) {
            let (cfg, _) = super::world::gen_config(rng);
            m.config.funding_fee_params = cfg.funding_fee_params;
        }
        let hi = u(usd(w.pool_usd.saturating_mul(4)));
        let a = rng.log_u128(hi).max(1);
        let b = match rng.below(6) {
            0 => a,
            1 => a + 1,
            2 => a.saturating_sub(1).max(1),
            3 => rng.range_u128(1, 3),
            _ => rng.log_u128(hi).max(1),
        };
        let (long, short) = if rng.bool() { (a, b) } else { (b, a) };
        let split = |rng: &mut Rng, x: u128| {
            let l = match rng.below(3) {
                0 => 0,
                1 => x,
                _ => rng.below_u128(x + 1),
            };
            (t(l), t(x - l))
        };
        let (ll, ls) = split(rng, long);
        let (sl, ss) = split(rng, short);
        m.open_interest.0.long_amount = ll;
        m.open_interest.0.short_amount = ls;
        m.open_interest.1.long_amount = sl;
        m.open_interest.1.short_amount = ss;
        let max = u(*m.config.funding_fee_params.max_factor_per_second());
        let mag = match rng.below(5) {
            0 => 0,
            1 => max,
            2 => max.saturating_add(rng.below_u128(max + 2)),
            _ => rng.below_u128(max + 1),
        };
        let mag_s = S::try_from(mag).unwrap_or(S::MAX);
        m.funding_factor_per_second = if rng.bool() { mag_s } else { -mag_s };
        let dur = match rng.below(5) {
            0 => 0,
            1 => 1,
            2 => rng.range(2, 3600),
            3 => rng.range(3600, 86_400),
            _ => rng.range(86_400, 60 * 86_400),
        };
        cx.count("c12_direct_probes");
        c12_check_rate(cx, &m, &w.prices, dur, "direct_probe");
        // execute the update: stored rate bound + indices never decrease
        let before = [
            m.funding_amount_per_size.0,
            m.funding_amount_per_size.1,
            m.claimable_funding_amount_per_size.0,
            m.claimable_funding_amount_per_size.1,
        ];
        m.clocks.insert(ClockKind::Funding, m.now.saturating_sub(dur));
        let prices = w.prices;
        let mut mm = m.clone();
        let r = guard(|| mm.update_funding(&prices)?.execute());
        if let Ok(Ok(_)) = r {
            let after = [
                mm.funding_amount_per_size.0,
                mm.funding_amount_per_size.1,
                mm.claimable_funding_amount_per_size.0,
                mm.claimable_funding_amount_per_size.1,
            ];
            for k in 0..4 {
                if after[k].long_amount < before[k].long_amount
                    || after[k].short_amount < before[k].short_amount
                {
                    let w2 = json!({"site": "direct_probe", "pool": k, "before": format!("{:?}", before[k]),
                        "after": format!("{:?}", after[k]), "market": market_json(&m), "prices": prices_json(&prices)});
                    cx.violation("C12:indices:funding_index_decreased", || w2);
                }
            }
            // Who pays, at the level of the per-(side, collateral) indices: the funding-fee-per-size
            // indices of the receiving side and the claimable-per-size indices of the paying side must
            // not move. The paying side comes from the exact recomputation of the rate (in the
            // non-adaptive mode that is the larger side).
            {
                let (long, short) = oi_totals(&m);
                let fp = funding_params_big(&m);
                let stored = bs(m.funding_factor_per_second);
                // the duration the update really saw (the clock cannot be set before time 0)
                let dur = m.now.saturating_sub(m.now.saturating_sub(dur));
                if long != 0 && short != 0 && dur > 0 {
                    if let Some(o) = oracle::next_funding_factor_per_second(&fp, &stored, dur, &bi(long), &bi(short)) {
                        if !o.rate.is_zero() {
                            let lps = o.longs_pay_shorts;
                            // [k]: 0 long side fee idx, 1 short side fee idx, 2 long side claimable, 3 short side claimable
                            let receiver_fee = if lps { 1 } else { 0 };
                            let payer_claim = if lps { 2 } else { 3 };
                            for (k, what) in [(receiver_fee, "receiving_side_charged_funding"), (payer_claim, "paying_side_credited_claimable")] {
                                if after[k].long_amount != before[k].long_amount || after[k].short_amount != before[k].short_amount {
                                    let w2 = json!({"site": "direct_probe", "pool": k, "longs_pay_shorts": lps,
                                        "long_open_interest": long.to_string(), "short_open_interest": short.to_string(),
                                        "before": format!("{:?}", before[k]), "after": format!("{:?}", after[k]),
                                        "market": market_json(&m), "prices": prices_json(&prices)});
                                    cx.violation(&format!("C12:indices:{what}"), || w2);
                                }
                            }
                            let payer_fee = if lps { 0 } else { 1 };
                            let moved = after[payer_fee].long_amount != before[payer_fee].long_amount || after[payer_fee].short_amount != before[payer_fee].short_amount;
                            cx.count(if moved { "c12_payer_indices_moved" } else { "c12_payer_indices_unmoved(rounding to 0 or no payer interest in that collateral)" });
                            if fp.increase.is_zero() {
                                cx.count("c12_who_pays_checked_fallback");
                            } else {
                                cx.count("c12_who_pays_checked_adaptive");
                            }
                        }
                    }
                }
            }
            let maxb = bi(*m.config.funding_fee_params.max_factor_per_second());
            if bs(mm.funding_factor_per_second).abs() > maxb {
                let w2 = json!({"site": "direct_probe", "stored": mm.funding_factor_per_second.to_string(),
                    "market": market_json(&m)});
                cx.violation("C12:adaptive_mode:stored_rate_above_max", || w2);
            }
            cx.count("c12_direct_updates_ok");
        } else {
            cx.count("c12_direct_updates_failed");
        }
    }
}

// ---------------------------------------------------------------------------------------------
// C09 boundary search
// ---------------------------------------------------------------------------------------------

fn liq_pred(m: &Mkt, p: &Pos, prices: &Prices<T>) -> Option<bool> {
    real_health(m, p, prices, true, true)
        .ok()
        .map(|h| h.liquidatable())
}

/// Compare the real verdict with the recomputation for an arbitrary (market, position, prices).
fn compare_at(cx: &mut Cx, m: &Mkt, p: &Pos, prices: &Prices<T>, site: &'static str) -> Option<Health> {
    let real = real_health(m, p, prices, true, true).ok()?;
    match oracle_health(m, p, prices, true, true) {
        Some(o) if o.health == real => {
            cx.count("c09_oracle_agree");
            cx.count("c09_boundary_oracle_agree");
        }
        Some(o) => {
            let w = json!({
                "site": site, "position": pos_json(p), "prices": prices_json(prices),
                "market": market_json(m), "real": real.name(), "oracle": o.health.name(),
                "oracle_remaining_collateral_value": o.remaining.to_string(),
                "oracle_pnl": o.pnl.to_string(), "oracle_cost_value": o.cost_value.to_string(),
                "oracle_impact": o.impact.to_string(),
            });
            cx.violation(&format!("C09:{site}:check_liquidatable_disagrees_with_recomputation"), || w);
        }
        None => cx.count("c09_oracle_skipped_not_expressible"),
    }
    Some(real)
}

/// Try the liquidation order on a clone; `expect_liquidatable` is the real verdict of the pre-state.
fn try_liquidation(
    cx: &mut Cx,
    m: &Mkt,
    p: &Pos,
    prices: &Prices<T>,
    expect_liquidatable: bool,
    site: &'static str,
) {
    let mut mm = m.clone();
    let mut pp = *p;
    let mut a = DecArgs::plain(p.size_in_usd, 0);
    a.liquidation = true;
    a.insolvent = true;
    match do_decrease(&mut mm, &mut pp, *prices, &a) {
        Ok(rep) => {
            if !expect_liquidatable {
                let w = json!({"site": site, "position": pos_json(p), "prices": prices_json(prices),
                    "market": market_json(m), "args": a.json()});
                cx.violation("C09:liquidation:succeeded_on_healthy_position", || w);
            } else {
                cx.count("c09_boundary_liquidations_ok");
            }
            if !rep.should_remove() || pp.size_in_usd != 0 || pp.collateral_token_amount != 0 {
                let w = json!({"site": site, "position": pos_json(p), "prices": prices_json(prices),
                    "market": market_json(m), "args": a.json(), "position_after": pos_json(&pp)});
                cx.violation("C09:liquidation:position_not_fully_closed", || w);
            }
        }
        Err(f) => {
            if f.is_not_liquidatable() {
                if expect_liquidatable {
                    let w = json!({"site": site, "position": pos_json(p), "prices": prices_json(prices),
                        "market": market_json(m)});
                    cx.violation("C09:liquidation:check_liquidation_disagrees_with_check_liquidatable", || w);
                } else {
                    cx.count("c09_boundary_rejections_ok");
                }
            } else {
                cx.count(&format!("c09_boundary_liquidation_fail_{}", f.class()));
            }
        }
    }
}

fn with_collateral(m: &Mkt, p: &Pos, c: T) -> Option<(Mkt, Pos)> {
    let mut mm = m.clone();
    let mut pp = *p;
    let pool = if p.is_long {
        &mut mm.collateral_sum.0
    } else {
        &mut mm.collateral_sum.1
    };
    let slot = if p.is_collateral_token_long {
        &mut pool.long_amount
    } else {
        &mut pool.short_amount
    };
    *slot = slot.checked_sub(p.collateral_token_amount)?.checked_add(c)?;
    pp.collateral_token_amount = c;
    Some((mm, pp))
}

pub fn c09_boundary(w: &mut World, cx: &mut Cx, rng: &mut Rng) {
    let open: Vec<usize> = (0..w.positions.len())
        .filter(|i| w.positions[*i].size_in_usd != 0)
        .collect();
    if open.is_empty() {
        return;
    }
    let i = *rng.pick(&open);
    let p = w.positions[i];
    let m = w.market.clone();
    let prices = w.prices;
    if rng.bool() {
        // --- bisection on the collateral amount (monotone: more collateral => healthier)
        let c0 = p.collateral_token_amount;
        let pred = |c: T| with_collateral(&m, &p, c).and_then(|(mm, pp)| liq_pred(&mm, &pp, &prices));
        if pred(0) != Some(true) {
            cx.count("c09_boundary_skipped_never_liquidatable");
            return;
        }
        let mut lo: T = 0;
        let mut hi: T = c0.max(1);
        let mut found = false;
        for _ in 0..40 {
            match pred(hi) {
                Some(false) => {
                    found = true;
                    break;
                }
                Some(true) => {
                    lo = hi;
                    hi = match hi.checked_mul(2) {
                        Some(x) => x,
                        None => break,
                    };
                }
                None => break,
            }
        }
        if !found {
            cx.count("c09_boundary_skipped_no_upper");
            return;
        }
        while hi - lo > 1 {
            let mid = lo + (hi - lo) / 2;
            match pred(mid) {
                Some(true) => lo = mid,
                Some(false) => hi = mid,
                None => {
                    cx.count("c09_boundary_skipped_error");
                    return;
                }
            }
        }
        cx.m.eval();
        cx.count("c09_boundary_pairs");
        cx.count("c09_boundary_pairs_collateral");
        for (c, expect) in [(lo, true), (hi, false)] {
            if let Some((mm, pp)) = with_collateral(&m, &p, c) {
                let real = compare_at(cx, &mm, &pp, &prices, "boundary_collateral");
                if let Some(h) = real {
                    if h.liquidatable() != expect {
                        cx.count("c09_boundary_predicate_unstable");
                        continue;
                    }
                    try_liquidation(cx, &mm, &pp, &prices, expect, "boundary_collateral");
                }
            }
        }
        cx.nontrivial(format!("{TAG}|bc|{}|{}|{}|{lo}", p.size_in_usd, p.size_in_tokens, p.is_long).as_bytes());
    } else {
        // --- bisection on the index price (adjacent flip of the verdict)
        let idx = u(prices.index_token_price.min);
        let at = |x: u128| {
            let mut pr = prices;
            let same_long = prices.long_token_price.min == prices.index_token_price.min
                && prices.long_token_price.max == prices.index_token_price.max;
            pr.index_token_price = Price { min: t(x), max: t(x) };
            if same_long {
                pr.long_token_price = pr.index_token_price;
            }
            pr
        };
        let mut lo = (idx / 4).max(1);
        let mut hi = idx.saturating_mul(4);
        let (Some(plo), Some(phi)) = (liq_pred(&m, &p, &at(lo)), liq_pred(&m, &p, &at(hi))) else {
            cx.count("c09_boundary_skipped_error");
            return;
        };
        if plo == phi {
            cx.count("c09_boundary_skipped_no_flip_in_range");
            return;
        }
        while hi - lo > 1 {
            let mid = lo + (hi - lo) / 2;
            match liq_pred(&m, &p, &at(mid)) {
                Some(v) if v == plo => lo = mid,
                Some(_) => hi = mid,
                None => {
                    cx.count("c09_boundary_skipped_error");
                    return;
                }
            }
        }
        cx.m.eval();
        cx.count("c09_boundary_pairs");
        cx.count("c09_boundary_pairs_price");
        for (x, expect) in [(lo, plo), (hi, phi)] {
            let pr = at(x);
            if let Some(h) = compare_at(cx, &m, &p, &pr, "boundary_price") {
                if h.liquidatable() != expect {
                    cx.count("c09_boundary_predicate_unstable");
                    continue;
                }
                try_liquidation(cx, &m, &p, &pr, expect, "boundary_price");
            }
        }
        cx.nontrivial(format!("{TAG}|bp|{}|{}|{}|{lo}", p.size_in_usd, p.size_in_tokens, p.is_long).as_bytes());
    }
}

// ---------------------------------------------------------------------------------------------
// C10 open-then-close
// ---------------------------------------------------------------------------------------------

pub fn c10_roundtrip(w: &mut World, cx: &mut Cx, rng: &mut Rng) {
    for _ in 0..3 {
        let mut m = w.market.clone();
        let prices = w.prices;
        let is_long = rng.bool();
        let coll_long = rng.bool();
        let mut p = if is_long {
            Pos::long(coll_long)
        } else {
            Pos::short(coll_long)
        };
        let refresh = rng.bool();
        if refresh && do_update_fees(&mut m, &prices).is_err() {
            cx.count("c10_update_fees_failed");
            continue;
        }
        let cp = if coll_long {
            prices.long_token_price
        } else {
            prices.short_token_price
        };
        let op = if coll_long {
            prices.short_token_price
        } else {
            prices.long_token_price
        };
        let hi = u(usd(w.pool_usd / 3 + 1));
        let idx = u(prices.index_token_price.max);
        let pp = &w.market.config.position_params;
        let min_size = u(*pp.min_position_size_usd());
        let min_cv = u(*pp.min_collateral_value());
        let size = match rng.below(4) {
            0 => {
                let k_min = (min_size / idx.max(1)).saturating_add(1);
                t(idx
                    .saturating_mul(k_min.saturating_add(rng.range_u128(0, 7)))
                    .saturating_add(rng.below_u128(idx + 1)))
            }
            _ => t(min_size.max(u(UNIT)) + rng.log_u128(hi)),
        };
        let lev = 1 + rng.log_u128(120);
        let mut coll_value = u(size) / lev;
        if rng.chance(9, 10) {
            coll_value = coll_value.max(min_cv + min_cv / 4 * rng.range_u128(1, 8) + u(size) / 400);
        }
        let collateral = t(coll_value / u(cp.min).max(1) + 1 + rng.below_u128(3));
        cx.m.eval();
        let inc = match do_increase(&mut m, &mut p, prices, collateral, size, None) {
            Ok(r) => r,
            Err(f) => {
                cx.count("c10_open_failed");
                cx.count(&format!("c10_open_fail_{}", f.class()));
                continue;
            }
        };
        if refresh {
            // zero elapsed time: the program would still run update_fees_state before the close
            if do_update_fees(&mut m, &prices).is_err() {
                cx.count("c10_update_fees_failed");
                continue;
            }
        }
        let opened = p;
        let a = DecArgs::plain(p.size_in_usd, 0);
        let dec = match do_decrease(&mut m, &mut p, prices, &a) {
            Ok(r) => r,
            Err(f) => {
                cx.count("c10_close_failed");
                cx.count(&format!("c10_close_fail_{}", f.class()));
                continue;
            }
        };
        cx.count("c10_roundtrips_ok");
        if !dec.should_remove() {
            cx.count("c10_close_did_not_remove");
        }
        // amounts received by the trader, per token (0 = long token, 1 = short token)
        let mut recv = [BigInt::zero(), BigInt::zero()];
        let ti = |long_token: bool| if long_token { 0usize } else { 1 };
        let fu = dec.claimable_collateral_for_user();
        recv[ti(dec.is_output_token_long())] += bi(*dec.output_amount()) + bi(*fu.output_token_amount());
        recv[ti(dec.is_secondary_output_token_long())] +=
            bi(*dec.secondary_output_amount()) + bi(*fu.secondary_output_token_amount());
        let (cl, cs) = dec.claimable_funding_amounts();
        recv[0] += bi(*cl);
        recv[1] += bi(*cs);
        let (il, is_) = inc.claimable_funding_amounts();
        recv[0] += bi(*il);
        recv[1] += bi(*is_);
        let tc = ti(coll_long);
        let to = 1 - tc;
        let net_c = &recv[tc] - bi(collateral);
        let net_c_value = if net_c.is_positive() {
            &net_c * bi(cp.max)
        } else {
            &net_c * bi(cp.min)
        };
        let other_value = &recv[to] * bi(op.max);
        let profit = &net_c_value + &other_value;
        let unit_c = bi(cp.max);
        let unit_o = if recv[to].is_zero() { BigInt::zero() } else { bi(op.max) };
        let slack = BigInt::from(2) * unit_c.max(unit_o);
        if !recv[to].is_zero() {
            cx.count("c10_received_secondary_token");
        }
        if *fu.output_token_amount() != 0 || *fu.secondary_output_token_amount() != 0 {
            cx.count("c10_claimable_for_user");
        }
        if inc.execution().price_impact_value().is_positive() {
            cx.count("c10_positive_impact_on_open");
        }
        if profit.is_positive() {
            cx.count("c10_positive_within_or_beyond_slack");
        }
        if profit > slack {
            // Class: positive impact cap above negative impact cap; the gain is then bounded by
            // (max_positive_factor - max_negative_factor) * size.
            let pp = &w.market.config.position_params;
            let gap = bi(*pp.max_positive_position_impact_factor()) - bi(*pp.max_negative_position_impact_factor());
            let asym = w.info.impact_cap_asymmetry
                && profit <= oracle::apply_factor(&bi(opened.size_in_usd), &gap) + &slack;
            let sig = if asym {
                "C10:roundtrip:profit_with_positive_impact_cap_above_negative_cap"
            } else {
                "C10:roundtrip:profitable"
            };
            let wv = json!({
                "is_long": is_long, "collateral_is_long_token": coll_long,
                "collateral_deposited": collateral.to_string(), "size_delta_usd": size.to_string(),
                "prices": prices_json(&prices), "fee_state_refreshed": refresh,
                "market_before_open": market_json(&w.market),
                "position_after_open": pos_json(&opened),
                "open_price_impact_value": inc.execution().price_impact_value().to_string(),
                "close_price_impact_value": dec.price_impact_value().to_string(),
                "close_price_impact_diff": dec.price_impact_diff().to_string(),
                "close_pnl": dec.pnl().pnl().to_string(),
                "received_long_token": recv[0].to_string(), "received_short_token": recv[1].to_string(),
                "profit_value": profit.to_string(), "allowed_slack_value": slack.to_string(),
                "position_params": format!("{:?}", w.market.config.position_params),
            });
            cx.violation(sig, || wv);
        }
        cx.nontrivial(
            format!(
                "{TAG}|{is_long}|{coll_long}|{collateral}|{size}|{:?}|{}|{}",
                prices.index_token_price, w.world_idx, w.step
            )
            .as_bytes(),
        );
    }
}

// ---------------------------------------------------------------------------------------------
// C11 pnl probes
// ---------------------------------------------------------------------------------------------

fn real_pnl(m: &Mkt, p: &Pos, prices: &Prices<T>, delta: T) -> Option<(S, S, T)> {
    let mut mm = m.clone();
    let mut pp = *p;
    guard(|| pp.ops(&mut mm).pnl_value(prices, &delta)).ok()?.ok()
}

pub fn c11_probe(w: &mut World, cx: &mut Cx, rng: &mut Rng) {
    let m = w.market.clone();
    for i in 0..w.positions.len() {
        let p = w.positions[i];
        if p.size_in_usd == 0 {
            continue;
        }
        let idx = u(w.prices.index_token_price.min);
        for _ in 0..3 {
            // two index prices, p1 <= p2 componentwise and different
            let a_min = (idx / 2 + rng.below_u128(idx + idx / 2 + 1)).max(1);
            let a_max = a_min + match rng.below(3) {
                0 => 0,
                1 => 1,
                _ => rng.below_u128(a_min / 100 + 1),
            };
            let d = match rng.below(4) {
                0 => 1,
                1 => rng.below_u128(a_min / 1000 + 2),
                _ => rng.below_u128(a_min + 1),
            }
            .max(1);
            let (b_min, b_max) = match rng.below(3) {
                0 => (a_min + d, a_max + d),
                1 => (a_min, a_max + d),
                _ => (a_min + d.min(a_max - a_min + d), a_max + d),
            };
            let b_min = b_min.min(b_max);
            let mut pr1 = w.prices;
            let mut pr2 = w.prices;
            pr1.index_token_price = Price { min: t(a_min), max: t(a_max) };
            pr2.index_token_price = Price { min: t(b_min), max: t(b_max) };
            // markets whose long token is the index token: half of the probes move both together
            let together = w.base.long_is_index
                && w.prices.long_token_price.min == w.prices.index_token_price.min
                && w.prices.long_token_price.max == w.prices.index_token_price.max
                && rng.bool();
            if together {
                pr1.long_token_price = pr1.index_token_price;
                pr2.long_token_price = pr2.index_token_price;
                cx.count("c11_pairs_long_token_moves_with_index");
            }
            let full = p.size_in_usd;
            let partial: T = match rng.below(4) {
                0 => full,
                1 => 1.min(full),
                _ => t(rng.below_u128(u(full)) + 1),
            };
            let (Some(r1), Some(r2)) = (real_pnl(&m, &p, &pr1, partial), real_pnl(&m, &p, &pr2, partial)) else {
                cx.count("c11_pnl_value_err");
                continue;
            };
            cx.m.eval();
            cx.count("c11_pairs");
            let mut binding = false;
            // exact recomputation at both prices
            for (pr, r) in [(&pr1, &r1), (&pr2, &r2)] {
                match oracle::pnl_value(&m, &p, pr, &bi(partial)) {
                    Some(o) => {
                        binding |= o.cap_binding;
                        if o.pnl != bs(r.0) || o.uncapped != bs(r.1) || o.dtok != bi(r.2) {
                            let wv = json!({"position": pos_json(&p), "prices": prices_json(pr),
                                "size_delta_usd": partial.to_string(), "market": market_json(&m),
                                "real": [r.0.to_string(), r.1.to_string(), r.2.to_string()],
                                "recomputed": [o.pnl.to_string(), o.uncapped.to_string(), o.dtok.to_string()]});
                            cx.violation("C11:pnl_value:differs_from_recomputation", || wv);
                        } else {
                            cx.count("c11_oracle_agree");
                        }
                    }
                    None => cx.count("c11_oracle_not_expressible"),
                }
                if r.0 > r.1 {
                    let wv = json!({"position": pos_json(&p), "prices": prices_json(pr),
                        "size_delta_usd": partial.to_string(), "market": market_json(&m),
                        "pnl": r.0.to_string(), "uncapped": r.1.to_string()});
                    cx.violation("C11:pnl_value:capped_exceeds_uncapped", || wv);
                }
            }
            if binding {
                cx.count("c11_capped_cases");
            }
            if r1.0 != 0 || r2.0 != 0 {
                cx.nontrivial(
                    format!("{TAG}|{}|{}|{}|{partial}|{a_min}|{a_max}|{b_min}|{b_max}", p.is_long, p.size_in_usd, p.size_in_tokens)
                        .as_bytes(),
                );
            }
            let wrong = |x1: S, x2: S| if p.is_long { x1 > x2 } else { x1 < x2 };
            if wrong(r1.1, r2.1) {
                let wv = json!({"position": pos_json(&p), "p1": prices_json(&pr1), "p2": prices_json(&pr2),
                    "size_delta_usd": partial.to_string(), "uncapped_at_p1": r1.1.to_string(),
                    "uncapped_at_p2": r2.1.to_string(), "market": market_json(&m)});
                cx.violation("C11:pnl_monotone:uncapped_wrong_direction", || wv);
            }
            if wrong(r1.0, r2.0) {
                let sig = if binding {
                    cx.count("c11_capped_non_monotone");
                    "C11:pnl_monotone:capped_regime_share_dilution"
                } else {
                    "C11:pnl_monotone:wrong_direction"
                };
                let wv = json!({"position": pos_json(&p), "p1": prices_json(&pr1), "p2": prices_json(&pr2),
                    "size_delta_usd": partial.to_string(), "pnl_at_p1": r1.0.to_string(),
                    "pnl_at_p2": r2.0.to_string(), "trader_cap_binding": binding,
                    "max_pnl_factor_for_trader": m.config.max_pnl_factors.trader.to_string(),
                    "market": market_json(&m)});
                cx.violation(sig, || wv);
            }
            // proportional share of a partial close (at p1)
            if partial < full {
                if let Some(rf) = real_pnl(&m, &p, &pr1, full) {
                    cx.count("c11_partial_cases");
                    let total = bs(rf.0);
                    let tokens = bi(p.size_in_tokens);
                    let size = bi(full);
                    let lhs = (bs(r1.0) * &size - &total * bi(partial)).abs() * &tokens;
                    let rhs = (total.abs() + &tokens) * &size;
                    if lhs > rhs {
                        let wv = json!({"position": pos_json(&p), "prices": prices_json(&pr1),
                            "size_delta_usd": partial.to_string(), "pnl_partial": r1.0.to_string(),
                            "pnl_full": rf.0.to_string(), "market": market_json(&m)});
                        cx.violation("C11:partial_close:share_not_proportional", || wv);
                    }
                }
            }
            // realised pnl of actual decreases (partial, dust-remainder, over-sized with capping): the
            // pnl realised by the action must be pnl_value for the size the action really closed
            // (a partial order can be promoted to a full close), i.e. the share proportional to it.
            if rng.chance(1, 3) {
                let dust = (full / 1_000_000).max(1);
                let candidates = [partial, full.saturating_sub(dust).max(1), full.saturating_sub(1).max(1), full / 2 + 1, full];
                let req = candidates[rng.below(candidates.len() as u64) as usize];
                let mut mm = m.clone();
                let mut pp = p;
                if let Ok(rep) = do_decrease(&mut mm, &mut pp, pr1, &DecArgs::plain(req, 0)) {
                    let closed = *rep.size_delta_usd();
                    cx.count(if closed != req { "c11_real_decrease_size_adjusted" } else { "c11_real_decrease_size_as_requested" });
                    if closed != 0 {
                        if let Some(exp) = real_pnl(&m, &p, &pr1, closed) {
                            if *rep.pnl().pnl() != exp.0 || *rep.pnl().uncapped_pnl() != exp.1 || *rep.size_delta_in_tokens() != exp.2 {
                                let wv = json!({"position": pos_json(&p), "prices": prices_json(&pr1),
                                    "requested_size_delta_usd": req.to_string(), "closed_size_delta_usd": closed.to_string(),
                                    "realised": [rep.pnl().pnl().to_string(), rep.pnl().uncapped_pnl().to_string(), rep.size_delta_in_tokens().to_string()],
                                    "pnl_value_for_closed_size": [exp.0.to_string(), exp.1.to_string(), exp.2.to_string()],
                                    "removed": rep.should_remove(), "market": market_json(&m)});
                                cx.violation("C11:decrease:realised_pnl_not_for_closed_size", || wv);
                            } else {
                                cx.count("c11_real_decrease_pnl_matches_closed_size");
                            }
                        }
                    }
                } else {
                    cx.count("c11_real_decrease_failed");
                }
            }
            // realised pnl of actual full closes at both prices
            if rng.chance(1, 4) {
                let close = |pr: &Prices<T>| {
                    let mut mm = m.clone();
                    let mut pp = p;
                    do_decrease(&mut mm, &mut pp, *pr, &DecArgs::plain(full, 0)).ok()
                };
                if let (Some(c1), Some(c2)) = (close(&pr1), close(&pr2)) {
                    cx.count("c11_real_closes");
                    let (x1, x2) = (*c1.pnl().pnl(), *c2.pnl().pnl());
                    let (u1, u2) = (*c1.pnl().uncapped_pnl(), *c2.pnl().uncapped_pnl());
                    if wrong(u1, u2) || (wrong(x1, x2) && !binding) {
                        let wv = json!({"position": pos_json(&p), "p1": prices_json(&pr1), "p2": prices_json(&pr2),
                            "realised_pnl": [x1.to_string(), x2.to_string()],
                            "realised_uncapped": [u1.to_string(), u2.to_string()], "market": market_json(&m)});
                        cx.violation("C11:pnl_monotone:realised_close_wrong_direction", || wv);
                    }
                    if x1 > u1 || x2 > u2 {
                        let wv = json!({"position": pos_json(&p), "realised_pnl": [x1.to_string(), x2.to_string()],
                            "realised_uncapped": [u1.to_string(), u2.to_string()]});
                        cx.violation("C11:pnl_value:capped_exceeds_uncapped", || wv);
                    }
                }
            }
        }
    }
}
