//! Instantiation of the perp world for `u128` with 20 decimals (production).
pub type T = u128;
pub type S = i128;
pub const D: u8 = 20;
pub const TAG: &str = "u128/20";
#[path = "perp_oracle.rs"]
pub mod oracle;
#[path = "perp_probe.rs"]
pub mod probe;
#[path = "perp_world.rs"]
pub mod world;
