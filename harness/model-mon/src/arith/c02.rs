//! C02 — fee splitting never creates or loses tokens.
//!
//! Observed (real code): `FeeParams::fee`, `FeeParams::receiver_fee`, `FeeParams::apply_fees`
//! (swap / deposit / withdrawal fees all go through it), `FeeParams::base_position_fees` (order
//! fees; the private `order_fees` is fully visible through it), the liquidation fee through the
//! public `PositionExt::position_fees(.., is_liquidation = true)` over `MonMarket`, and — for the
//! "fee never larger than what it is charged on" clause of order fees — a real
//! `increase().execute()` on a fresh `MonMarket` position.
//!
//! Oracle (BigInt, all roundings down unless stated):
//!   F = ⌊a·f⌋, fee = F − ⌊F·d⌋, receiver = ⌊fee·r⌋, pool = fee − receiver, net = a − fee,
//!   f = positive-impact factor iff the balance change is `Improved`, else the negative one;
//!   order fee amount = ⌊fee_value / price.min⌋; liquidation amount = ⌈⌊size·lf⌋ / price.min⌉.
//! Rules: every returned split is conserved exactly (`net + pool + receiver == gross`), every part
//! equals the formula, `fee ≤ gross`, a discount never raises the fee and the fee is monotone
//! non-increasing in the discount, configurations with all factors ≤ 100 % never fail, and a
//! returned split whose fee exceeds the gross amount (possible only through wrapping) is a
//! violation. With factors above 100 % a failure is the expected outcome; a success is accepted
//! only if it is exactly the conserved split of the formula (e.g. a 150 % factor with a 50 %
//! discount, or amounts so small that the fee rounds to ≤ gross).

use super::numx::*;
use crate::monmarket::{MonMarket, MonPosition};
use gmsol_model::{
    fixed::FixedPointOps,
    params::{
        fee::{LiquidationFeeParams, PositionFees},
        FeeParams,
    },
    pool::delta::BalanceChange,
    price::{Price, Prices},
    MarketAction, PositionExt, PositionMutExt,
};
use vcommon::{
    big,
    monitor::{guard, run_shards},
    num_bigint::BigInt,
    num_traits::Zero as _,
    rng::fnv,
    serde_json::{json, Value},
    Args, Monitor, Rng,
};

const RULE: &str = "cases: amounts boundary-biased over the whole type, fee / receiver / discount factors from \
{0,1,UNIT-1,UNIT,UNIT+1,2·UNIT,MAX, log-uniform production-like, uniform ≤ UNIT, > UNIT}, all three BalanceChange kinds, min/max \
prices incl. 0 and 1, for u64/9 and u128/20; the real FeeParams::{fee,receiver_fee,apply_fees,base_position_fees}, \
PositionExt::position_fees(..,is_liquidation=true) and increase().execute() run under a panic guard and a BigInt oracle decides: \
returned splits satisfy net+pool+receiver==gross exactly and equal the floor formulas (liquidation amount rounds up), fee<=gross, \
fee(discount)<=fee(0) and monotone, all-factors<=100% never fails, no returned split has fee>gross. non-trivial = a split was \
returned with fee>0; distinct = hash(site,type,all inputs) over the first 1.9e6/(2·shards) non-trivial cases per shard and type (memory bound: a lower bound).";

struct Cx<'a> {
    m: &'a mut Monitor,
    t: Tally,
    d: Distinct,
    ty: &'static str,
}

impl Cx<'_> {
    fn viol(&mut self, site: &'static str, class: &str, w: Value) {
        self.t.hit(site, "violations");
        self.m.violation(&format!("C02:{site}:{class}"), w);
    }
    fn nontrivial(&mut self, site: &'static str, words: &[u128]) {
        let tag = fnv(site.as_bytes()) ^ fnv(self.ty.as_bytes()).rotate_left(7);
        self.d.note(self.m, tag, words);
        self.t.hit(site, "nontrivial");
    }
}

fn unit<T: Nx + FixedPointOps<D>, const D: u8>() -> u128 {
    <T as FixedPointOps<D>>::UNIT.tu()
}

#[derive(Clone, Copy, Debug)]
struct Cfg {
    pf: u128,
    nf: u128,
    rf: u128,
    df: Option<u128>,
}

impl Cfg {
    fn all_valid(&self, unit: u128) -> bool {
        self.pf <= unit && self.nf <= unit && self.rf <= unit && self.df.unwrap_or(0) <= unit
    }
    fn factor(&self, bc: u8) -> u128 {
        // 0 = Improved → positive-impact factor; 1 = Worsened, 2 = Unchanged → negative-impact factor
        if bc == 0 {
            self.pf
        } else {
            self.nf
        }
    }
    fn json(&self) -> Value {
        json!({
            "positive_impact_fee_factor": ds(self.pf),
            "negative_impact_fee_factor": ds(self.nf),
            "fee_receiver_factor": ds(self.rf),
            "discount_factor": self.df.map(|d| d.to_string()),
        })
    }
    fn params<T: Nx>(&self, via_with: bool) -> FeeParams<T> {
        let base = FeeParams::builder()
            .positive_impact_fee_factor(T::fu(self.pf))
            .negative_impact_fee_factor(T::fu(self.nf))
            .fee_receiver_factor(T::fu(self.rf));
        match self.df {
            None => base.build(),
            Some(d) if via_with => base.build().with_discount_factor(T::fu(d)),
            Some(d) => base.discount_factor(T::fu(d)).build(),
        }
    }
}

fn bc_of(i: u8) -> BalanceChange {
    match i {
        0 => BalanceChange::Improved,
        1 => BalanceChange::Worsened,
        _ => BalanceChange::Unchanged,
    }
}

fn bc_name(i: u8) -> &'static str {
    match i {
        0 => "Improved",
        1 => "Worsened",
        _ => "Unchanged",
    }
}

fn gen_cfg<T: Nx>(rng: &mut Rng, unit: u128) -> Cfg {
    // 60 %: everything valid; 40 %: anything (often with some factor above 100 %)
    let valid_only = rng.chance(3, 5);
    let g = |rng: &mut Rng| {
        let f = gfactor::<T>(rng, unit);
        if valid_only {
            f.min(unit)
        } else {
            f
        }
    };
    let pf = g(rng);
    let nf = g(rng);
    let rf = g(rng);
    let df = if rng.chance(1, 3) { None } else { Some(g(rng)) };
    Cfg { pf, nf, rf, df }
}

fn gen_amount<T: Nx>(rng: &mut Rng, unit: u128) -> u128 {
    match rng.below(6) {
        0 => rng.log_u128(1_000), // dust: every rounding matters
        1 => rng.log_u128(unit.saturating_mul(1_000_000_000).min(T::UMAX)),
        _ => gu::<T>(rng, unit),
    }
}

/// ⌊x·f/UNIT⌋ if it fits the type.
fn apply<T: Nx>(x: &BigInt, f: u128, unit: u128) -> Option<BigInt> {
    let v = big::div_floor(&(x * bu(f)), &bu(unit));
    fits_u::<T>(&v).then_some(v)
}

/// The documented fee: F − ⌊F·d⌋.
fn fee_oracle<T: Nx>(a: u128, f: u128, d: u128, unit: u128) -> Option<BigInt> {
    let big_f = apply::<T>(&bu(a), f, unit)?;
    let dsc = apply::<T>(&big_f, d, unit)?;
    (dsc <= big_f).then(|| big_f - dsc)
}

struct Split {
    net: BigInt,
    fee: BigInt,
    pool: BigInt,
    receiver: BigInt,
}

fn split_oracle<T: Nx>(a: u128, cfg: &Cfg, bc: u8, unit: u128) -> Option<Split> {
    let fee = fee_oracle::<T>(a, cfg.factor(bc), cfg.df.unwrap_or(0), unit)?;
    let receiver = apply::<T>(&fee, cfg.rf, unit)?;
    if receiver > fee || fee > bu(a) {
        return None;
    }
    Some(Split {
        net: bu(a) - &fee,
        pool: &fee - &receiver,
        fee,
        receiver,
    })
}

fn case_apply_fees<T: Nx + FixedPointOps<D>, const D: u8>(cx: &mut Cx, rng: &mut Rng) {
    let u = unit::<T, D>();
    let cfg = gen_cfg::<T>(rng, u);
    let a = gen_amount::<T>(rng, u);
    let bc = rng.below(3) as u8;
    let valid = cfg.all_valid(u);
    let p = cfg.params::<T>(rng.bool());
    let inputs = || json!({"type": T::NAME, "params": cfg.json(), "balance_change": bc_name(bc), "amount": ds(a)});
    cx.t.hit("config", if valid { "all_factors_le_100pct" } else { "some_factor_gt_100pct" });
    cx.t.hit("config", bc_name(bc));

    // ---- fee() -------------------------------------------------------------------------------
    {
        let site = "fee";
        cx.m.eval();
        cx.t.hit(site, "calls");
        let got = guard(|| p.fee::<D>(bc_of(bc), &T::fu(a)));
        let exp = fee_oracle::<T>(a, cfg.factor(bc), cfg.df.unwrap_or(0), u);
        match got {
            Err(pn) => cx.viol(site, "panic", json!({"inputs": inputs(), "panic": pn})),
            Ok(Some(v)) => {
                let v = bu(v.tu());
                match &exp {
                    Some(e) if *e == v => {
                        cx.t.hit(site, "value");
                        if valid && v > bu(a) {
                            cx.viol(site, "fee_exceeds_gross", json!({"inputs": inputs(), "fee": ds(&v)}));
                        }
                        if !valid && v > bu(a) {
                            // `fee()` alone does not subtract; the charge happens in apply_fees.
                            cx.t.hit(site, "fee_gt_amount_with_factor_gt_100pct(not charged here)");
                        }
                    }
                    Some(e) => cx.viol(site, "wrong_value", json!({"inputs": inputs(), "got": ds(&v), "exact": ds(e)})),
                    None => cx.viol(
                        site,
                        "value_where_formula_not_computable",
                        json!({"inputs": inputs(), "got": ds(&v)}),
                    ),
                }
            }
            Ok(None) => {
                cx.t.hit(site, "fail");
                if exp.is_some() && valid {
                    cx.viol(site, "fails_on_valid_factors", json!({"inputs": inputs()}));
                } else if exp.is_some() {
                    cx.t.hit(site, "fail_stricter_than_formula_on_invalid_factors");
                }
            }
        }
    }

    // ---- discount never raises the fee; monotone in the discount -----------------------------
    {
        let site = "fee_discount";
        let d1 = gfactor::<T>(rng, u).min(u);
        let d2 = gfactor::<T>(rng, u).min(u);
        let (d1, d2) = (d1.min(d2), d1.max(d2));
        let mk = |d: Option<u128>| Cfg { df: d, ..cfg }.params::<T>(true);
        let r = guard(|| {
            (
                mk(None).fee::<D>(bc_of(bc), &T::fu(a)),
                mk(Some(d1)).fee::<D>(bc_of(bc), &T::fu(a)),
                mk(Some(d2)).fee::<D>(bc_of(bc), &T::fu(a)),
            )
        });
        cx.m.eval();
        cx.t.hit(site, "calls");
        match r {
            Err(pn) => cx.viol(site, "panic", json!({"inputs": inputs(), "panic": pn})),
            Ok((f0, f1, f2)) => {
                let w = || {
                    json!({"inputs": inputs(), "d1": ds(d1), "d2": ds(d2),
                        "fee_no_discount": f0.map(|x| x.to_string()), "fee_d1": f1.map(|x| x.to_string()), "fee_d2": f2.map(|x| x.to_string())})
                };
                if let (Some(f0), Some(f1), Some(f2)) = (f0, f1, f2) {
                    cx.t.hit(site, "triples_compared");
                    if f1 > f0 || f2 > f0 {
                        cx.viol(site, "discount_raises_fee", w());
                    } else if f2 > f1 {
                        cx.viol(site, "not_monotone_in_discount", w());
                    } else if f2 < f1 {
                        cx.t.hit(site, "strictly_lower_with_larger_discount");
                    }
                } else if f0.is_some() {
                    // discount ≤ 100 % can never make a computable fee uncomputable
                    cx.viol(site, "valid_discount_makes_fee_fail", w());
                } else {
                    cx.t.hit(site, "base_fee_not_computable");
                }
            }
        }
    }

    // ---- receiver_fee() ----------------------------------------------------------------------
    {
        let site = "receiver_fee";
        let x = if rng.bool() { a } else { gu::<T>(rng, u) };
        cx.m.eval();
        cx.t.hit(site, "calls");
        let got = guard(|| p.receiver_fee::<D>(&T::fu(x)));
        let exp = apply::<T>(&bu(x), cfg.rf, u);
        let w = || json!({"inputs": inputs(), "fee_amount": ds(x)});
        match got {
            Err(pn) => cx.viol(site, "panic", json!({"inputs": w(), "panic": pn})),
            Ok(Some(v)) => {
                let v = bu(v.tu());
                match &exp {
                    Some(e) if *e == v => {
                        cx.t.hit(site, "value");
                        if cfg.rf <= u && v > bu(x) {
                            cx.viol(site, "receiver_share_exceeds_fee", w());
                        }
                    }
                    Some(e) => cx.viol(site, "wrong_value", json!({"inputs": w(), "got": ds(&v), "exact": ds(e)})),
                    None => cx.viol(site, "value_where_formula_not_computable", json!({"inputs": w(), "got": ds(&v)})),
                }
            }
            Ok(None) => {
                cx.t.hit(site, "fail");
                if exp.is_some() && cfg.rf <= u {
                    cx.viol(site, "fails_on_valid_factors", w());
                }
            }
        }
    }

    // ---- apply_fees() ------------------------------------------------------------------------
    {
        let site = "apply_fees";
        cx.m.eval();
        cx.t.hit(site, "calls");
        let got = guard(|| p.apply_fees::<D>(bc_of(bc), &T::fu(a)));
        let exp = split_oracle::<T>(a, &cfg, bc, u);
        match got {
            Err(pn) => cx.viol(site, "panic", json!({"inputs": inputs(), "panic": pn})),
            Ok(Some((net, fees))) => {
                let net = bu(net.tu());
                let pool = bu(fees.fee_amount_for_pool().tu());
                let recv = bu(fees.fee_amount_for_receiver().tu());
                let w = || json!({"inputs": inputs(), "net": ds(&net), "pool": ds(&pool), "receiver": ds(&recv)});
                cx.t.hit(site, "split_returned");
                if !valid {
                    cx.t.hit(site, "split_returned_with_some_factor_gt_100pct");
                }
                let fee = &pool + &recv;
                if &net + &fee != bu(a) {
                    cx.viol(site, "not_conserved", w());
                } else if fee > bu(a) {
                    cx.viol(site, "fee_exceeds_gross", w());
                } else {
                    match &exp {
                        Some(e) if e.net == net && e.pool == pool && e.receiver == recv => {
                            cx.t.hit(site, "split_exact");
                            if e.fee.is_zero() {
                                cx.t.hit(site, "fee_zero");
                            } else {
                                if e.receiver.is_zero() {
                                    cx.t.hit(site, "receiver_share_zero");
                                }
                                if e.pool.is_zero() {
                                    cx.t.hit(site, "pool_share_zero");
                                }
                                if e.net.is_zero() {
                                    cx.t.hit(site, "fee_eq_gross");
                                }
                                cx.nontrivial(site, &[a, cfg.pf, cfg.nf, cfg.rf, cfg.df.unwrap_or(u128::MAX), bc as u128]);
                                if cx.m.wants_sample() {
                                    cx.m.sample(w());
                                }
                            }
                        }
                        Some(e) => cx.viol(
                            site,
                            "wrong_split",
                            json!({"observed": w(), "expected": {"net": ds(&e.net), "pool": ds(&e.pool), "receiver": ds(&e.receiver)}}),
                        ),
                        None => cx.viol(site, "split_where_formula_not_computable", w()),
                    }
                }
            }
            Ok(None) => {
                cx.t.hit(site, "fail");
                if !valid {
                    cx.t.hit(site, "fail_with_some_factor_gt_100pct");
                }
                if exp.is_some() && valid {
                    cx.viol(site, "fails_on_valid_factors", json!({"inputs": inputs()}));
                } else if exp.is_some() {
                    cx.t.hit(site, "fail_stricter_than_formula_on_invalid_factors");
                }
            }
        }
    }
}

fn gen_price<T: Nx>(rng: &mut Rng, unit: u128) -> (u128, u128) {
    let g = |rng: &mut Rng| match rng.below(8) {
        0 => 0,
        1 => 1,
        2 => gu::<T>(rng, unit),
        _ => rng.log_u128(unit.saturating_mul(1_000_000).min(T::UMAX)).max(1),
    };
    let a = g(rng);
    match rng.below(4) {
        0 => (a, a),
        1 => (a, g(rng)), // possibly min > max: the model does not order them here
        _ => {
            let b = g(rng);
            (a.min(b), a.max(b))
        }
    }
}

struct OrderExp {
    fee_value: BigInt,
    fee_amount: BigInt,
    pool: BigInt,
    receiver: BigInt,
}

fn order_oracle<T: Nx>(size: u128, cfg: &Cfg, bc: u8, min_price: u128, unit: u128) -> Option<OrderExp> {
    if min_price == 0 {
        return None;
    }
    let fee_value = fee_oracle::<T>(size, cfg.factor(bc), cfg.df.unwrap_or(0), unit)?;
    let fee_amount = big::div_floor(&fee_value, &bu(min_price));
    let receiver = apply::<T>(&fee_amount, cfg.rf, unit)?;
    if receiver > fee_amount {
        return None;
    }
    Some(OrderExp {
        pool: &fee_amount - &receiver,
        fee_value,
        fee_amount,
        receiver,
    })
}

/// Check the order part of a `PositionFees` against the oracle. Returns true if exact.
fn check_order_part<T: Nx + FixedPointOps<D>, const D: u8>(
    cx: &mut Cx,
    site: &'static str,
    fees: &PositionFees<T>,
    e: &OrderExp,
    w: &dyn Fn() -> Value,
) -> bool {
    let fv = bu(fees.order_fees().fee_value().tu());
    let pool = bu(fees.order_fees().fee_amounts().fee_amount_for_pool().tu());
    let recv = bu(fees.order_fees().fee_amounts().fee_amount_for_receiver().tu());
    let obs = || json!({"fee_value": ds(&fv), "pool": ds(&pool), "receiver": ds(&recv)});
    let exp = || json!({"fee_value": ds(&e.fee_value), "fee_amount": ds(&e.fee_amount), "pool": ds(&e.pool), "receiver": ds(&e.receiver)});
    if &pool + &recv != e.fee_amount {
        cx.viol(site, "order_fee_not_conserved", json!({"inputs": w(), "observed": obs(), "expected": exp()}));
        false
    } else if fv != e.fee_value || pool != e.pool || recv != e.receiver {
        cx.viol(site, "wrong_order_fee_split", json!({"inputs": w(), "observed": obs(), "expected": exp()}));
        false
    } else {
        true
    }
}

fn case_order_fees<T: Nx + FixedPointOps<D>, const D: u8>(cx: &mut Cx, rng: &mut Rng) {
    let u = unit::<T, D>();
    let site = "base_position_fees";
    let cfg = gen_cfg::<T>(rng, u);
    let size = gen_amount::<T>(rng, u);
    let bc = rng.below(3) as u8;
    let (pmin, pmax) = gen_price::<T>(rng, u);
    let valid = cfg.all_valid(u);
    let p = cfg.params::<T>(rng.bool());
    let price = Price { min: T::fu(pmin), max: T::fu(pmax) };
    let w = || {
        json!({"type": T::NAME, "params": cfg.json(), "balance_change": bc_name(bc), "size_delta_usd": ds(size),
               "collateral_token_price": {"min": ds(pmin), "max": ds(pmax)}})
    };
    cx.m.eval();
    cx.t.hit(site, "calls");
    let got = guard(|| p.base_position_fees::<D>(&price, &T::fu(size), bc_of(bc)));
    let exp = order_oracle::<T>(size, &cfg, bc, pmin, u);
    match got {
        Err(pn) => cx.viol(site, "panic", json!({"inputs": w(), "panic": pn})),
        Ok(Ok(fees)) => {
            cx.t.hit(site, "ok");
            if pmin == 0 {
                cx.viol(site, "ok_with_zero_min_price", w());
                return;
            }
            if pmax == 0 {
                cx.t.hit(site, "ok_with_zero_max_price");
            }
            let Some(e) = exp else {
                cx.viol(site, "fees_where_formula_not_computable", w());
                return;
            };
            if !check_order_part::<T, D>(cx, site, &fees, &e, &w) {
                return;
            }
            // the rest of the structure must be empty and consistent
            let paid = bu(fees.paid_order_and_borrowing_fee_value().tu());
            let total = fees.total_cost_amount().ok().map(|x| bu(x.tu()));
            let for_pool = fees.for_pool::<D>().ok().map(|x| bu(x.tu()));
            let for_recv = fees.for_receiver().ok().map(|x| bu(x.tu()));
            let empty = fees.borrowing_fees().fee_amount().tu() == 0
                && fees.borrowing_fees().fee_amount_for_receiver().tu() == 0
                && fees.funding_fees().amount().tu() == 0
                && fees.liquidation_fees().is_none();
            if paid != e.fee_value
                || !empty
                || total.as_ref() != Some(&e.fee_amount)
                || for_pool.as_ref() != Some(&e.pool)
                || for_recv.as_ref() != Some(&e.receiver)
            {
                cx.viol(site, "inconsistent_position_fees", w());
                return;
            }
            cx.t.hit(site, "exact");
            if e.fee_value > bu(size) {
                if valid {
                    cx.viol(site, "fee_exceeds_gross", w());
                } else {
                    // literal-reading note: not rejected here; see the action-level observation.
                    cx.t.hit(site, "fee_value_gt_size_with_factor_gt_100pct(not rejected here)");
                }
            }
            if !e.fee_amount.is_zero() {
                cx.nontrivial(site, &[size, cfg.pf, cfg.nf, cfg.rf, cfg.df.unwrap_or(u128::MAX), bc as u128, pmin, pmax]);
                if cx.m.wants_sample() {
                    cx.m.sample(json!({"site": site, "inputs": w(), "fee_value": ds(&e.fee_value), "pool": ds(&e.pool), "receiver": ds(&e.receiver)}));
                }
            } else {
                cx.t.hit(site, "fee_amount_zero");
            }
        }
        Ok(Err(_)) => {
            cx.t.hit(site, "err");
            if pmin == 0 || pmax == 0 {
                cx.t.hit(site, "err_zero_price");
            } else if exp.is_some() && valid {
                cx.viol(site, "fails_on_valid_factors", w());
            } else if exp.is_some() {
                cx.t.hit(site, "err_stricter_than_formula_on_invalid_factors");
            } else {
                cx.t.hit(site, "err_formula_not_computable");
            }
        }
    }
}

fn case_liquidation<T: Mk<D>, const D: u8>(cx: &mut Cx, rng: &mut Rng) {
    let u = unit::<T, D>();
    let site = "position_fees(liquidation)";
    let cfg = gen_cfg::<T>(rng, u);
    let lf = gfactor::<T>(rng, u);
    let lr = gfactor::<T>(rng, u);
    let (lf, lr) = if rng.chance(3, 5) { (lf.min(u), lr.min(u)) } else { (lf, lr) };
    let size = gen_amount::<T>(rng, u);
    let bc = rng.below(3) as u8;
    let (pmin, pmax) = gen_price::<T>(rng, u);
    let is_long = rng.bool();
    let mut market: MonMarket<T, D> = T::market();
    market.config.order_fee_params = cfg.params::<T>(rng.bool());
    market.config.liquidation_fee_params = LiquidationFeeParams::builder()
        .factor(T::fu(lf))
        .receiver_factor(T::fu(lr))
        .build();
    let mut position = MonPosition::<T, D> {
        is_long,
        is_collateral_token_long: rng.bool(),
        size_in_usd: T::fu(size),
        ..Default::default()
    };
    let price = Price { min: T::fu(pmin), max: T::fu(pmax) };
    let w = || {
        json!({"type": T::NAME, "order_fee_params": cfg.json(), "liquidation_factor": ds(lf), "liquidation_receiver_factor": ds(lr),
               "balance_change": bc_name(bc), "size_delta_usd": ds(size), "collateral_token_price": {"min": ds(pmin), "max": ds(pmax)}})
    };
    cx.m.eval();
    cx.t.hit(site, "calls");
    let got = guard(|| {
        position
            .ops(&mut market)
            .position_fees(&price, &T::fu(size), bc_of(bc), true)
    });
    // oracle
    let order = order_oracle::<T>(size, &cfg, bc, pmin, u);
    // liquidation part: None = not computable (must fail); Some(None) = must fail legitimately via
    // the a+d−1 intermediate; Some(Some(..)) = values
    let liq: Option<(BigInt, BigInt, BigInt, bool)> = (|| {
        if lf == 0 {
            return Some((BigInt::zero(), BigInt::zero(), BigInt::zero(), false));
        }
        if pmin == 0 {
            return None;
        }
        let fv = apply::<T>(&bu(size), lf, u)?;
        let amount = big::div_ceil(&fv, &bu(pmin));
        let inter = &fv + bu(pmin) > bu(T::UMAX);
        let recv = apply::<T>(&amount, lr, u)?;
        Some((fv, amount, recv, inter))
    })();
    match got {
        Err(pn) => cx.viol(site, "panic", json!({"inputs": w(), "panic": pn})),
        Ok(Ok(fees)) => {
            cx.t.hit(site, "ok");
            if pmin == 0 {
                cx.viol(site, "ok_with_zero_min_price", w());
                return;
            }
            let (Some(oe), Some((fv, amount, recv, _))) = (order, liq) else {
                cx.viol(site, "fees_where_formula_not_computable", w());
                return;
            };
            if !check_order_part::<T, D>(cx, site, &fees, &oe, &w) {
                return;
            }
            let Some(l) = fees.liquidation_fees() else {
                cx.viol(site, "liquidation_fees_missing", w());
                return;
            };
            let got_fv = bu(l.fee_value().tu());
            let got_amount = bu(l.fee_amount().tu());
            let got_recv = bu(l.fee_amount_for_receiver().tu());
            let obs = || json!({"fee_value": ds(&got_fv), "fee_amount": ds(&got_amount), "receiver": ds(&got_recv)});
            let exp = || json!({"fee_value": ds(&fv), "fee_amount(round up)": ds(&amount), "receiver": ds(&recv)});
            if got_fv != fv || got_amount != amount || got_recv != recv {
                cx.viol(site, "wrong_liquidation_fee", json!({"inputs": w(), "observed": obs(), "expected": exp()}));
                return;
            }
            cx.t.hit(site, "liquidation_exact");
            if lf <= u && fv > bu(size) {
                cx.viol(site, "liquidation_fee_value_exceeds_size", w());
            }
            // split of the liquidation amount into pool and receiver
            match l.fee_amount_for_pool() {
                Ok(pool) => {
                    if bu(pool.tu()) + &recv != amount || recv > amount {
                        cx.viol(site, "liquidation_fee_not_conserved", json!({"inputs": w(), "observed": obs(), "pool": ds(pool)}));
                        return;
                    }
                    cx.t.hit(site, "liquidation_split_conserved");
                }
                Err(_) => {
                    if lr <= u {
                        cx.viol(site, "liquidation_pool_share_fails_on_valid_receiver_factor", w());
                        return;
                    }
                    cx.t.hit(site, "liquidation_pool_share_fails_with_receiver_factor_gt_100pct");
                }
            }
            if recv > amount {
                // only reachable with receiver factor > 100 %; the pool share must have failed above
                cx.t.hit(site, "receiver_gt_amount_with_receiver_factor_gt_100pct");
            }
            // totals: for_pool + for_receiver == total cost (order + liquidation), when they are computable
            if let (Ok(fp), Ok(fr), Ok(total)) = (fees.for_pool::<D>(), fees.for_receiver(), fees.total_cost_excluding_funding()) {
                let sum = bu(fp.tu()) + bu(fr.tu());
                let exp_total = &oe.fee_amount + &amount;
                if sum != bu(total.tu()) || exp_total != bu(total.tu()) {
                    cx.viol(site, "totals_not_conserved", json!({"inputs": w(), "for_pool": ds(fp), "for_receiver": ds(fr), "total_cost_excluding_funding": ds(total)}));
                    return;
                }
                cx.t.hit(site, "totals_conserved");
            } else {
                cx.t.hit(site, "totals_not_computable");
            }
            if amount.is_zero() {
                cx.t.hit(site, "liquidation_amount_zero");
            } else {
                if !(&fv % bu(pmin)).is_zero() {
                    cx.t.hit(site, "liquidation_amount_rounded_up");
                }
                cx.nontrivial(site, &[size, lf, lr, pmin, cfg.pf, cfg.nf, cfg.rf, bc as u128]);
                if cx.m.wants_sample() {
                    cx.m.sample(json!({"site": site, "inputs": w(), "observed": obs()}));
                }
            }
        }
        Ok(Err(_)) => {
            cx.t.hit(site, "err");
            let all_valid = cfg.all_valid(u) && lf <= u && lr <= u;
            match (&order, &liq) {
                _ if pmin == 0 || pmax == 0 => cx.t.hit(site, "err_zero_price"),
                (Some(_), Some((_, _, _, inter))) => {
                    if *inter {
                        cx.t.hit(site, "err_round_up_intermediate_overflow");
                    } else if all_valid {
                        cx.viol(site, "fails_on_valid_factors", w());
                    } else {
                        cx.t.hit(site, "err_stricter_than_formula_on_invalid_factors");
                    }
                }
                _ => cx.t.hit(site, "err_formula_not_computable"),
            }
        }
    }
}

/// Action level: an increase on a fresh position charges the order fee against the collateral
/// that is paid in. Whatever the factors are, a successful increase must leave
/// `collateral + pool share + receiver share == collateral paid in`, so the fee cannot exceed it.
fn case_increase<T: Mk<D>, const D: u8>(cx: &mut Cx, rng: &mut Rng) {
    let u = unit::<T, D>();
    let s = T::scale();
    let site = "increase(order_fee)";
    let cfg = {
        let mut c = gen_cfg::<T>(rng, u);
        // keep the receiver factor valid most of the time so that the interesting variable is the fee factor
        if rng.chance(3, 4) {
            c.rf = c.rf.min(u);
        }
        c
    };
    let is_long = rng.bool();
    let long_collateral = rng.bool();
    let mut market: MonMarket<T, D> = T::market();
    market.config.order_fee_params = cfg.params::<T>(rng.bool());
    // plenty of liquidity, as the repository's own increase test sets up through two deposits
    let liq = 1_000_000_000_000u128;
    market.primary.long_amount = T::fu(liq);
    market.primary.short_amount = T::fu(liq);
    market.total_supply = T::fu(liq);
    let long_price = 120 * s;
    let short_price = s;
    let prices = Prices {
        index_token_price: Price { min: T::fu(long_price), max: T::fu(long_price) },
        long_token_price: Price { min: T::fu(long_price), max: T::fu(long_price) },
        short_token_price: Price { min: T::fu(short_price), max: T::fu(short_price) },
    };
    let collateral_price = if long_collateral { long_price } else { short_price };
    // size 1..10^4 USD, collateral worth 0.01×..10× the size
    let size = rng.range_u128(1, 10_000) * u + rng.log_u128(u);
    let coll_value = match rng.below(4) {
        0 => size / 100,
        1 => size / 2,
        2 => size,
        _ => rng.range_u128(size / 100, size.saturating_mul(10)),
    };
    let collateral = (coll_value / collateral_price).max(1);
    let mut position = if is_long {
        MonPosition::<T, D>::long(long_collateral)
    } else {
        MonPosition::<T, D>::short(long_collateral)
    };
    let before = market.clone();
    let w = || {
        json!({"type": T::NAME, "order_fee_params": cfg.json(), "is_long": is_long, "collateral_is_long_token": long_collateral,
               "collateral_increment_amount": ds(collateral), "size_delta_usd": ds(size), "long_price": ds(long_price), "short_price": ds(short_price)})
    };
    cx.m.eval();
    cx.t.hit(site, "calls");
    let got = guard(|| {
        position
            .ops(&mut market)
            .increase(prices, T::fu(collateral), T::fu(size), None)
            .and_then(|a| a.execute())
    });
    match got {
        Err(_) => {
            // not a C02 clause ("never panics" is not claimed): an aborted action
            cx.t.hit(site, "panics(counted, aborted action)");
            cx.m.count("panics");
        }
        Ok(Err(_)) => {
            cx.t.hit(site, "err");
            if !cfg.all_valid(u) {
                cx.t.hit(site, "err_with_some_factor_gt_100pct");
            }
        }
        Ok(Ok(report)) => {
            cx.t.hit(site, "ok");
            let pick = |p: &crate::monmarket::MonPool<T>| if long_collateral { p.long_amount.tu() } else { p.short_amount.tu() };
            let d_pool = bu(pick(&market.primary)) - bu(pick(&before.primary));
            let d_fee = bu(pick(&market.fee)) - bu(pick(&before.fee));
            let coll_after = bu(position.collateral_token_amount.tu());
            let fees = report.fees();
            let order_total = bu(fees.order_fees().fee_amounts().fee_amount_for_pool().tu())
                + bu(fees.order_fees().fee_amounts().fee_amount_for_receiver().tu());
            let obs = || {
                json!({"inputs": w(), "pool_delta": ds(&d_pool), "claimable_fee_pool_delta": ds(&d_fee), "position_collateral": ds(&coll_after),
                       "order_fee_amount": ds(&order_total)})
            };
            if &d_pool + &d_fee + &coll_after != bu(collateral) {
                cx.viol(site, "collateral_not_conserved", obs());
            } else if order_total > bu(collateral) {
                cx.viol(site, "order_fee_exceeds_collateral_paid_in", obs());
            } else if &d_pool + &d_fee != order_total {
                cx.viol(site, "charged_fee_differs_from_reported_fee", obs());
            } else {
                cx.t.hit(site, "conserved");
                if !cfg.all_valid(u) {
                    cx.t.hit(site, "ok_with_some_factor_gt_100pct");
                }
                if !order_total.is_zero() {
                    cx.nontrivial(site, &[collateral, size, cfg.pf, cfg.nf, cfg.rf, cfg.df.unwrap_or(u128::MAX), is_long as u128, long_collateral as u128]);
                }
            }
        }
    }
}

fn shard_run<T: Mk<D>, const D: u8>(seed: u64, shard: u64, shards: u64, n: u64, m: &mut Monitor) {
    let mut rng = Rng::derive(seed, shard, fnv(T::NAME.as_bytes()) ^ 0xC02);
    let mut cx = Cx {
        m,
        t: Tally::default(),
        d: Distinct::new(Distinct::budget_for(shards)),
        ty: T::NAME,
    };
    for i in 0..n {
        match i % 8 {
            0..=3 => case_apply_fees::<T, D>(&mut cx, &mut rng),
            4 | 5 => case_order_fees::<T, D>(&mut cx, &mut rng),
            6 => case_liquidation::<T, D>(&mut cx, &mut rng),
            _ => {
                if (i / 8) % 4 == 0 {
                    case_increase::<T, D>(&mut cx, &mut rng)
                } else {
                    case_liquidation::<T, D>(&mut cx, &mut rng)
                }
            }
        }
    }
    let Cx { m, t, .. } = cx;
    t.flush(T::NAME, m);
}

pub fn run(args: &Args) -> i32 {
    let mut mon = Monitor::new(args, RULE);
    let shards = args.scale(64, 256);
    let per_shard_per_type = match args.extra.get("cases").and_then(|s| s.parse::<u64>().ok()) {
        Some(n) => n,
        None => args.scale(250_000, 3_000_000),
    };
    let seed = args.seed;
    run_shards(&mut mon, args.threads, shards, |shard, m| {
        shard_run::<u64, 9>(seed, shard, shards, per_shard_per_type, m);
        shard_run::<u128, 20>(seed, shard, shards, per_shard_per_type, m);
    });
    mon.assume("positions used for the liquidation-fee observation carry no pending borrowing / funding fees (fresh market), so PositionFees consists of the order and liquidation parts only");
    mon.assume("the action-level observation uses a fresh position on a market with ample liquidity and the repository's test prices (120 / 1)");
    for ty in ["u64d9", "u128d20"] {
        mon.require(&format!("{ty}.apply_fees.split_exact"), 1_000);
        mon.require(&format!("{ty}.apply_fees.fail_with_some_factor_gt_100pct"), 100);
        mon.require(&format!("{ty}.fee_discount.triples_compared"), 1_000);
        mon.require(&format!("{ty}.base_position_fees.exact"), 1_000);
        mon.require(&format!("{ty}.position_fees(liquidation).liquidation_split_conserved"), 1_000);
        mon.require(&format!("{ty}.position_fees(liquidation).liquidation_amount_rounded_up"), 100);
        mon.require(&format!("{ty}.increase(order_fee).conserved"), 50);
        for bc in ["Improved", "Worsened", "Unchanged"] {
            mon.require(&format!("{ty}.config.{bc}"), 1_000);
        }
    }
    mon.finish()
}
