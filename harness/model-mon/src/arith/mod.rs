//! Pure-arithmetic monitors: C01 (fixed-point helpers), C02 (fee splitting), C03 (price impact).
use vcommon::Args;

pub fn run(_args: &Args) -> Option<i32> {
    None
}
