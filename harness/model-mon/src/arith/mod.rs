//! Pure-arithmetic monitors: C01 (fixed-point helpers), C02 (fee splitting), C03 (price impact).
mod c01;
mod c02;
mod c03;
mod numx;

use vcommon::Args;

pub fn run(args: &Args) -> Option<i32> {
    match args.id.as_str() {
        "C01" => Some(c01::run(args)),
        "C02" => Some(c02::run(args)),
        "C03" => Some(c03::run(args)),
        _ => None,
    }
}
