//! C01 — fixed-point arithmetic is exact with the documented rounding.
//!
//! The real helpers of `gmsol_model::{num, utils, fixed}` are called (under a panic guard) on
//! boundary-biased operands for both instantiations of the model (`u64`/9 and `u128`/20) and each
//! returned value is decided by a BigInt oracle.
//!
//! Reading of the documented rounding (stated in the rule text as well):
//! * `checked_mul_div` = ⌊a·b/c⌋, `checked_mul_div_ceil` = ⌈a·b/c⌉ ("with full precision": a `None`
//!   on a representable result is a violation), zero denominator ⇒ `None`.
//! * `checked_mul_div_with_signed_numerator` / `div_to_factor_signed`: the doc comment says
//!   "floor … where numerator is signed"; the default implementation and every caller (it mirrors
//!   GMX `Precision.mulDiv(uint,int,uint)`) round the *magnitude* down and re-apply the sign, i.e.
//!   truncation towards zero. That reading is used; cases where it differs from the literal ⌊·⌋
//!   towards −∞ are counted (`trunc_differs_from_literal_floor`).
//! * `checked_round_up_div` = ⌈a/d⌉, `as_divisor_to_round_up_magnitude_div` = sign(n)·⌈|n|/d⌉; for
//!   these `a+d−1` style helpers a `None` is accepted when the documented intermediate (`a+d`,
//!   `|n|+d` in the signed type, or `d` itself converted to the signed type) does not fit.
//! * every helper that builds a negative result by negating a magnitude converted to the signed
//!   type cannot produce exactly `Signed::MIN`; a failure on that single value is accepted as
//!   "intermediate does not fit" and counted (`fail_signed_min_edge`).
//! * `bound_magnitude`: clamp |v| into `[min,max]`, keep the sign (zero counts as non-negative);
//!   `Err` iff `min > max` or the clamped magnitude is `min` and `min > Signed::MAX`.
//! * `usd_to_market_token_amount` follows the three documented GMX branches; `div_to_factor*`
//!   return zero for a zero divisor (documented).
//! * integer-exponent `checked_pow` is `k` successive `Fixed::checked_mul`, each rounding down
//!   (exact ⌊·⌋ of the real power for k ≤ 2, bracketed by the real power and an explicit error bound
//!   for k ≥ 3); `apply_exponent_factor` maps values below one unit to 0 and one unit to one unit
//!   (GMX semantics) before that.
//! * non-unit exponents go through `rust_decimal` approximations, are documented "do not use" and
//!   are exercised for "no panic" only.

use super::numx::*;
use gmsol_model::{
    fixed::{Fixed, FixedPointOps},
    num::{MulDiv, Unsigned},
    utils,
};
use num_traits::CheckedMul;
use vcommon::{
    big,
    monitor::{guard, run_shards},
    num_bigint::BigInt,
    num_traits::{Signed as _, Zero as _},
    rng::fnv,
    serde_json::{json, Value},
    Args, Monitor, Rng,
};

const RULE: &str = "cases: per helper, boundary-biased operands (0,1,2,UNIT±1,MAX/2,MAX-1,MAX, powers of 2/10 ±2, \
log-uniform, uniform) plus correlated tuples (exact multiples, results within ±2 of the unsigned/signed limit, zero divisors, \
n-th-root bases for pow) for u64/9 decimals and u128/20 decimals; the real helper runs under a panic guard and a BigInt \
oracle decides: Some(v)/Ok(v) must equal the exact value rounded in the documented direction, None/Err only for zero divisor, \
min>max, unrepresentable result or a documented intermediate (a+d for round-up division, magnitude conversion to the signed \
type, pool_value+usd); None on a representable result of the widening mul_div family is a violation; any panic is a violation. \
Signed mul_div is read as magnitude-floor (truncation toward zero). non-trivial = the helper returned a value that was compared \
with the BigInt value and no multiplicand/dividend was zero; distinct = hash(helper,type,operands) over the first 1.9e6/(2·shards) \
non-trivial cases of each shard and type (memory bound, so a lower bound).";

struct Cx<'a> {
    m: &'a mut Monitor,
    t: Tally,
    d: Distinct,
    ty: &'static str,
}

#[derive(PartialEq, Eq, Clone, Copy)]
enum Out {
    Value,
    Fail,
    Violation,
}

impl Cx<'_> {
    fn viol(&mut self, h: &'static str, class: &str, w: Value) {
        self.t.hit(h, "violations");
        self.m.violation(&format!("C01:{h}:{class}"), w);
    }

    /// Decide one observed return value.
    ///
    /// * `got`: guard result; `Ok(Some(v))` value returned, `Ok(None)` failure reported.
    /// * `exact`: the exact rounded value, or `None` when it is mathematically undefined /
    ///   documented to be refused (zero divisor, `min > max`).
    /// * `lo..=hi`: representable range of the output type.
    /// * `accept_fail`: `Some(reason)` if a documented intermediate did not fit.
    #[allow(clippy::too_many_arguments)]
    fn judge(
        &mut self,
        h: &'static str,
        got: Result<Option<BigInt>, String>,
        exact: Option<&BigInt>,
        lo: &BigInt,
        hi: &BigInt,
        accept_fail: Option<&'static str>,
        inputs: &dyn Fn() -> Value,
    ) -> Out {
        self.m.eval();
        self.t.hit(h, "calls");
        let ty = self.ty;
        let got = match got {
            Ok(g) => g,
            Err(p) => {
                self.t.hit(h, "panics");
                self.viol(h, "panic", json!({"type": ty, "inputs": inputs(), "panic": p}));
                return Out::Violation;
            }
        };
        match (got, exact) {
            (Some(v), None) => {
                self.viol(
                    h,
                    "value_on_undefined",
                    json!({"type": ty, "inputs": inputs(), "got": ds(&v), "expected": "failure (zero divisor / min>max)"}),
                );
                Out::Violation
            }
            (None, None) => {
                self.t.hit(h, "fail_undefined");
                Out::Fail
            }
            (Some(v), Some(e)) => {
                let fits = e >= lo && e <= hi;
                if !fits {
                    self.viol(
                        h,
                        "value_on_unrepresentable",
                        json!({"type": ty, "inputs": inputs(), "got": ds(&v), "exact": ds(e)}),
                    );
                    Out::Violation
                } else if &v != e {
                    self.viol(
                        h,
                        "wrong_value",
                        json!({"type": ty, "inputs": inputs(), "got": ds(&v), "exact": ds(e)}),
                    );
                    Out::Violation
                } else {
                    self.t.hit(h, "value");
                    // one actual case per helper and shard for the evidence file
                    if self.t.get(h, "value") == 257 && self.m.wants_sample() {
                        self.m.sample(json!({"helper": h, "type": ty, "inputs": inputs(), "returned": ds(&v), "oracle": ds(e)}));
                    }
                    if e == hi {
                        self.t.hit(h, "value_eq_type_max");
                    } else if e == lo && !lo.is_zero() {
                        self.t.hit(h, "value_eq_type_min");
                    } else if e.is_zero() {
                        self.t.hit(h, "value_zero");
                    }
                    Out::Value
                }
            }
            (None, Some(e)) => {
                let fits = e >= lo && e <= hi;
                if !fits {
                    self.t.hit(h, "fail_unrepresentable");
                    let over = if e > hi { e - hi } else { lo - e };
                    if over <= BigInt::from(2u8) {
                        self.t.hit(h, "fail_unrepresentable_by_le2");
                    }
                    Out::Fail
                } else if let Some(r) = accept_fail {
                    self.t.hit(h, r);
                    Out::Fail
                } else {
                    self.viol(
                        h,
                        "none_on_representable",
                        json!({"type": ty, "inputs": inputs(), "got": "None/Err", "exact": ds(e)}),
                    );
                    Out::Violation
                }
            }
        }
    }

    fn nontrivial(&mut self, h: &'static str, words: &[u128]) {
        let tag = fnv(h.as_bytes()) ^ fnv(self.ty.as_bytes()).rotate_left(7);
        self.d.note(self.m, tag, words);
        self.t.hit(h, "nontrivial");
    }
}

fn unit<T: Nx + FixedPointOps<D>, const D: u8>() -> u128 {
    <T as FixedPointOps<D>>::UNIT.tu()
}

fn zero() -> BigInt {
    BigInt::from(0u8)
}

fn umax<T: Nx>() -> BigInt {
    bu(T::UMAX)
}

/// Correlated (a, b, c) for the mul_div family. `limit` is the boundary the result is steered
/// towards in the "near limit" modes (UMAX for unsigned results, SMAX+1 for signed ones).
fn gen_mdt<T: Nx>(rng: &mut Rng, unit: u128, limit: u128) -> (u128, u128, u128) {
    match rng.below(10) {
        0 => (gu::<T>(rng, unit), gu::<T>(rng, unit), 0),
        1 => {
            // exact multiple: a = c*k
            let c = gnz::<T>(rng, unit);
            let k = rng.log_u128(T::UMAX / c);
            (c * k, gu::<T>(rng, unit), c)
        }
        2..=4 => {
            // result within a few ulps of the limit: b ≈ (limit+δ)·c / a
            let a = gnz::<T>(rng, unit);
            let c = gnz::<T>(rng, unit);
            let target = bu(limit) + BigInt::from(jitter(rng, 2));
            let num = target * bu(c);
            let q = if rng.bool() {
                big::div_floor(&num, &bu(a))
            } else {
                big::div_ceil(&num, &bu(a))
            } + BigInt::from(jitter(rng, 1));
            (a, clamp_u::<T>(&q), c)
        }
        5 => (gu::<T>(rng, unit), gu::<T>(rng, unit), unit),
        6 => (gu::<T>(rng, unit), unit, gnz::<T>(rng, unit)),
        7 => {
            // small remainders: a = 1 or 2, b = q*c + r
            let c = gnz::<T>(rng, unit);
            let q = rng.log_u128(T::UMAX / c);
            let r = *rng.pick(&[0u128, 1, c - 1, c / 2]);
            let b = (q * c).saturating_add(r).min(T::UMAX);
            (1 + rng.below(2) as u128, b, c)
        }
        _ => (gu::<T>(rng, unit), gu::<T>(rng, unit), gu::<T>(rng, unit)),
    }
}

fn md_classes(cx: &mut Cx, h: &'static str, a: u128, b: u128, c: u128, umax: u128) {
    if c == 0 {
        cx.t.hit(h, "in_zero_divisor");
        return;
    }
    let p = bu(a) * bu(b);
    if p > bu(umax) {
        cx.t.hit(h, "in_product_needs_widening");
    }
    if (&p % bu(c)).is_zero() {
        cx.t.hit(h, "in_remainder_zero");
    } else {
        cx.t.hit(h, "in_remainder_nonzero");
    }
}

fn case_mul_div<T: Nx + FixedPointOps<D>, const D: u8>(cx: &mut Cx, rng: &mut Rng, ceil: bool) {
    let u = unit::<T, D>();
    let (a, b, c) = gen_mdt::<T>(rng, u, T::UMAX);
    let h = if ceil { "checked_mul_div_ceil" } else { "checked_mul_div" };
    md_classes(cx, h, a, b, c, T::UMAX);
    let got = guard(|| {
        if ceil {
            T::fu(a).checked_mul_div_ceil(&T::fu(b), &T::fu(c))
        } else {
            T::fu(a).checked_mul_div(&T::fu(b), &T::fu(c))
        }
    })
    .map(|o| o.map(|v| bu(v.tu())));
    let exact = (c != 0).then(|| {
        let p = bu(a) * bu(b);
        if ceil {
            big::div_ceil(&p, &bu(c))
        } else {
            big::div_floor(&p, &bu(c))
        }
    });
    let out = cx.judge(h, got, exact.as_ref(), &zero(), &umax::<T>(), None, &|| {
        json!({"self": ds(a), "numerator": ds(b), "denominator": ds(c)})
    });
    if out == Out::Value && a != 0 && b != 0 {
        cx.nontrivial(h, &[a, b, c]);
    }
}

/// Expected value of the magnitude-floor signed mul_div; returns (exact, accept_fail).
fn signed_md_expect<T: Nx>(a: u128, n: i128, c: u128) -> (BigInt, Option<&'static str>) {
    let mag = big::div_floor(&(bu(a) * bu(n.unsigned_abs())), &bu(c));
    // `numerator.is_positive()` is false for zero: the zero result is negated, still zero.
    let exact = if n > 0 { mag.clone() } else { -mag.clone() };
    // The unsigned magnitude must fit the unsigned type first, then the signed type.
    let accept = if mag > bs(T::SMAX) && exact >= bs(T::SMIN) {
        Some("fail_signed_min_edge")
    } else {
        None
    };
    (exact, accept)
}

fn case_mul_div_signed<T: Nx + FixedPointOps<D>, const D: u8>(cx: &mut Cx, rng: &mut Rng) {
    let u = unit::<T, D>();
    let (a, b, c) = gen_mdt::<T>(rng, u, T::SMAX as u128 + 1);
    let n: i128 = match rng.below(12) {
        0 => T::SMIN,
        1 => gs::<T>(rng, u),
        _ => {
            let m = b.min(T::SMAX as u128 + 1);
            if rng.bool() {
                if m > T::SMAX as u128 {
                    T::SMIN
                } else {
                    -(m as i128)
                }
            } else {
                m.min(T::SMAX as u128) as i128
            }
        }
    };
    let h = "checked_mul_div_with_signed_numerator";
    md_classes(cx, h, a, n.unsigned_abs(), c, T::UMAX);
    if n < 0 {
        cx.t.hit(h, "in_negative_numerator");
    }
    let got = guard(|| T::fu(a).checked_mul_div_with_signed_numerator(&T::fs(n), &T::fu(c)))
        .map(|o| o.map(|v| bs(T::ts(&v))));
    let (exact, accept) = if c == 0 {
        (None, None)
    } else {
        let (e, acc) = signed_md_expect::<T>(a, n, c);
        if n < 0 && !((bu(a) * bu(n.unsigned_abs())) % bu(c)).is_zero() {
            cx.t.hit(h, "trunc_differs_from_literal_floor");
        }
        (Some(e), acc)
    };
    let out = cx.judge(h, got, exact.as_ref(), &bs(T::SMIN), &bs(T::SMAX), accept, &|| {
        json!({"self": ds(a), "numerator": ds(n), "denominator": ds(c)})
    });
    if out == Out::Value && a != 0 && n != 0 {
        cx.nontrivial(h, &[a, n as u128, c]);
    }
}

fn case_round_up_div<T: Nx + FixedPointOps<D>, const D: u8>(cx: &mut Cx, rng: &mut Rng) {
    let u = unit::<T, D>();
    let h = "checked_round_up_div";
    let (a, d) = match rng.below(8) {
        0 => (gu::<T>(rng, u), 0),
        1 => {
            // a + d straddles UMAX
            let d = gnz::<T>(rng, u);
            let a = clamp_u::<T>(&(bu(T::UMAX) - bu(d) + BigInt::from(jitter(rng, 2))));
            (a, d)
        }
        2 => {
            // exact multiple ± 1
            let d = gnz::<T>(rng, u);
            let k = rng.log_u128(T::UMAX / d);
            let a = clamp_u::<T>(&(bu(d) * bu(k) + BigInt::from(jitter(rng, 1))));
            (a, d)
        }
        _ => (gu::<T>(rng, u), gu::<T>(rng, u)),
    };
    let got = guard(|| T::fu(a).checked_round_up_div(&T::fu(d))).map(|o| o.map(|v| bu(v.tu())));
    let exact = (d != 0).then(|| big::div_ceil(&bu(a), &bu(d)));
    let accept = (d != 0 && bu(a) + bu(d) > umax::<T>()).then_some("fail_intermediate_sum_overflow");
    if d != 0 {
        if a % d == 0 {
            cx.t.hit(h, "in_remainder_zero");
        } else {
            cx.t.hit(h, "in_remainder_nonzero");
        }
    } else {
        cx.t.hit(h, "in_zero_divisor");
    }
    let out = cx.judge(h, got, exact.as_ref(), &zero(), &umax::<T>(), accept, &|| {
        json!({"self": ds(a), "divisor": ds(d)})
    });
    if out == Out::Value && a != 0 {
        cx.nontrivial(h, &[a, d]);
    }
}

fn case_round_up_magnitude_div<T: Nx + FixedPointOps<D>, const D: u8>(cx: &mut Cx, rng: &mut Rng) {
    let u = unit::<T, D>();
    let h = "as_divisor_to_round_up_magnitude_div";
    let (d, n): (u128, i128) = match rng.below(8) {
        0 => (0, gs::<T>(rng, u)),
        1 => {
            // |n| + d straddles SMAX
            let d = gnz::<T>(rng, u).min(T::SMAX as u128);
            let mag = (bs(T::SMAX) - bu(d) + BigInt::from(jitter(rng, 2))).max(zero());
            let mag = big::to_u128(&mag).unwrap().min(T::SMAX as u128) as i128;
            (d, if rng.bool() { -mag } else { mag })
        }
        2 => {
            // exact multiple ± 1
            let d = gnz::<T>(rng, u).min(T::SMAX as u128);
            let k = rng.log_u128(T::SMAX as u128 / d);
            let mag = (d * k) as i128;
            let mag = (mag.saturating_add(jitter(rng, 1) as i128)).clamp(0, T::SMAX);
            (d, if rng.bool() { -mag } else { mag })
        }
        3 => (gu::<T>(rng, u), gs::<T>(rng, u)), // divisors above SMAX included
        _ => (gu::<T>(rng, u).min(T::SMAX as u128), gs::<T>(rng, u)),
    };
    let got = guard(|| T::fu(d).as_divisor_to_round_up_magnitude_div(&T::fs(n)))
        .map(|o| o.map(|v| bs(T::ts(&v))));
    let exact = (d != 0).then(|| big::div_away(&bs(n), &bu(d)));
    let accept = if d == 0 {
        None
    } else if d > T::SMAX as u128 {
        Some("fail_divisor_exceeds_signed_max")
    } else if n >= 0 && bs(n) + bu(d) > bs(T::SMAX) {
        Some("fail_intermediate_sum_overflow")
    } else if n < 0 && bs(n) - bu(d) < bs(T::SMIN) {
        Some("fail_intermediate_sum_overflow")
    } else {
        None
    };
    if n < 0 {
        cx.t.hit(h, "in_negative_dividend");
    }
    if d != 0 {
        if (n.unsigned_abs() % d) == 0 {
            cx.t.hit(h, "in_remainder_zero");
        } else {
            cx.t.hit(h, "in_remainder_nonzero");
        }
    } else {
        cx.t.hit(h, "in_zero_divisor");
    }
    let out = cx.judge(h, got, exact.as_ref(), &bs(T::SMIN), &bs(T::SMAX), accept, &|| {
        json!({"divisor(self)": ds(d), "dividend": ds(n)})
    });
    if out == Out::Value && n != 0 {
        cx.nontrivial(h, &[d, n as u128]);
    }
}

fn case_bound_magnitude<T: Nx + FixedPointOps<D>, const D: u8>(cx: &mut Cx, rng: &mut Rng) {
    let u = unit::<T, D>();
    let h = "bound_magnitude";
    let v = gs::<T>(rng, u);
    let mag = v.unsigned_abs();
    let near = |rng: &mut Rng, x: u128| -> u128 {
        clamp_u::<T>(&(bu(x) + BigInt::from(jitter(rng, 2))))
    };
    let (min, max) = match rng.below(8) {
        0 => {
            // unsorted on purpose (often min > max)
            (gu::<T>(rng, u), gu::<T>(rng, u))
        }
        1 => {
            let x = near(rng, mag);
            (x, x)
        }
        2 => (near(rng, mag), gu::<T>(rng, u).max(mag)),
        3 => (0, near(rng, mag)),
        4 => {
            // min above the signed maximum
            let lo = near(rng, T::SMAX as u128 + 1);
            (lo, gu::<T>(rng, u).max(lo))
        }
        _ => {
            let x = gu::<T>(rng, u);
            let y = gu::<T>(rng, u);
            (x.min(y), x.max(y))
        }
    };
    let got = guard(|| <T as Unsigned>::bound_magnitude(&T::fs(v), &T::fu(min), &T::fu(max)))
        .map(|r| r.ok().map(|x| bs(T::ts(&x))));
    let (exact, accept) = if min > max {
        cx.t.hit(h, "in_min_gt_max");
        (None, None)
    } else {
        let m = mag.clamp(min, max);
        let e = if v < 0 { -bu(m) } else { bu(m) };
        if mag < min {
            cx.t.hit(h, "clamped_to_min");
        } else if mag > max {
            cx.t.hit(h, "clamped_to_max");
        } else {
            cx.t.hit(h, "within_bounds");
        }
        // Documented: error if `min` exceeds Signed::MAX (it is only consulted when clamping to it).
        let acc = (mag < min && min > T::SMAX as u128).then_some("fail_min_exceeds_signed_max");
        (Some(e), acc)
    };
    let out = cx.judge(h, got, exact.as_ref(), &bs(T::SMIN), &bs(T::SMAX), accept, &|| {
        json!({"value": ds(v), "min": ds(min), "max": ds(max)})
    });
    if out == Out::Value {
        cx.nontrivial(h, &[v as u128, min, max]);
    }
}

fn case_with_signed<T: Nx + FixedPointOps<D>, const D: u8>(cx: &mut Cx, rng: &mut Rng, which: u8) {
    let u = unit::<T, D>();
    let a = gu::<T>(rng, u);
    let s = match rng.below(6) {
        0 => {
            // result straddles 0 / UMAX
            let target = if rng.bool() { zero() } else { umax::<T>() };
            let want = target - bu(a) + BigInt::from(jitter(rng, 2));
            let want = want.max(bs(T::SMIN)).min(bs(T::SMAX));
            let w = big::to_i128(&want).unwrap();
            if which == 1 {
                w.checked_neg().unwrap_or(T::SMAX).clamp(T::SMIN, T::SMAX)
            } else {
                w
            }
        }
        _ => gs::<T>(rng, u),
    };
    match which {
        0 => {
            let h = "checked_add_with_signed";
            let got = guard(|| T::fu(a).checked_add_with_signed(&T::fs(s))).map(|o| o.map(|v| bu(v.tu())));
            let exact = bu(a) + bs(s);
            if s < 0 {
                cx.t.hit(h, "in_negative");
            }
            let out = cx.judge(h, got, Some(&exact), &zero(), &umax::<T>(), None, &|| {
                json!({"self": ds(a), "other": ds(s)})
            });
            if out == Out::Value && s != 0 {
                cx.nontrivial(h, &[a, s as u128]);
            }
        }
        1 => {
            let h = "checked_sub_with_signed";
            let got = guard(|| T::fu(a).checked_sub_with_signed(&T::fs(s))).map(|o| o.map(|v| bu(v.tu())));
            let exact = bu(a) - bs(s);
            if s < 0 {
                cx.t.hit(h, "in_negative");
            }
            let out = cx.judge(h, got, Some(&exact), &zero(), &umax::<T>(), None, &|| {
                json!({"self": ds(a), "other": ds(s)})
            });
            if out == Out::Value && s != 0 {
                cx.nontrivial(h, &[a, s as u128]);
            }
        }
        _ => {
            let h = "checked_mul_with_signed";
            // steer the product towards the signed limits
            let (a, s) = if rng.chance(1, 2) {
                let a = gnz::<T>(rng, u);
                let lim = bs(T::SMAX) + BigInt::from(1u8) + BigInt::from(jitter(rng, 2));
                let q = (big::div_floor(&lim, &bu(a)) + BigInt::from(jitter(rng, 1)))
                    .max(zero())
                    .min(bs(T::SMAX));
                let q = big::to_i128(&q).unwrap();
                (a, if rng.bool() { -q } else { q })
            } else {
                (a, s)
            };
            let got = guard(|| T::fu(a).checked_mul_with_signed(&T::fs(s))).map(|o| o.map(|v| bs(T::ts(&v))));
            let exact = bu(a) * bs(s);
            let accept = (exact == bs(T::SMIN)).then_some("fail_signed_min_edge");
            if s < 0 {
                cx.t.hit(h, "in_negative");
            }
            let out = cx.judge(h, got, Some(&exact), &bs(T::SMIN), &bs(T::SMAX), accept, &|| {
                json!({"self": ds(a), "other": ds(s)})
            });
            if out == Out::Value && a != 0 && s != 0 {
                cx.nontrivial(h, &[a, s as u128]);
            }
        }
    }
}

fn case_signed_sub_and_conversions<T: Nx + FixedPointOps<D>, const D: u8>(cx: &mut Cx, rng: &mut Rng) {
    let u = unit::<T, D>();
    let a = gu::<T>(rng, u);
    let b = match rng.below(4) {
        0 => clamp_u::<T>(&(bu(a) + BigInt::from(jitter(rng, 2)))),
        1 => {
            // a − b straddles the signed limits
            let off = bs(T::SMAX) + BigInt::from(1u8) + BigInt::from(jitter(rng, 2));
            if rng.bool() {
                clamp_u::<T>(&(bu(a) + off))
            } else {
                clamp_u::<T>(&(bu(a) - off))
            }
        }
        _ => gu::<T>(rng, u),
    };
    {
        let h = "checked_signed_sub";
        let got = guard(|| T::fu(a).checked_signed_sub(T::fu(b))).map(|r| r.ok().map(|v| bs(T::ts(&v))));
        let exact = bu(a) - bu(b);
        let accept = (exact == bs(T::SMIN)).then_some("fail_signed_min_edge");
        if a < b {
            cx.t.hit(h, "in_negative_result");
        }
        let out = cx.judge(h, got, Some(&exact), &bs(T::SMIN), &bs(T::SMAX), accept, &|| {
            json!({"self": ds(a), "other": ds(b)})
        });
        if out == Out::Value && a != b {
            cx.nontrivial(h, &[a, b]);
        }
    }
    {
        let h = "diff";
        let got = guard(|| T::fu(a).diff(T::fu(b))).map(|v| Some(bu(v.tu())));
        let exact = (bu(a) - bu(b)).abs();
        cx.judge(h, got, Some(&exact), &zero(), &umax::<T>(), None, &|| {
            json!({"self": ds(a), "other": ds(b)})
        });
    }
    {
        let h = "to_signed";
        let got = guard(|| T::fu(a).to_signed()).map(|r| r.ok().map(|v| bs(T::ts(&v))));
        cx.judge(h, got, Some(&bu(a)), &bs(T::SMIN), &bs(T::SMAX), None, &|| json!({"self": ds(a)}));
    }
    {
        let h = "to_opposite_signed";
        let got = guard(|| T::fu(a).to_opposite_signed()).map(|r| r.ok().map(|v| bs(T::ts(&v))));
        let exact = -bu(a);
        let accept = (exact == bs(T::SMIN)).then_some("fail_signed_min_edge");
        cx.judge(h, got, Some(&exact), &bs(T::SMIN), &bs(T::SMAX), accept, &|| json!({"self": ds(a)}));
    }
}

fn case_apply_factor<T: Nx + FixedPointOps<D>, const D: u8>(cx: &mut Cx, rng: &mut Rng) {
    let u = unit::<T, D>();
    let h = "apply_factor";
    let (v, f) = if rng.chance(1, 3) {
        // result near UMAX with the real divisor UNIT: f ≈ (UMAX+δ)·UNIT / v
        let v = gnz::<T>(rng, u);
        let t = (bu(T::UMAX) + BigInt::from(jitter(rng, 2))) * bu(u);
        let f = clamp_u::<T>(&(big::div_floor(&t, &bu(v)) + BigInt::from(jitter(rng, 1))));
        (v, f)
    } else if rng.bool() {
        (gu::<T>(rng, u), gfactor::<T>(rng, u))
    } else {
        (gu::<T>(rng, u), gu::<T>(rng, u))
    };
    md_classes(cx, h, v, f, u, T::UMAX);
    let got = guard(|| utils::apply_factor::<T, D>(&T::fu(v), &T::fu(f))).map(|o| o.map(|x| bu(x.tu())));
    let exact = big::div_floor(&(bu(v) * bu(f)), &bu(u));
    let out = cx.judge(h, got, Some(&exact), &zero(), &umax::<T>(), None, &|| {
        json!({"value": ds(v), "factor": ds(f)})
    });
    if out == Out::Value && v != 0 && f != 0 {
        cx.nontrivial(h, &[v, f]);
    }
}

fn case_div_to_factor<T: Nx + FixedPointOps<D>, const D: u8>(cx: &mut Cx, rng: &mut Rng) {
    let u = unit::<T, D>();
    let h = "div_to_factor";
    let round_up = rng.bool();
    let (v, d) = match rng.below(6) {
        0 => (gu::<T>(rng, u), 0),
        1 => {
            // result near UMAX: v·UNIT/d ≈ UMAX  ⇒ v ≈ UMAX·d/UNIT
            let d = gnz::<T>(rng, u);
            let t = (bu(T::UMAX) + BigInt::from(jitter(rng, 2))) * bu(d);
            let v = clamp_u::<T>(&(big::div_floor(&t, &bu(u)) + BigInt::from(jitter(rng, 1))));
            (v, d)
        }
        _ => (gu::<T>(rng, u), gu::<T>(rng, u)),
    };
    md_classes(cx, h, v, u, d, T::UMAX);
    if round_up {
        cx.t.hit(h, "in_round_up");
    }
    let got = guard(|| utils::div_to_factor::<T, D>(&T::fu(v), &T::fu(d), round_up))
        .map(|o| o.map(|x| bu(x.tu())));
    // Documented: zero divisor ⇒ zero.
    let exact = if d == 0 {
        zero()
    } else if round_up {
        big::div_ceil(&(bu(v) * bu(u)), &bu(d))
    } else {
        big::div_floor(&(bu(v) * bu(u)), &bu(d))
    };
    let out = cx.judge(h, got, Some(&exact), &zero(), &umax::<T>(), None, &|| {
        json!({"value": ds(v), "divisor": ds(d), "round_up_magnitude": round_up})
    });
    if out == Out::Value && v != 0 && d != 0 {
        cx.nontrivial(h, &[v, d, round_up as u128]);
    }
}

fn case_div_to_factor_signed<T: Nx + FixedPointOps<D>, const D: u8>(cx: &mut Cx, rng: &mut Rng) {
    let u = unit::<T, D>();
    let h = "div_to_factor_signed";
    let (v, d): (i128, u128) = match rng.below(6) {
        0 => (gs::<T>(rng, u), 0),
        1 => {
            let d = gnz::<T>(rng, u);
            let t = (bs(T::SMAX) + BigInt::from(1u8) + BigInt::from(jitter(rng, 2))) * bu(d);
            let m = (big::div_floor(&t, &bu(u)) + BigInt::from(jitter(rng, 1)))
                .max(zero())
                .min(bs(T::SMAX));
            let m = big::to_i128(&m).unwrap();
            (if rng.bool() { -m } else { m }, d)
        }
        _ => (gs::<T>(rng, u), gu::<T>(rng, u)),
    };
    md_classes(cx, h, u, v.unsigned_abs(), d, T::UMAX);
    if v < 0 {
        cx.t.hit(h, "in_negative_numerator");
    }
    let got = guard(|| utils::div_to_factor_signed::<T, D>(&T::fs(v), &T::fu(d)))
        .map(|o| o.map(|x| bs(T::ts(&x))));
    let (exact, accept) = if d == 0 {
        (zero(), None)
    } else {
        if v < 0 && !((bu(u) * bu(v.unsigned_abs())) % bu(d)).is_zero() {
            cx.t.hit(h, "trunc_differs_from_literal_floor");
        }
        signed_md_expect::<T>(u, v, d)
    };
    let out = cx.judge(h, got, Some(&exact), &bs(T::SMIN), &bs(T::SMAX), accept, &|| {
        json!({"value": ds(v), "divisor": ds(d)})
    });
    if out == Out::Value && v != 0 && d != 0 {
        cx.nontrivial(h, &[v as u128, d]);
    }
}

fn case_usd_to_mt<T: Nx + FixedPointOps<D>, const D: u8>(cx: &mut Cx, rng: &mut Rng) {
    let u = unit::<T, D>();
    let h = "usd_to_market_token_amount";
    let usd = gu::<T>(rng, u);
    let divisor = match rng.below(6) {
        0 => 0,
        1 => 1,
        2 => 10u128.pow(11).min(T::UMAX), // production value (20 − 9 decimals)
        _ => gu::<T>(rng, u),
    };
    let (pool_value, supply) = match rng.below(6) {
        0 => (0, 0),
        1 => {
            // pool_value + usd straddles UMAX
            let pv = clamp_u::<T>(&(bu(T::UMAX) - bu(usd) + BigInt::from(jitter(rng, 2))));
            (pv, 0)
        }
        2 => (gnz::<T>(rng, u), 0),
        3 => (0, gnz::<T>(rng, u)),
        _ => {
            let (a, _, c) = gen_mdt::<T>(rng, u, T::UMAX);
            (c, a)
        }
    };
    let got = guard(|| {
        utils::usd_to_market_token_amount::<T>(T::fu(usd), T::fu(pool_value), T::fu(supply), T::fu(divisor))
    })
    .map(|o| o.map(|x| bu(x.tu())));
    let (exact, accept) = if divisor == 0 {
        cx.t.hit(h, "in_zero_divisor");
        (None, None)
    } else if supply == 0 && pool_value == 0 {
        cx.t.hit(h, "branch_empty_market");
        (Some(big::div_floor(&bu(usd), &bu(divisor))), None)
    } else if supply == 0 {
        cx.t.hit(h, "branch_zero_supply_nonzero_value");
        let s = bu(pool_value) + bu(usd);
        let acc = (s > umax::<T>()).then_some("fail_intermediate_sum_overflow");
        (Some(big::div_floor(&s, &bu(divisor))), acc)
    } else if pool_value == 0 {
        cx.t.hit(h, "in_zero_pool_value_nonzero_supply");
        (None, None)
    } else {
        cx.t.hit(h, "branch_proportional");
        md_classes(cx, h, supply, usd, pool_value, T::UMAX);
        (Some(big::div_floor(&(bu(supply) * bu(usd)), &bu(pool_value))), None)
    };
    let out = cx.judge(h, got, exact.as_ref(), &zero(), &umax::<T>(), accept, &|| {
        json!({"usd_value": ds(usd), "pool_value": ds(pool_value), "supply": ds(supply), "usd_to_amount_divisor": ds(divisor)})
    });
    if out == Out::Value && usd != 0 {
        cx.nontrivial(h, &[usd, pool_value, supply, divisor]);
    }
}

fn case_mt_to_usd<T: Nx + FixedPointOps<D>, const D: u8>(cx: &mut Cx, rng: &mut Rng) {
    let u = unit::<T, D>();
    let h = "market_token_amount_to_usd";
    let (pool_value, amount, supply) = gen_mdt::<T>(rng, u, T::UMAX);
    md_classes(cx, h, pool_value, amount, supply, T::UMAX);
    let got = guard(|| utils::market_token_amount_to_usd::<T>(&T::fu(amount), &T::fu(pool_value), &T::fu(supply)))
        .map(|o| o.map(|x| bu(x.tu())));
    let exact = (supply != 0).then(|| big::div_floor(&(bu(pool_value) * bu(amount)), &bu(supply)));
    let out = cx.judge(h, got, exact.as_ref(), &zero(), &umax::<T>(), None, &|| {
        json!({"amount": ds(amount), "pool_value": ds(pool_value), "supply": ds(supply)})
    });
    if out == Out::Value && amount != 0 && pool_value != 0 {
        cx.nontrivial(h, &[amount, pool_value, supply]);
    }
}

fn case_fixed_mul<T: Nx + FixedPointOps<D>, const D: u8>(cx: &mut Cx, rng: &mut Rng) {
    let u = unit::<T, D>();
    let h = "Fixed::checked_mul";
    let (a, b) = if rng.chance(1, 3) {
        let a = gnz::<T>(rng, u);
        let t = (bu(T::UMAX) + BigInt::from(jitter(rng, 2))) * bu(u);
        (a, clamp_u::<T>(&(big::div_floor(&t, &bu(a)) + BigInt::from(jitter(rng, 1)))))
    } else {
        (gu::<T>(rng, u), gu::<T>(rng, u))
    };
    md_classes(cx, h, a, b, u, T::UMAX);
    let got = guard(|| {
        Fixed::<T, D>::from_inner(T::fu(a)).checked_mul(&Fixed::<T, D>::from_inner(T::fu(b)))
    })
    .map(|o| o.map(|x| bu(x.into_inner().tu())));
    let exact = big::div_floor(&(bu(a) * bu(b)), &bu(u));
    let out = cx.judge(h, got, Some(&exact), &zero(), &umax::<T>(), None, &|| {
        json!({"a": ds(a), "b": ds(b)})
    });
    if out == Out::Value && a != 0 && b != 0 {
        cx.nontrivial(h, &[a, b]);
    }
}

/// Largest exponent multiple used for bases above one unit / at most one unit. The real
/// implementation loops `exponent/UNIT` times, so huge exponents would only test patience.
const MAX_K_ABOVE: u64 = 8;
const MAX_K_BELOW: u64 = 40;

/// Base for `base^k` whose result lands near `UMAX`: the k-th root of `UMAX·UNIT^(k−1)` ± a few.
fn pow_base_near_limit<T: Nx>(rng: &mut Rng, k: u32, unit: u128) -> u128 {
    if k == 0 {
        return gu::<T>(rng, unit);
    }
    let t = bu(T::UMAX) * num_traits::pow(bu(unit), (k - 1) as usize);
    let r = t.nth_root(k) + BigInt::from(jitter(rng, 3));
    clamp_u::<T>(&r)
}

fn gen_pow_base<T: Nx>(rng: &mut Rng, k: u32, unit: u128) -> u128 {
    match rng.below(8) {
        0 => pow_base_near_limit::<T>(rng, k, unit),
        1 => rng.range_u128(0, unit),                       // below one
        2 => unit,                                          // exactly one
        3 => unit + rng.log_u128(unit),                     // in (1, 2]
        4 => unit.saturating_mul(1 + rng.log_u128(1 << 20)).min(T::UMAX), // whole numbers
        5 => {
            // anywhere up to the k-th-root limit
            let lim = pow_base_near_limit::<T>(rng, k, unit);
            rng.range_u128(0, lim)
        }
        6 => {
            let lim = pow_base_near_limit::<T>(rng, k, unit);
            rng.log_u128(lim)
        }
        _ => gu::<T>(rng, unit),
    }
}

/// Oracle for the integer power: `(expected, representable_all_the_way)`.
/// Also checks the bracket against the real power and returns the slack used.
fn pow_oracle<T: Nx>(base: u128, k: u32, unit: u128) -> (BigInt, bool, BigInt, BigInt) {
    let ub = bu(unit);
    let steps = pow_iter(&bu(base), k, &ub);
    let all_fit = steps.iter().all(fits_u::<T>);
    let expected = steps.last().cloned().unwrap_or_else(|| ub.clone());
    // real power floor(base^k / UNIT^(k-1)) and an explicit error bound of the iterated floors:
    // err_1 = 0 (p_1 = base exactly), err_{i+1} = ceil(err_i · base / UNIT) + 1.
    let true_floor = if k == 0 {
        ub.clone()
    } else {
        big::div_floor(
            &num_traits::pow(bu(base), k as usize),
            &num_traits::pow(ub.clone(), (k - 1) as usize),
        )
    };
    let mut err = zero();
    for _ in 1..k {
        err = big::div_ceil(&(&err * bu(base)), &ub) + BigInt::from(1u8);
    }
    if k == 2 {
        // a single rounding of an exact product: no error beyond the floor itself
        err = zero();
    }
    (expected, all_fit, true_floor, err)
}

fn case_pow<T: Nx + FixedPointOps<D>, const D: u8>(cx: &mut Cx, rng: &mut Rng) {
    let u = unit::<T, D>();
    let h = "Fixed::checked_pow(int)";
    let kmax = if rng.chance(1, 6) { MAX_K_BELOW } else { MAX_K_ABOVE };
    let mut k = match rng.below(6) {
        0 => 0,
        1 => 1,
        2 => 2,
        3 => 3,
        _ => rng.range(0, kmax),
    } as u32;
    let mut base = gen_pow_base::<T>(rng, k, u);
    if base > u && k as u64 > MAX_K_ABOVE {
        k = MAX_K_ABOVE as u32;
    }
    if (k as u128) > T::UMAX / u {
        k = (T::UMAX / u) as u32; // exponent must be representable
    }
    if base > T::UMAX {
        base = T::UMAX;
    }
    let exponent = u * k as u128;
    let got = guard(|| {
        Fixed::<T, D>::from_inner(T::fu(base)).checked_pow(&Fixed::<T, D>::from_inner(T::fu(exponent)))
    })
    .map(|o| o.map(|x| bu(x.into_inner().tu())));
    let (expected, all_fit, true_floor, err) = pow_oracle::<T>(base, k, u);
    // An intermediate product that does not fit makes the whole power fail (documented: each
    // step is a checked Fixed multiplication). For bases ≥ 1 the iterates are non-decreasing, so
    // this coincides with "result does not fit"; it is still classified separately.
    let accept = (!all_fit && fits_u::<T>(&expected)).then_some("fail_intermediate_product_overflow");
    match k {
        0 => cx.t.hit(h, "exp_0"),
        1 => cx.t.hit(h, "exp_1"),
        2 => cx.t.hit(h, "exp_2"),
        3 => cx.t.hit(h, "exp_3"),
        _ => cx.t.hit(h, "exp_ge4"),
    }
    if base < u {
        cx.t.hit(h, "base_below_one");
    } else if base == u {
        cx.t.hit(h, "base_one");
    } else {
        cx.t.hit(h, "base_above_one");
    }
    let inputs = || json!({"base": ds(base), "exponent": ds(exponent), "k": k});
    let out = cx.judge(h, got, Some(&expected), &zero(), &umax::<T>(), accept, &inputs);
    if out == Out::Value {
        // Independent bracket by the real power.
        let v = &expected;
        if *v > true_floor || v + &err < true_floor {
            cx.viol(
                h,
                "outside_real_power_bracket",
                json!({"type": cx.ty, "inputs": inputs(), "got": ds(v), "real_power_floor": ds(&true_floor), "error_bound": ds(&err)}),
            );
        } else if *v == true_floor {
            cx.t.hit(h, "eq_floor_of_real_power");
        } else {
            cx.t.hit(h, "below_floor_of_real_power_within_bound");
        }
        if base > 1 && k >= 2 {
            cx.nontrivial(h, &[base, k as u128]);
        }
    }
}

/// Expected `apply_exponent_factor` for a unit-multiple exponent: (value or None-on-overflow).
fn aef_oracle<T: Nx>(value: u128, k: u32, unit: u128) -> (BigInt, bool) {
    if value < unit {
        (zero(), true)
    } else if value == unit {
        (bu(unit), true)
    } else if k == 0 {
        (bu(unit), true)
    } else {
        let (e, all_fit, _, _) = pow_oracle::<T>(value, k, unit);
        (e, all_fit)
    }
}

fn case_apply_exponent_factor<T: Nx + FixedPointOps<D>, const D: u8>(cx: &mut Cx, rng: &mut Rng) {
    let u = unit::<T, D>();
    let h = "apply_exponent_factor";
    let k = match rng.below(6) {
        0 => 0,
        1 | 2 => 1,
        3 => 2,
        4 => 3,
        _ => rng.range(0, MAX_K_ABOVE),
    } as u32;
    let value = gen_pow_base::<T>(rng, k, u);
    let exponent = u * k as u128;
    let got = guard(|| utils::apply_exponent_factor::<T, D>(T::fu(value), T::fu(exponent)))
        .map(|o| o.map(|x| bu(x.tu())));
    let (expected, all_fit) = aef_oracle::<T>(value, k, u);
    let accept = (!all_fit && fits_u::<T>(&expected)).then_some("fail_intermediate_product_overflow");
    if value < u {
        cx.t.hit(h, "value_below_one_maps_to_zero");
    } else if value == u {
        cx.t.hit(h, "value_one");
    } else {
        cx.t.hit(h, "value_above_one");
    }
    let out = cx.judge(h, got, Some(&expected), &zero(), &umax::<T>(), accept, &|| {
        json!({"value": ds(value), "exponent_factor": ds(exponent), "k": k})
    });
    if out == Out::Value && value > u && k >= 1 {
        cx.nontrivial(h, &[value, k as u128]);
    }
}

fn case_apply_factors<T: Nx + FixedPointOps<D>, const D: u8>(cx: &mut Cx, rng: &mut Rng) {
    let u = unit::<T, D>();
    let h = "apply_factors";
    let k = match rng.below(5) {
        0 => 0,
        1 => 1,
        2 | 3 => 2,
        _ => 3,
    } as u32;
    let value = gen_pow_base::<T>(rng, k, u);
    let exponent = u * k as u128;
    let (p, all_fit) = aef_oracle::<T>(value, k, u);
    let pow_fails = !all_fit || !fits_u::<T>(&p);
    let factor = if !pow_fails && !p.is_zero() && rng.chance(1, 3) {
        // final product near UMAX: factor ≈ (UMAX+δ)·UNIT / p
        let t = (bu(T::UMAX) + BigInt::from(jitter(rng, 2))) * bu(u);
        clamp_u::<T>(&(big::div_floor(&t, &p) + BigInt::from(jitter(rng, 1))))
    } else if rng.bool() {
        rng.log_u128(u) // realistic impact factors are tiny
    } else {
        gu::<T>(rng, u)
    };
    let got = guard(|| utils::apply_factors::<T, D>(T::fu(value), T::fu(factor), T::fu(exponent)))
        .map(|r| r.ok().map(|x| bu(x.tu())));
    // x^E · A, both roundings down.
    // When the power itself does not fit the type the helper reports PowComputation even if the
    // final product would fit again (documented intermediate).
    let expected = big::div_floor(&(&p * bu(factor)), &bu(u));
    let accept = pow_fails.then_some("fail_intermediate_power_overflow");
    if pow_fails {
        cx.t.hit(h, "in_power_overflows");
    }
    let out = cx.judge(h, got, Some(&expected), &zero(), &umax::<T>(), accept, &|| {
        json!({"value": ds(value), "factor": ds(factor), "exponent_factor": ds(exponent), "k": k})
    });
    if out == Out::Value && value > u && factor != 0 {
        cx.nontrivial(h, &[value, factor, k as u128]);
    }
}

/// Non-unit exponents: documented "do not use" (rust_decimal approximation); only "no panic" is
/// observed, outcomes are counted.
fn case_pow_non_unit<T: Nx + FixedPointOps<D>, const D: u8>(cx: &mut Cx, rng: &mut Rng) {
    let u = unit::<T, D>();
    let h = "checked_pow(non-unit exponent)";
    let base = match rng.below(4) {
        0 => gu::<T>(rng, u),
        1 => u + rng.log_u128(u.saturating_mul(1_000_000).min(T::UMAX - u)),
        2 => rng.range_u128(0, u),
        _ => rng.log_u128(T::UMAX),
    };
    let mut exponent = match rng.below(4) {
        0 => gu::<T>(rng, u),
        1 => rng.range_u128(1, u - 1),
        2 => u + rng.range_u128(1, u - 1),
        _ => rng.log_u128(u.saturating_mul(16).min(T::UMAX)),
    };
    // Bounded: the u128 implementation rescales to 9 decimals first, so `k·UNIT + small` becomes a
    // whole exponent again and is evaluated by a loop of k iterations.
    exponent = exponent.min(u * 64 + (u - 1));
    if exponent % u == 0 {
        exponent = exponent.saturating_add(1).min(T::UMAX);
        if exponent % u == 0 {
            exponent -= 2;
        }
    }
    cx.m.eval();
    cx.t.hit(h, "calls");
    let got = guard(|| {
        Fixed::<T, D>::from_inner(T::fu(base)).checked_pow(&Fixed::<T, D>::from_inner(T::fu(exponent)))
    });
    match got {
        Ok(Some(_)) => cx.t.hit(h, "value_not_checked_for_exactness"),
        Ok(None) => cx.t.hit(h, "fail"),
        Err(p) => {
            cx.t.hit(h, "panics");
            cx.viol(
                h,
                "panic",
                json!({"type": cx.ty, "base": ds(base), "exponent": ds(exponent), "panic": p}),
            );
        }
    }
}

const N_HELPERS: u64 = 20;

fn one_case<T: Nx + FixedPointOps<D>, const D: u8>(cx: &mut Cx, rng: &mut Rng, i: u64) {
    match i % N_HELPERS {
        0 => case_mul_div::<T, D>(cx, rng, false),
        1 => case_mul_div::<T, D>(cx, rng, true),
        2 => case_mul_div_signed::<T, D>(cx, rng),
        3 => case_round_up_div::<T, D>(cx, rng),
        4 => case_round_up_magnitude_div::<T, D>(cx, rng),
        5 => case_bound_magnitude::<T, D>(cx, rng),
        6 => case_with_signed::<T, D>(cx, rng, 0),
        7 => case_with_signed::<T, D>(cx, rng, 1),
        8 => case_with_signed::<T, D>(cx, rng, 2),
        9 => case_signed_sub_and_conversions::<T, D>(cx, rng),
        10 => case_apply_factor::<T, D>(cx, rng),
        11 => case_div_to_factor::<T, D>(cx, rng),
        12 => case_div_to_factor_signed::<T, D>(cx, rng),
        13 => case_usd_to_mt::<T, D>(cx, rng),
        14 => case_mt_to_usd::<T, D>(cx, rng),
        15 => case_fixed_mul::<T, D>(cx, rng),
        16 => case_pow::<T, D>(cx, rng),
        17 => case_apply_exponent_factor::<T, D>(cx, rng),
        18 => case_apply_factors::<T, D>(cx, rng),
        _ => {
            // the slow rust_decimal path gets a tenth of its slot
            if (i / N_HELPERS) % 10 == 0 {
                case_pow_non_unit::<T, D>(cx, rng)
            } else {
                case_mul_div::<T, D>(cx, rng, rng_bool(i))
            }
        }
    }
}

fn rng_bool(i: u64) -> bool {
    (i / N_HELPERS) % 2 == 0
}

fn shard_run<T: Nx + FixedPointOps<D>, const D: u8>(seed: u64, shard: u64, shards: u64, n: u64, m: &mut Monitor) {
    let mut rng = Rng::derive(seed, shard, fnv(T::NAME.as_bytes()));
    let mut cx = Cx {
        m,
        t: Tally::default(),
        d: Distinct::new(Distinct::budget_for(shards)),
        ty: T::NAME,
    };
    for i in 0..n {
        one_case::<T, D>(&mut cx, &mut rng, i);
    }
    let Cx { m, t, .. } = cx;
    t.flush(T::NAME, m);
}

/// The literal examples of the repository's own unit tests, as a smoke check that the oracle
/// conventions agree with the documented ones (a disagreement here is a harness error, reported as
/// inconclusive, never as a violation).
fn self_check(mon: &mut Monitor) {
    let ok = 650_406_504u64.checked_mul_div_ceil(&40_000_000_000, &80_000_000_000) == Some(325_203_252)
        && 650_406_505u64.checked_mul_div_ceil(&40_000_000_000, &80_000_000_000) == Some(325_203_253)
        && 3u64.as_divisor_to_round_up_magnitude_div(&-1i64) == Some(-1)
        && 1u64.checked_round_up_div(&3) == Some(1);
    let (e, fit, t, err) = pow_oracle::<u64>(12_345_600_000, 2, 1_000_000_000);
    let ok2 = fit && e == t && err == zero();
    if !(ok && ok2) {
        mon.inconclusive("self-check of oracle conventions against the repository's documented examples failed");
    }
}

pub fn run(args: &Args) -> i32 {
    let mut mon = Monitor::new(args, RULE);
    self_check(&mut mon);
    let shards = args.scale(64, 256);
    let per_shard_per_type = match args.extra.get("cases").and_then(|s| s.parse::<u64>().ok()) {
        Some(n) => n,
        None => args.scale(500_000, 6_000_000),
    };
    let seed = args.seed;
    run_shards(&mut mon, args.threads, shards, |shard, m| {
        shard_run::<u64, 9>(seed, shard, shards, per_shard_per_type, m);
        shard_run::<u128, 20>(seed, shard, shards, per_shard_per_type, m);
    });
    mon.assume("integer exponents are exercised up to 8 units for bases above one unit and 40 units otherwise (the real power loops exponent/UNIT times)");
    mon.assume("non-unit exponents (rust_decimal approximation, documented 'do not use') are observed for panics only");
    mon.assume("operator impls `Fixed: Mul/Add` that are documented to panic on overflow are not part of the checked helper set");
    for h in [
        "checked_mul_div",
        "checked_mul_div_ceil",
        "checked_mul_div_with_signed_numerator",
        "checked_round_up_div",
        "as_divisor_to_round_up_magnitude_div",
        "bound_magnitude",
        "checked_add_with_signed",
        "checked_sub_with_signed",
        "checked_mul_with_signed",
        "checked_signed_sub",
        "apply_factor",
        "div_to_factor",
        "div_to_factor_signed",
        "usd_to_market_token_amount",
        "market_token_amount_to_usd",
        "Fixed::checked_mul",
        "Fixed::checked_pow(int)",
        "apply_exponent_factor",
        "apply_factors",
    ] {
        mon.require(&format!("all.{h}.value"), 1_000);
        mon.require(&format!("u64d9.{h}.value"), 200);
        mon.require(&format!("u128d20.{h}.value"), 200);
    }
    for h in ["checked_mul_div", "checked_mul_div_ceil", "apply_factor", "Fixed::checked_mul"] {
        mon.require(&format!("all.{h}.fail_unrepresentable"), 100);
        mon.require(&format!("all.{h}.in_product_needs_widening"), 100);
        mon.require(&format!("all.{h}.in_remainder_nonzero"), 100);
    }
    mon.finish()
}
